#!/usr/bin/env python3
"""writes MANIFEST.json from the table below (single source of truth for the interface)"""
import json, os
HERE = os.path.dirname(os.path.abspath(__file__))
CHECKS = {
 "C15": dict(
    level="other", technique="static analysis: abstract interpretation of special members over the clang AST (field coverage, extent agreement)",
    text="Every user-provided copy/move member of the six linear-algebra classes is interpreted abstractly from /repo's source: at the end of every non-self path each scalar member equals the source's, each owning array is a whole-extent deep copy (or the moved storage) whose extent agrees with the class's own invariant; a move resets the source's size members; no member type can alias. This decides 'all state is transferred and nothing is shared' for every operation history, which the per-history tests cannot; it does not decide numerical equality of later results.",
    note="Trusted: clang 14 front end, gmgir lowering, idiom table (std::copy ranges, element loops, make_unique<T[]>, std::move), value semantics of std::unique_ptr/std::vector. Not decided: observational equality beyond state transfer.",
    ref="DESIGN.md section 4 / C15"),
}
NA = {
 "C02": "order of accuracy is a limit statement about numerical error under refinement; no clause is visible in the shape of the code (its code-shaped preconditions are checked under C03/C10/C19)",
 "C16": "correctness of sparse elimination with fill-in over all patterns/values is an algorithmic-numerical statement; static analysis in reach offers only generic lint, which decides nothing about it",
}
PENDING = "check not built yet in this round (planned: see DESIGN.md section 4); not claimed until it runs"
def main():
    props = [json.loads(l)["id"] for l in open(os.path.join(HERE, "properties.jsonl"))]
    checks = []
    for pid in props:
        if pid in CHECKS:
            c = CHECKS[pid]
            checks.append({
                "property_id": pid,
                "quick_cmd": "./check %s --tier quick" % pid,
                "thorough_cmd": "./check %s --tier thorough" % pid,
                "evidence_file": "evidence/%s.json" % pid,
                "replay_cmd_template": "cat {path}",
                "engine": "gmgir+python",
                "level_claimed": {"category": c["level"], "text": c["text"], "design_ref": c["ref"]},
                "level_note": c["note"],
                "technique": c["technique"],
            })
    na = [{"property_id": p, "reason": NA.get(p, PENDING)} for p in props if p not in CHECKS]
    man = {
        "version": 1,
        "setup_cmd": "./setup.sh",
        "hooks": {"guard": "GMGPOLAR_VERIF", "enable": "no source hooks are needed: every rule reads unmodified source (guard name reserved, unused)",
                  "baseline_off_cmd": "cmake --build /repo/_build -j16 && ctest --test-dir /repo/_build -j8 --timeout 900",
                  "source_commits": [], "add_only": True},
        "engines": [{"name": "gmgir", "path": "gmgir/gmgir.cc", "serves_properties": sorted(CHECKS),
                     "kind_free_text": "libTooling front end (clang 14): resolved-program JSON IR of every function defined in /repo; all rules run over it in Python (lib/gmg)"}],
        "checks": checks,
        "not_applicable": na,
        "notes": "Static analysis only: every check re-extracts the IR from /repo's working tree on each run. Exit 0 held / 1 VIOLATION / 2 analysis broken (anchor vanished, floor unmet). Known findings: known_findings.json.",
    }
    json.dump(man, open(os.path.join(HERE, "MANIFEST.json"), "w"), indent=1)
main()
