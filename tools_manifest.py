#!/usr/bin/env python3
"""writes MANIFEST.json from the table below (single source of truth for the interface)"""
import json, os
HERE = os.path.dirname(os.path.abspath(__file__))
CHECKS = {
 "C15": dict(
    level="other", technique="static analysis: abstract interpretation of special members over the clang AST (field coverage, extent agreement)",
    text="Every user-provided copy/move member of the six linear-algebra classes is interpreted abstractly from /repo's source: at the end of every non-self path each scalar member equals the source's, each owning array is a whole-extent deep copy (or the moved storage) whose extent agrees with the class's own invariant; a move resets the source's size members; no member type can alias. This decides 'all state is transferred and nothing is shared' for every operation history, which the per-history tests cannot; it does not decide numerical equality of later results.",
    note="Trusted: clang 14 front end, gmgir lowering, idiom table (std::copy ranges, element loops, make_unique<T[]>, std::move), value semantics of std::unique_ptr/std::vector. Not decided: observational equality beyond state transfer.",
    ref="DESIGN.md section 4 / C15"),
 "C10": dict(
    level="other", technique="static analysis: value-flow (Herbrand-term abstract interpretation) of the six cycle functions over the clang AST, compared with the correction-scheme recursion; structural forwarding/argument-role rules over the resolved call sites",
    text="Each cycle function (and the level_interpolation wrappers it calls) is interpreted from /repo's source over exact linear combinations of operator symbols, for every cycle type, with/without extrapolation, 2..5 levels and all pre/post smoothing counts 0..2; the term left in the iterate must equal the recursion of the property (for L=2 without smoothing literally u + P Solve R (f - A u), resp. its extrapolated form). Work vectors start as STALE leaves so scratch dependence, aliasing, wrong-level operands or a clobbered right-hand side are visible. No test calls a cycle; this covers every buffer rotation the recursion can produce. The glue to C03-C08 is checked structurally: Level's wrappers forward their own parameters in order to the operator member, Level's factories build the class of the selected strategy with role-correct arguments, and no call site of the library passes two type-compatible arguments swapped with respect to the callee's parameter names.",
    note="Trusted: clang front end, gmgir lowering, the operator in/out table (cross-checked against const-ness), linearity of the operator symbols. Not decided: numerical accuracy; the meaning of each operator symbol is the subject of C03-C08.",
    ref="DESIGN.md section 4 / C10, 3.2"),
 "C09": dict(
    level="other", technique="static analysis: value-flow (Herbrand terms) of setup()+initializeSolution() against the nested-iteration recursion",
    text="setup() and initializeSolution() are interpreted from source in every FMG mode (levels 2..5, 0..3 start-up cycles of each type, each extrapolation mode): the finest-level start vector, as a term over the operator symbols, must be the nested iteration from the coarsest direct solve and contain no leaf left by history; per-level right-hand sides must be D_l(Inj^l f) and every vector/operator used must be allocated/initialised by setup(). The FMG interpolation weight table is extracted symbolically like C08's: copy at coarse nodes, weights sum to one, all mixed monomials r^a theta^b (a,b<=3) reproduced except on the two radial lines next to the boundaries, which use the linear fallback (its off-midpoint first moment is a recorded known finding).",
    note="Trusted: as C10. Not decided: 'discretisation-level accuracy' of the start vector (numerical).",
    ref="DESIGN.md section 4 / C09"),
 "C01": dict(
    level="other", technique="static analysis: value-flow of solve()/converged() with exhaustive case split over stop-test outcomes",
    text="Decides only the second sentence's structural core: on every path of solve() (all extrapolation modes, cycles, FMG on/off, tolerance combinations, norm types, 1..3 iterations, every outcome of every stop test) the number compared with the tolerance is the configured norm of the (extrapolated) residual of the iterate currently held, converged() returns true only through value<=tolerance with the right pairing, the relative value is current/initial of this solve, and an early stop returns exactly the tested iterate. Whether the iteration converges, and its rate, are numerical statements static analysis cannot bound.",
    note="Trusted: as C10. Not decided: convergence within the budget, mean reduction factor < 1.",
    ref="DESIGN.md section 4 / C01"),
 "C13": dict(
    level="other", technique="static analysis: value-flow of setup();solve();solve() with history marked STALE (taint to branches and outputs)",
    text="setup(); solve(); solve() is interpreted from source per option mode; after the first solve every work vector and every member solve() wrote is replaced by a STALE marker, and the second solve's branch conditions and outputs (solution term, iteration count, reduction factor, error figures through the public accessors) must not contain one. setup() must re-define every setup-owned member and clear levels_ first. This makes the history quantifier finite: any dependence on earlier solves has to flow through one of those members, whatever the sequence length.",
    note="Trusted: as C10. Excluded: timing members (accumulate by design). Not decided: equality of floating-point results between a reused and a fresh object beyond 'same term'.",
    ref="DESIGN.md section 4 / C13"),
 "C20": dict(
    level="other", technique="static analysis: definedness and value-flow analysis (scalar terms) of setup()+solve()+accessors per option mode against statistic oracles; structural option-table rules",
    text="Decides the driver-level part: for the cross product of extrapolation, FMG, enabled/disabled tolerances, exact solution present or not, 0..2 iterations, verbose and paraview, with every stop-test outcome explored, no path of setup()+solve()+statistics accessors reads an unassigned scalar, accesses an empty list, dereferences a null input function, unwraps a disabled tolerance or uses a vector/operator setup() did not allocate/initialise in that mode, and no statistic is a quotient by a placeholder zero. On every such path the four statistics accessors equal their defining term: iteration count == cycles applied, reduction factor == (last/first residual norm of this solve)^(1/k), error figures == weighted-l2/max norm of the error of the iterate the last stop test examined, absent when nothing was measured. Option tables (parser validity test == enumerators, throwing defaults) and mandated rejections (take without caches, level minimum) are structural rules.",
    note="Trusted: as C10; NDEBUG build as shipped. Not decided: memory safety of the numerical kernels for all inputs (C18 covers grid generation, C11 the parallel regions on representative shapes), debug-build assertions.",
    ref="DESIGN.md section 4 / C20"),
 "C14": dict(
    level="other", technique="static analysis: typestate/dominance rule on the factorisation flag over the clang AST; who-may-call over the whole-program call graph",
    text="Decides the necessary structural half of 'repeated solves with the same object return identical results': in both solve paths every write of stored matrix data (diagonals, corner, gamma_) is dominated by `!factorized_`, the guarded block sets the flag before it can be left, nothing else writes the flag, and the mutable entry accessors are reachable only from matrix-build code that runs inside smoother constructors (call graph over all 80 library units). Hence after the first solve the object is immutable. That LDL^T plus Sherman-Morrison is backward stable for every SPD input is a numerical statement and is not decided.",
    note="Trusted: clang front end, gmgir lowering, call graph (direct calls + virtual overriders). Not decided: accuracy/stability, n=2 corner coincidence.",
    ref="DESIGN.md section 4 / C14"),
 "C17": dict(
    level="other", technique="static analysis: abstract interpretation (integers concrete, doubles erased or exact symbolic) of the index and query functions from source on a case-complete family of grid shapes; structural rules",
    text="index/fastIndex/index(MultiIndex)/both multiIndex variants/wrapThetaIndex are interpreted from source on every node of shapes nr 2..12 x ntheta (powers of two and not) x every split 0..nr: agreement, bijection onto 0..N-1, inversion, periodic wrap on both code paths. The functions are piecewise linear with predicates r<nsc and node<ncirc only, so the family realises every case. Split identities hold on every path of initializeLineSplitting (float comparisons forked both ways); the power-of-two flag is recomputed after every write of ntheta_; coarsening reads index 2i with sizes (nr+1)/2 and ntheta/2+1; constructors validate before use. Every array subscript met on the way is bounds-checked. With symbolic coordinates (exact values): initializeDistances stores first differences, radialSpacing/angularSpacing/adjacentNeighborDistances return the coordinate differences (periodic in theta, 0 beyond the radial ends), adjacent/diagonal neighbour queries return index(i+-1, wrap(j+-1)) or -1, polarCoordinates returns (r_i, theta_j).",
    note="Trusted: clang front end, gmgir lowering, own IR interpreter (C integer semantics; exact rational values for doubles in the query rule). Not decided: the spacing statements after floating-point rounding.",
    ref="DESIGN.md section 4 / C17"),
 "C18": dict(
    level="other", technique="static analysis: taint analysis with bound-evidence over the grid generators; abstract interpretation of chooseNumberOfLevels; symbolic interpretation of the uniform and the anisotropic generator in exact arithmetic (ordered-set model); interpretation of the grid writer/reader over abstract text streams; structural constructor/endpoint rules",
    text="Decides, from source: (memory safety) every integer in the grid generators that depends on the caller's parameters through a float->int conversion or unchecked arithmetic carries a runtime lower and upper bound before it is used as an index offset, iterator advance or shift amount (asserts are compiled out); constructors validate after the last coordinate write; (levels) chooseNumberOfLevels, interpreted for nr 2..139 x ntheta 2..129 x level caps, implies coarseningGrid's precondition level by level and rejects fewer than two levels; (values, exact arithmetic) the uniform generator with symbolic R0<Rmax yields end points exactly R0/Rmax, radii increasing by fixed positive fractions of Rmax-R0, fine nodes that are midpoints, divideBy2=k containing divideBy2=k-1 as every-second-node subgrid, angles j/ntheta of 2*pi with antipodal partners; the anisotropic generator (its std::set of doubles modelled as an ordered set of exact values R0 + q*(Rmax-R0)) for refinement radii below, inside, at and beyond [R0,Rmax] and all factors yields the same facts, and inadmissible factors throw; (files) writer and reader interpreted over abstract streams: the reader delivers the written sequence in order and length into the same members, each value a function of the written value and the format only, validation precedes derived data, and library writers use a precision whose rounding stays below the tolerance of the reload checks. Not decided: the same value statements after floating-point rounding.",
    note="Trusted: clang front end, gmgir lowering, the taint rule's evidence vocabulary, the stream model (operator<< / operator>> of doubles, std::fixed, std::setprecision, std::endl, whitespace-separated extraction). The taint rule demands the presence of a runtime bound, not its arithmetic adequacy (adequacy of the repaired window was established once by an ASan/UBSan scan recorded in DESIGN.md).",
    ref="DESIGN.md section 4 / C18"),
 "C08": dict(
    level="proof", technique="static analysis: symbolic interpretation of the nine transfer functions into exact weight tables (rational-function DAGs); identities decided by polynomial identity testing on the extracted tables",
    text="Each transfer function is interpreted from source with integers concrete and every floating-point value an exact rational function of grid-spacing symbols, on fine/coarse grid pairs covering every node class (boundary, next-to-boundary, interior; odd/even in each direction; circle and radial section; both boundary modes; differing splits). The extracted weight tables give: restriction == prolongation^T for both pairs, optimised == reference for all four operators, copy at coarse nodes and injection o prolongation = id, convex weights summing to one, and the first-moment (linear reproduction) conditions for arbitrary spacings and for midpoint grids. The off-midpoint moment failure the property records is re-derived on every run and listed as a known finding.",
    note="Trusted: clang front end, gmgir lowering, own IR interpreter, identity testing by exact rational evaluation of the extracted DAGs at 4 pseudo-random points (error probability < 1e-17; a non-zero value is a definite witness). Not decided: thread-count independence (C11), rounding.",
    ref="DESIGN.md section 4 / C08, 3.4"),
 "C03": dict(
    level="proof", technique="static analysis: symbolic interpretation of residual give/take and the LevelCache constructors into exact matrix tables (rational-function DAGs); identities by polynomial identity testing on the tables",
    text="The residual operator in both strategies and both LevelCache constructors are interpreted from source (integers concrete; floating-point values exact rational functions of grid-spacing/coordinate symbols and uninterpreted geometry/coefficient function applications) on representative grids covering both boundary modes, all circle/radial splits incl. degenerate ones, odd/even sizes. Extracted matrices are compared entry by entry: give == take; the four cache-flag combinations agree (coefficient provenance, incl. the path-correlated coeff_alpha); Dirichlet rows are the identity, across-origin rows the 7-point stencil with the antipodal column, interior rows 9-point; row sums equal the mass term; and a coarse cache built from the finer level equals a fresh evaluation at the coarse nodes for every array and flag combination. Tests compare a few implementations numerically on one grid with one cache setting; this covers every node class and every provider site.",
    note="Trusted: clang front end, gmgir lowering, own IR interpreter, identity testing by exact rational evaluation of the DAGs at 4 pseudo-random points (error < 1e-17; non-zero = definite witness). Hypothesis: admissible grids (antipodal angle partners => angular spacing period ntheta/2). Not decided: rounding-level agreement of the computed vectors.",
    ref="DESIGN.md section 4 / C03, 3.4"),
 "C05": dict(
    level="proof", technique="static analysis: symbolic interpretation of the residual operators into exact matrix tables; symmetry decided by identity testing of A[p,q]-A[q,p]",
    text="Decides symmetry: on the same extracted tables as C03, A[p,q] == A[q,p] for every pair of non-Dirichlet nodes, for both strategies, with all four Jacobian entries independent (non-orthogonal mappings, mixed terms present), non-uniform spacings and the across-origin coupling; plus positivity of every diagonal entry (necessary for definiteness). Positive definiteness itself depends on geometry values (arr*att > art^2/4) and is not decided.",
    note="Trusted: as C03. Not decided: positive definiteness; the smoothers' line blocks (symmetry before one-sided storage) are examined with C06 when built.",
    ref="DESIGN.md section 4 / C05"),
 "C04": dict(
    level="proof", technique="static analysis: symbolic interpretation of the direct-solver matrix assembly (incl. CSR container and stencil offset maps) into exact tables, compared with the residual operator table by identity testing; structural rule for the solve path",
    text="Decides that the coarse solve factorises exactly the operator the residual applies: buildSolverMatrix of both strategies is interpreted from source on representative grids (down to the smallest admissible) and the assembled CSR matrix, read back as an exact table, equals the residual operator's table entry by entry (hence all four implementations agree, with C03); every CSR slot receives one column from all its writers, no column is duplicated, sizes agree; the constructor factorises the assembled matrix and solveInPlace uses that factorisation on the caller's vector. That sparse LU without pivoting is then accurate ('zero up to rounding') is numerical and is not decided.",
    note="Trusted: as C03. Not decided: the LU arithmetic (C16 is not applicable), fill-in behaviour.",
    ref="DESIGN.md section 4 / C04"),
 "C06": dict(
    level="proof", technique="static analysis: symbolic interpretation of the smoother matrix builders and of one sweep (line solves summarised, right-hand sides snapshotted) into exact tables; split completeness and Gauss-Seidel freshness by identity testing",
    text="For both smoothers, parallel and sequential variant, on representative smoothing-level grids: the stored line matrices are read back after interpreting build*Matrices from source; one sweep is interpreted with every line solve replaced by its footprint and its right-hand side snapshotted as an exact linear form over rhs, previous-sweep and already-updated values. Per row this is the equation the sweep solves: A_sc row + A_ortho row must equal the residual operator's row (C03's table) with rhs weight one, Dirichlet rows identity with the boundary data, every neighbour read in the version the zebra colour order prescribes, every line solved exactly once, give == take == sequential. This implies the exact solution is a fixed point and the residual vanishes on a line right after its solve, for every input vector.",
    note="Trusted: as C03 plus the line-solver footprint summary. Not decided: exactness of the tridiagonal/LU solves (C14's numerical half), energy-norm monotonicity.",
    ref="DESIGN.md section 4 / C06"),
 "C07": dict(
    level="proof", technique="static analysis: symbolic interpretation of the extrapolated smoother's builders and of one sweep into exact tables; coarse-node invariance and split completeness by identity testing",
    text="Same extraction as C06 for the extrapolated smoothers (tridiagonal, diagonal and inner CSR blocks). At every node of the next coarser grid the right-hand side handed to the solve is exactly the current value and the stored diagonal is the literal 1.0 with no other entry and no neighbour contribution, so the sweep returns x[c]/1.0 unchanged bit for bit; every fine-only row satisfies split completeness against the residual operator with all couplings to coarse nodes on the ortho side; neighbour versions follow the colour order; give == take == sequential.",
    note="Trusted: as C06. Not decided: residual exactly zero on the last colour (arithmetic of the solves).",
    ref="DESIGN.md section 4 / C07"),
 "C11": dict(
    level="other", technique="static analysis: effect analysis of every OpenMP region (index-skeleton interpretation from source, barrier-group happens-before, all iteration pairs unordered) + whole-library region census",
    text="Every function with a parallel region the library can reach (residual give/take, both smoothers and both extrapolated smoothers: matrix build and sweep, direct-solver assembly give/take, both LevelCache constructors, the nine transfer functions, rhs build/discretisation, extrapolated residual, exact-error loop, vector kernels, Vector copies) is interpreted from source on a family of grid shapes covering the circle-count residues mod 2,3,4, ntheta residues mod 3 and 4 and the minimal sizes; every array-element and solver-object access is logged with its barrier group and unit of work. A pair of accesses to one element from different units of one group with at least one write is reported as a race; because all iterations are taken as mutually unordered and nowait merges groups, silence holds for every thread count >= 2 and every schedule. Shared scalars written in a region need a single writer or a reduction clause. A census over all library units fails the check if any reachable region was not interpreted.",
    note="Trusted: clang's OpenMP parsing, gmgir lowering, own interpreter, OpenMP 4.5 barrier semantics as modelled, line-solver footprint summary, the shape family as cut-off. `if` clauses are taken as true. The two task-based smoother variants and CulhamGeometry::my_sum are unreachable (verified on each run: no caller); uninstantiated templates are outside the build.",
    ref="DESIGN.md section 4 / C11, 3.3"),
 "C12": dict(
    level="other", technique="static analysis: one-writer-per-element-per-barrier-group rule on the effect logs + structural taint rules on OpenMP clauses and reduction results",
    text="Decides schedule-independence of every vector output: from the same effect logs as C11, each element has at most one writing unit of work per barrier group and groups are ordered by program text, so the sequence of floating-point updates an element receives is a function of the code path only; no dynamic/guided/runtime schedule, atomic, critical section or thread id occurs; floating-point reductions are confined to the scalar kernels and their results are stored in scalars only (stop test). The element-wise kernels equal their definition on exact tables. The size of the re-association difference of the scalar reductions across thread counts, and rounding, are numerical and not decided.",
    note="Trusted: as C11. Not decided: numerical closeness across thread counts; kernels above/below the 10 000 threshold differ only in the `if` clause, which does not change the element-wise result.",
    ref="DESIGN.md section 4 / C12"),
 "C19": dict(
    level="proof", technique="static analysis / CAS: closed forms extracted from the source into sympy (differentiation, simplification; 50-digit evaluation where simplification does not terminate); abstract interpretation of selectTestCase over the option product",
    text="The input-function classes are pure closed forms; their return expressions are extracted from the IR. Decided symbolically: the four Jacobian functions are the partial derivatives of the mapping for Circular, Shafranov and Czarny (12 identities); every gyro profile has alpha*beta == 1 and every other beta == 0; u_D and u_D_Interior equal the exact solution for all (problem, geometry) pairs; selectTestCase, interpreted for all 128 option combinations, throws or selects five classes whose name components equal the options with constructor arguments in the same roles. The source term of all 66 non-Culham classes is compared with -div(alpha grad u)+beta u formed symbolically from the extracted u, alpha, beta and mapping, at 50-digit precision at random points (relative 1e-7, because the shipped forms carry rounded constants): 63 agree, the three Poisson x Czarny classes do not and are recorded as known findings.",
    note="Trusted: clang front end, gmgir lowering, sympy diff/simplify/lambdify, mpmath. R-C19-5 is a numerical identity check on extracted closed forms, not a symbolic proof. Not decided: Culham (tabulated ODE solution, prescribed source term).",
    ref="DESIGN.md section 4 / C19"),
 "C16": dict(
    level="proof", technique="static analysis: symbolic interpretation of the sparse LU solver on matrices with independent symbolic entries over all small sparsity patterns, storage orders and hash-map iteration orders; A x == b decided by identity testing",
    text="Decides the algebraic half only: the constructor, hash-map elimination with dynamic fill-in, conversion to CSR factors and both substitutions are interpreted from source in the exact rational-function domain, with the stored matrix entries independent symbols (so every matrix with that pattern admitting LU without pivoting is covered at once), for every pattern with a full diagonal up to dimension 3 (quick) / 4 (thorough) plus named larger patterns, with sorted/reversed/rotated storage order, explicitly stored zeros, two hash-map iteration orders, and two right-hand sides solved one after another with the same object; A x == b holds identically. Rounding accuracy, the absolute pivot threshold 1e-12 and iterator validity under rehashing are not decided.",
    note="Trusted: clang front end, gmgir lowering, own interpreter incl. its model of std::unordered_map / std::vector, identity testing (error < 1e-17). Hypothesis: non-vanishing pivots. Exhaustive only up to dimension 4; the elimination's control flow depends on the pattern only.",
    ref="DESIGN.md section 4 / C16"),
}
NA = {
 "C02": "order of accuracy is a limit statement about numerical error under refinement; no clause is visible in the shape of the code (its code-shaped preconditions are checked under C03/C10/C19)",
}
PENDING = "check not built yet in this round (planned: see DESIGN.md section 4); not claimed until it runs"
def main():
    props = [json.loads(l)["id"] for l in open(os.path.join(HERE, "properties.jsonl"))]
    checks = []
    for pid in props:
        if pid in CHECKS:
            c = CHECKS[pid]
            checks.append({
                "property_id": pid,
                "quick_cmd": "./check %s --tier quick" % pid,
                "thorough_cmd": "./check %s --tier thorough" % pid,
                "evidence_file": "evidence/%s.json" % pid,
                "replay_cmd_template": "cat {path}",
                "engine": "gmgir+python",
                "level_claimed": {"category": c["level"], "text": c["text"], "design_ref": c["ref"]},
                "level_note": c["note"],
                "technique": c["technique"],
            })
    na = [{"property_id": p, "reason": NA.get(p, PENDING)} for p in props if p not in CHECKS]
    man = {
        "version": 1,
        "setup_cmd": "./setup.sh",
        "hooks": {"guard": "GMGPOLAR_VERIF", "enable": "no source hooks are needed: every rule reads unmodified source (guard name reserved, unused)",
                  "baseline_off_cmd": "cmake --build /repo/_build -j16 && ctest --test-dir /repo/_build -j8 --timeout 900",
                  "source_commits": [], "add_only": True},
        "engines": [{"name": "gmgir", "path": "gmgir/gmgir.cc", "serves_properties": sorted(CHECKS),
                     "kind_free_text": "libTooling front end (clang 14): resolved-program JSON IR of every function defined in /repo; all rules run over it in Python (lib/gmg)"}],
        "checks": checks,
        "not_applicable": na,
        "notes": "Static analysis only: every check re-extracts the IR from /repo's working tree on each run. Exit 0 held / 1 VIOLATION / 2 analysis broken (anchor vanished, floor unmet). Known findings: known_findings.json.",
    }
    json.dump(man, open(os.path.join(HERE, "MANIFEST.json"), "w"), indent=1)
main()
