#!/usr/bin/env python3
"""tools/run_seeds.py [-j N] [--tier quick|thorough] [substr...]
Regression over the seeded changes (seeded/<id>/patch.diff, delivered by independent sub-agents and confirmed to break
their property): each patch is applied to a scratch copy of /repo (outside /repo and /verif, removed afterwards) and
the check of its own property is run, then the checks named in meta.json's "detected_by"; the seed counts as caught
when one of them exits 1 with a VIOLATION line.  /repo is never patched; evidence goes to .cache/evidence-scratch.
Exit 0 iff every seed is caught.
With --neutral: regression over neutral/<id>/all.diff (behaviour-preserving refactorings delivered by independent sub-agents):
every check listed in its meta.json must exit 0 on the patched scratch copy."""
import json
import os
import re
import shutil
import subprocess
import sys
import tempfile
from concurrent.futures import ThreadPoolExecutor

HERE = os.path.dirname(os.path.abspath(__file__))
VERIF = os.path.dirname(HERE)


def run_seed(args):
    sid, tier = args
    d = os.path.join(VERIF, "seeded", sid)
    meta = json.load(open(os.path.join(d, "meta.json")))
    own = meta["property"]
    others = [c for c in re.findall(r"\bC\d\d\b", meta.get("detected_by", "")) if c != own]
    order = [own] + sorted(set(others), key=others.index)
    scratch = tempfile.mkdtemp(prefix="gmgseed_", dir="/tmp")
    res = {}
    try:
        subprocess.run(["rsync", "-a", "--exclude", "_build", "--exclude", ".git", "--exclude", "third-party", "/repo/", scratch + "/"], check=True)
        r = subprocess.run(["patch", "-p1", "-s", "-i", os.path.join(d, "patch.diff")], cwd=scratch, capture_output=True, text=True)
        if r.returncode != 0:
            return sid, {"patch": "does not apply: " + (r.stdout + r.stderr)[-200:]}, False
        env = dict(os.environ, GMG_REPO=scratch, GMG_EVIDENCE_SCRATCH="1")
        for c in order:
            try:
                r = subprocess.run([os.path.join(VERIF, "check"), c, "--tier", tier], env=env, capture_output=True, text=True, timeout=2400)
                res[c] = r.returncode if (r.returncode != 1 or "VIOLATION property=" in r.stdout) else "1-without-line"
            except subprocess.TimeoutExpired:
                res[c] = "timeout"
            if res[c] == 1:
                break
    finally:
        shutil.rmtree(scratch, ignore_errors=True)
    return sid, res, any(v == 1 for v in res.values())


def run_neutral(args):
    nid, tier = args
    d = os.path.join(VERIF, "neutral", nid)
    meta = json.load(open(os.path.join(d, "meta.json")))
    scratch = tempfile.mkdtemp(prefix="gmgneutral_", dir="/tmp")
    res = {}
    try:
        subprocess.run(["rsync", "-a", "--exclude", "_build", "--exclude", ".git", "--exclude", "third-party", "/repo/", scratch + "/"], check=True)
        r = subprocess.run(["patch", "-p1", "-s", "-i", os.path.join(d, "all.diff")], cwd=scratch, capture_output=True, text=True)
        if r.returncode != 0:
            return nid, {"patch": "does not apply (the tree moved on): " + (r.stdout + r.stderr)[-200:]}, True
        env = dict(os.environ, GMG_REPO=scratch, GMG_EVIDENCE_SCRATCH="1")
        only = os.environ.get("GMG_ONLY_CHECKS", "").split()
        for c in meta["checks"]:
            if only and c not in only:
                continue
            try:
                r = subprocess.run([os.path.join(VERIF, "check"), c, "--tier", tier], env=env, capture_output=True, text=True, timeout=3600)
                res[c] = r.returncode
            except subprocess.TimeoutExpired:
                res[c] = "timeout"
    finally:
        shutil.rmtree(scratch, ignore_errors=True)
    # silent: exit 0 everywhere except where meta.json records, with the reason, that the check gives no verdict (exit 2)
    # on this set; an alarm (exit 1) is never acceptable
    nov = meta.get("no_verdict", {})
    ok = all((v == 0) or (v == 2 and c in nov) for c, v in res.items())
    return nid, res, ok


def main():
    argv = sys.argv[1:]
    jobs, tier, subs, neutral = 4, "quick", [], False
    while argv:
        a = argv.pop(0)
        if a == "-j":
            jobs = int(argv.pop(0))
        elif a == "--tier":
            tier = argv.pop(0)
        elif a == "--neutral":
            neutral = True
        else:
            subs.append(a)
    if neutral:
        # behaviour-preserving refactorings by independent sub-agents (neutral/<id>/all.diff): every listed check must stay silent
        ids = sorted(s for s in os.listdir(os.path.join(VERIF, "neutral")) if os.path.exists(os.path.join(VERIF, "neutral", s, "all.diff")))
        if subs:
            ids = [s for s in ids if any(x in s for x in subs)]
        bad = 0
        with ThreadPoolExecutor(jobs) as ex:
            for nid, res, silent in ex.map(run_neutral, [(s, tier) for s in ids]):
                print("%-8s %-10s %s" % (nid, "silent" if silent else "ALARM/BROKEN", " ".join("%s=%s" % kv for kv in res.items())), flush=True)
                bad += 0 if silent else 1
        print("%d refactoring sets, %d not silent" % (len(ids), bad))
        return 1 if bad else 0
    seeds = sorted(s for s in os.listdir(os.path.join(VERIF, "seeded")) if os.path.exists(os.path.join(VERIF, "seeded", s, "patch.diff")))
    if subs:
        seeds = [s for s in seeds if any(x in s for x in subs)]
    bad = 0
    with ThreadPoolExecutor(jobs) as ex:
        for sid, res, caught in ex.map(run_seed, [(s, tier) for s in seeds]):
            own = sid.split("-")[0]
            how = "own check" if res.get(own) == 1 else ("neighbour " + ",".join(k for k, v in res.items() if v == 1) if caught else "MISSED")
            print("%-8s %-22s %s" % (sid, how, " ".join("%s=%s" % kv for kv in res.items())), flush=True)
            bad += 0 if caught else 1
    print("%d seeds, %d not caught" % (len(seeds), bad))
    return 1 if bad else 0


if __name__ == "__main__":
    sys.exit(main())
