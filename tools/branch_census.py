#!/usr/bin/env python3
"""Adequacy of the shape/mode families: run the interpreting checks with the branch census on and list every
condition of /repo's library code that was evaluated concretely but took only one outcome in ALL of them.
Usage: tools/branch_census.py [quick|thorough]   (development aid; not a registered check)"""
import collections, glob, json, os, shutil, subprocess, sys, tempfile
HERE = os.path.dirname(os.path.dirname(os.path.abspath(__file__)))
tier = sys.argv[1] if len(sys.argv) > 1 else "quick"
IDS = ["C03", "C04", "C05", "C06", "C07", "C08", "C09", "C11", "C12", "C14", "C16", "C17", "C18"]
d = tempfile.mkdtemp(prefix="gmgcover_")
try:
    env = dict(os.environ, GMG_COVER=d, GMG_EVIDENCE_SCRATCH="1")
    ps = [subprocess.Popen([os.path.join(HERE, "check"), i, "--tier", tier], env=env, stdout=subprocess.DEVNULL, stderr=subprocess.DEVNULL) for i in IDS]
    for p in ps:
        p.wait()
    tot, per = collections.defaultdict(set), collections.defaultdict(set)
    for f in glob.glob(d + "/*.json"):
        pid = os.path.basename(f)[:-5]
        for k, v in json.load(open(f)).items():
            tot[k] |= set(v)
            per[k].add(pid)
    one = sorted(k for k, v in tot.items() if len(v) == 1)
    print("%d conditions evaluated concretely, %d with one outcome only" % (len(tot), len(one)))
    for k in one:
        a, b, c = k.split("|", 2)
        print("%s %-70s %-40s %s  [%s]" % ("T" if True in tot[k] else "F", a, b.split("::")[-1][:40], c[:80], ",".join(sorted(per[k]))))
finally:
    shutil.rmtree(d, ignore_errors=True)
