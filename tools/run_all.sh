#!/bin/bash
# runs every registered quick (or $1=thorough) check on the clean /repo tree and validates MANIFEST + evidence
cd "$(dirname "$0")/.."
tier="${1:-quick}"
git -C /repo diff --quiet || { echo "/repo has uncommitted changes"; exit 2; }
rc=0
for id in $(python3 -c "import json;print(' '.join(c['property_id'] for c in json.load(open('MANIFEST.json'))['checks']))"); do
  s=$(date +%s); out=$(timeout 3000 ./check $id --tier $tier 2>&1); r=$?; e=$(date +%s)
  echo "$id rc=$r $((e-s))s $(echo "$out" | head -1 | cut -c1-150)"
  [ $r -ne 0 ] && { rc=1; echo "$out" | tail -5; }
done
python3-vt - <<'PY'
import json,jsonschema,glob
jsonschema.validate(json.load(open('MANIFEST.json')), json.load(open('/root/.vp/MANIFEST.schema.json')))
es=json.load(open('/root/.vp/EVIDENCE.schema.json'))
for f in sorted(glob.glob('evidence/*.json')):
    d=json.load(open(f)); jsonschema.validate(d, es)
    c=d['coverage']
    assert d['violations']==0, f
    if d['level']=='proof': assert c['obligations']==c['discharged'], f
print("MANIFEST and evidence valid")
PY
exit $rc
