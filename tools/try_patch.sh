#!/bin/bash
# tools/try_patch.sh <patch.diff> <check-id>... : run checks against a scratch copy of /repo with the patch applied
# (outside /repo and /verif; removed afterwards; evidence goes to .cache/evidence-scratch)
p="$1"; shift
d=$(mktemp -d /tmp/gmgtry_XXXXXX)
rsync -a --exclude _build --exclude .git --exclude third-party /repo/ "$d/"
( cd "$d" && patch -p1 -s < "$p" ) || { echo "patch does not apply"; rm -rf "$d"; exit 2; }
for c in "$@"; do
  GMG_REPO="$d" timeout 1200 "$(dirname "$0")/../check" "$c" 2>&1 | grep -E "^check C|^  violation|VIOLATION|ANALYSIS-BROKEN" | cut -c1-360 | head -5
done
rm -rf "$d"
