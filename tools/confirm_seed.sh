#!/bin/bash
# tools/confirm_seed.sh <wt> : confirm a sub-agent's seeded change in its scratch worktree:
#   with the change: project builds, 16/16 ctest pass, demo FAILS; without it: demo PASSES.
wt="$1"; out="$wt/_deliver/confirm.log"; : > "$out"
L="$wt/_build/libGMGPolarLib.a $wt/_build/libInputFunctions.a $wt/_build/libPolarGrid.a"
cd "$wt" || exit 2
git apply --check -R _deliver/patch.diff 2>/dev/null || { git checkout -- . ; git apply _deliver/patch.diff || { echo "patch does not apply" >> "$out"; exit 2; }; }
[ -d _build ] || cmake -G Ninja -S . -B _build -DCMAKE_BUILD_TYPE=RelWithDebInfo -DFETCHCONTENT_SOURCE_DIR_GOOGLETEST=/usr/src/googletest -DFETCHCONTENT_UPDATES_DISCONNECTED=ON >/dev/null 2>&1
cmake --build _build -j16 2>&1 | tail -1 >> "$out" || { echo "BUILD FAILED with change" >> "$out"; exit 2; }
ctest --test-dir _build -j8 --timeout 900 2>&1 | grep -E "tests passed|tests failed" >> "$out"
g++ -std=c++20 -O1 -fopenmp -I"$wt/include" _deliver/demo.cpp $L -o _deliver/demo_with 2>>"$out"
( cd _deliver && OMP_NUM_THREADS=2 timeout 600 ./demo_with > demo_with.out 2>&1; echo "demo WITH change: rc=$?" >> "$out"; tail -3 demo_with.out >> "$out" )
git apply -R _deliver/patch.diff
cmake --build _build -j16 2>&1 | tail -1 >> "$out"
g++ -std=c++20 -O1 -fopenmp -I"$wt/include" _deliver/demo.cpp $L -o _deliver/demo_without 2>>"$out"
( cd _deliver && OMP_NUM_THREADS=2 timeout 600 ./demo_without > demo_without.out 2>&1; echo "demo WITHOUT change: rc=$?" >> "$out"; tail -3 demo_without.out >> "$out" )
git apply _deliver/patch.diff
cat "$out"
