#!/usr/bin/env python3
"""Checker self-test: apply one textual mutant at a time to a scratch copy of /repo (outside
/repo and /verif), run the named check with GMG_REPO pointing at the copy, expect exit 1 naming
the rule; neutral edits expect exit 0.  Usage: tools/mutants.py [name-substring ...]"""
import json, os, shutil, subprocess, sys, tempfile
HERE = os.path.dirname(os.path.dirname(os.path.abspath(__file__)))
SPEC = os.path.join(HERE, "mutants", "mutants.json")

def main():
    sel = sys.argv[1:]
    muts = json.load(open(SPEC))
    scratch = tempfile.mkdtemp(prefix="gmgmut_")
    res = []
    try:
        subprocess.check_call(["rsync", "-a", "--exclude", "_build", "--exclude", ".git", "--exclude", "third-party", "/repo/", scratch + "/"])
        for m in muts:
            if sel and not any(s in m["name"] for s in sel):
                continue
            edits = m["edits"] if "edits" in m else [m]
            saved = {}
            ok_apply = True
            for ed in edits:
                p = os.path.join(scratch, ed["file"])
                src = open(p).read()
                saved.setdefault(p, src)
                cnt = src.count(ed["old"])
                want = ed.get("count", 1)
                if cnt < 1 or (want != "all" and cnt != want and "nth" not in ed):
                    print("MUTANT %s: pattern occurs %d times in %s (expected %s)" % (m["name"], cnt, ed["file"], want))
                    ok_apply = False
                    break
                if "nth" in ed:
                    parts = src.split(ed["old"])
                    n = ed["nth"]
                    src = ed["old"].join(parts[:n + 1]) + ed["new"] + ed["old"].join(parts[n + 1:])
                else:
                    src = src.replace(ed["old"], ed["new"])
                open(p, "w").write(src)
            if ok_apply:
                env = dict(os.environ, GMG_REPO=scratch)
                r = subprocess.run([os.path.join(HERE, "check"), m["check"], "--tier", m.get("tier", "quick")], env=env, capture_output=True, text=True, timeout=600)
                out = r.stdout + r.stderr
                expect = m.get("expect", "violation")
                if expect == "violation":
                    good = r.returncode == 1 and ("VIOLATION property=%s" % m["check"]) in out and (m.get("rule", "") in out)
                else:
                    good = r.returncode == 0 and "VIOLATION" not in out
                res.append((m["name"], good, r.returncode))
                print("%-60s %s (rc=%d)" % (m["name"], "ok" if good else "UNEXPECTED", r.returncode))
                if not good or "-v" in sys.argv:
                    print("\n".join("      " + l for l in out.splitlines()[-12:]))
            for p, src in saved.items():
                open(p, "w").write(src)
    finally:
        shutil.rmtree(scratch, ignore_errors=True)
        # evidence files were rewritten by the mutant runs: restore from a real run
    bad = [r for r in res if not r[1]]
    print("%d mutants, %d unexpected" % (len(res), len(bad)))
    sys.exit(1 if bad else 0)
main()
