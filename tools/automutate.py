#!/usr/bin/env python3
"""Gap finder: machine-generated single-token mutants of the library kernels, run against the checks that claim the
mutated file.  A mutant the checks do not report is either equivalent (behaviour unchanged) or a hole in a shape /
mode family; the survivors are listed with their diff for manual triage.  Development aid, not a registered check.

  tools/automutate.py [-n N] [-j JOBS] [-s SEED] [path-substring ...]
"""
import json, os, random, re, shutil, subprocess, sys, tempfile
from concurrent.futures import ThreadPoolExecutor

HERE = os.path.dirname(os.path.dirname(os.path.abspath(__file__)))
REPO = "/repo"

FILEMAP = [
    ("src/Residual/", ["C03"]),
    ("src/DirectSolver/DirectSolverGiveCustomLU/", ["C04"]),
    ("src/DirectSolver/DirectSolverTakeCustomLU/", ["C04"]),
    ("src/Smoother/SmootherGive/buildMatrix", ["C06", "C05"]), ("src/Smoother/SmootherGive/smootherSolver", ["C06"]), ("src/Smoother/SmootherGive/matrixStencil", ["C06"]),
    ("src/Smoother/SmootherTake/buildMatrix", ["C06", "C05"]), ("src/Smoother/SmootherTake/smootherSolver", ["C06"]), ("src/Smoother/SmootherTake/matrixStencil", ["C06"]),
    ("src/ExtrapolatedSmoother/ExtrapolatedSmootherGive/buildAscMatrices", ["C07", "C05"]), ("src/ExtrapolatedSmoother/ExtrapolatedSmootherGive/smootherSolver", ["C07"]),
    ("src/ExtrapolatedSmoother/ExtrapolatedSmootherGive/smootherStencil", ["C07"]),
    ("src/ExtrapolatedSmoother/ExtrapolatedSmootherTake/buildAscMatrices", ["C07", "C05"]), ("src/ExtrapolatedSmoother/ExtrapolatedSmootherTake/smootherSolver", ["C07"]),
    ("src/ExtrapolatedSmoother/ExtrapolatedSmootherTake/smootherStencil", ["C07"]),
    ("src/Interpolation/fmg_interpolation", ["C09"]),
    ("src/Interpolation/", ["C08"]),
    ("src/GMGPolar/MultigridMethods/", ["C10"]),
    ("src/GMGPolar/solver.cpp", ["C01", "C09", "C13", "C20"]),
    ("src/GMGPolar/setup.cpp", ["C09", "C18", "C20", "C10", "C13"]),
    ("src/GMGPolar/level_interpolation.cpp", ["C10"]),
    ("src/GMGPolar/build_rhs_f.cpp", ["C03"]),
    ("src/Level/levelCache.cpp", ["C03"]),
    ("src/Level/level.cpp", ["C10", "C09", "C13", "C20"]),
    ("include/Level/level.h", ["C03"]),
    ("src/PolarGrid/polargrid.cpp", ["C17", "C18"]),
    ("src/PolarGrid/multiindex.cpp", ["C17"]),
    ("src/PolarGrid/anisotropic_division.cpp", ["C18"]),
    ("src/PolarGrid/load_write_grid.cpp", ["C18"]),
    ("include/PolarGrid/polargrid.inl", ["C17"]),
    ("include/LinearAlgebra/symmetricTridiagonalSolver.h", ["C14", "C15"]),
    ("include/LinearAlgebra/sparseLUSolver.h", ["C16", "C15"]),
    ("include/LinearAlgebra/vector.h", ["C15"]),
    ("include/LinearAlgebra/csr_matrix.h", ["C15", "C16", "C04"]),
    ("include/LinearAlgebra/vector_operations.h", ["C12"]),
    ("include/LinearAlgebra/diagonalSolver.h", ["C14", "C15"]),
]
SKIP_LINE = re.compile(r"^\s*(//|/\*|\*|#\s*(include|pragma once|ifdef|ifndef|endif|else|define [A-Z_]+\s*$)|assert\(|LIKWID|std::cout|std::cerr|auto (start|end)_|t_[a-zA-Z_]+ \+?=|throw |static_assert)")
OPS = [
    (re.compile(r"(?<=[\w\)\]]) \+ (?=[\w\(])"), " - "), (re.compile(r"(?<=[\w\)\]]) - (?=[\w\(])"), " + "),
    (re.compile(r" <= "), " < "), (re.compile(r"(?<![<\-]) < (?!<)"), " <= "), (re.compile(r" >= "), " > "), (re.compile(r"(?<![>\-]) > (?!>)"), " >= "),
    (re.compile(r" == "), " != "), (re.compile(r" != "), " == "),
    (re.compile(r"\b0\.5\b"), "0.25"), (re.compile(r"\b0\.25\b"), "0.5"),
    (re.compile(r"(?<=[\[\(, ])(\w+) \+ 1(?=[\]\),;])"), r"\1 + 2"), (re.compile(r"(?<=[\[\(, ])(\w+) - 1(?=[\]\),;])"), r"\1 - 2"),
    (re.compile(r"\bi_theta\b(?= [\+\-] 1)"), "i_r"),
    (re.compile(r"\.first\b"), ".second"), (re.compile(r"\.second\b"), ".first"),
    (re.compile(r"\bh1\b"), "h2"), (re.compile(r"\bk1\b"), "k2"), (re.compile(r"\barr\b"), "att"), (re.compile(r"\bcoeff1\b"), "coeff2"), (re.compile(r"\bcoeff3\b"), "coeff4"),
    (re.compile(r"&&"), "||"),
]


# behaviour-preserving rewrites (--neutral): every check must stay silent on them
NEUTRAL_OPS = [
    (re.compile(r"(?<![\w\.\]\)])(\b[A-Za-z_]\w*\b) \+ (\b[A-Za-z_]\w*\b)(?![\w\(\[\.])(?= *[;\)\],])"), r"\2 + \1"),
    (re.compile(r"(?<![\w\.\]\)/\*] )(?<![\w\.\]\)])(\b[A-Za-z_]\w*\b) \* (\b[A-Za-z_]\w*\b)(?![\w\(\[\.])(?= *[;\)\],+\-])"), r"\2 * \1"),
    (re.compile(r"\((\b[A-Za-z_]\w*\b) < (\b[A-Za-z_]\w*\b)\)"), r"(\2 > \1)"),
    (re.compile(r"\((\b[A-Za-z_]\w*\b) == (\b[A-Za-z_0-9]\w*\b)\)"), r"(\2 == \1)"),
    (re.compile(r"^(\s*)(\b[A-Za-z_]\w*\b) \+= ([^;]+);(\s*(?://.*|/\*.*\*/\s*)?\\?)$"), r"\1\2 = \2 + (\3);\4"),
    (re.compile(r"^(\s*)(\b[A-Za-z_]\w*\b) -= ([^;]+);(\s*(?://.*|/\*.*\*/\s*)?\\?)$"), r"\1\2 = \2 - (\3);\4"),
    (re.compile(r"(\b[A-Za-z_]\w*\b)\+\+\)"), r"++\1)"),
    (re.compile(r"\b0\.25 \* "), "(0.5 * 0.5) * "),
    (re.compile(r"\b0\.5 \* \((\w+) \+ (\w+)\)"), r"((\1 + \2) * 0.5)"),
]
NEUTRAL = [False]


def candidates(files):
    out = []
    ops = NEUTRAL_OPS if NEUTRAL[0] else OPS
    for rel in files:
        lines = open(os.path.join(REPO, rel)).read().split("\n")
        in_block_comment = False
        for ln, line in enumerate(lines):
            st = line.strip()
            if in_block_comment:
                if "*/" in st:
                    in_block_comment = False
                continue
            if st.startswith("/*") and "*/" not in st:
                in_block_comment = True
                continue
            if not st or SKIP_LINE.match(line):
                continue
            code = line.split("//")[0]
            code = re.sub(r"/\*.*?\*/", lambda m: " " * len(m.group(0)), code)
            for oi, (rx, rep) in enumerate(ops):
                for m in rx.finditer(code):
                    new = line[:m.start()] + rx.sub(rep, line[m.start():m.end()], count=1) + line[m.end():]
                    if new != line:
                        out.append((rel, ln, line, new, oi))
    return out


def checks_for(rel):
    for pre, cs in FILEMAP:
        if rel.startswith(pre):
            return cs
    return []


def worker(args):
    scratch, mut, tier = args
    rel, ln, old, new, oi = mut
    p = os.path.join(scratch, rel)
    src = open(p).read()
    lines = src.split("\n")
    assert lines[ln] == old
    lines[ln] = new
    open(p, "w").write("\n".join(lines))
    res = {}
    try:
        for c in checks_for(rel):
            env = dict(os.environ, GMG_REPO=scratch)
            try:
                r = subprocess.run([os.path.join(HERE, "check"), c, "--tier", tier], env=env, capture_output=True, text=True, timeout=900)
                res[c] = r.returncode
                if r.returncode == 1 and not NEUTRAL[0]:
                    break
                if r.returncode != 0 and NEUTRAL[0]:
                    res[c + ":out"] = (r.stdout + r.stderr)[-600:]
            except subprocess.TimeoutExpired:
                res[c] = "timeout"
    finally:
        open(p, "w").write(src)
    return mut, res


def main():
    argv = sys.argv[1:]
    n, jobs, seed, tier, subs = 120, 8, 1, "quick", []
    while argv:
        a = argv.pop(0)
        if a == "-n":
            n = int(argv.pop(0))
        elif a == "-j":
            jobs = int(argv.pop(0))
        elif a == "-s":
            seed = int(argv.pop(0))
        elif a == "-t":
            tier = argv.pop(0)
        elif a == "--neutral":
            NEUTRAL[0] = True
        else:
            subs.append(a)
    files = []
    for root in ("src", "include"):
        for dp, dn, fn in os.walk(os.path.join(REPO, root)):
            for f in fn:
                rel = os.path.relpath(os.path.join(dp, f), REPO)
                if f.endswith((".cpp", ".h", ".inl")) and checks_for(rel) and (not subs or any(s in rel for s in subs)):
                    files.append(rel)
    cands = candidates(sorted(files))
    rnd = random.Random(seed)
    rnd.shuffle(cands)
    picked = cands[:n]
    print("%d candidate mutants in %d files; running %d (seed %d, tier %s)" % (len(cands), len(files), len(picked), seed, tier), flush=True)
    base = tempfile.mkdtemp(prefix="gmgauto_")
    scratches = []
    try:
        for j in range(jobs):
            d = os.path.join(base, "w%d" % j)
            subprocess.check_call(["rsync", "-a", "--exclude", "_build", "--exclude", ".git", "--exclude", "third-party", REPO + "/", d + "/"])
            scratches.append(d)
        # one worker per scratch copy: a simple static partition
        parts = [[] for _ in range(jobs)]
        for i, m in enumerate(picked):
            parts[i % jobs].append(m)

        def run_part(j):
            out = []
            for m in parts[j]:
                out.append(worker((scratches[j], m, tier)))
                mut, res = out[-1]
                if NEUTRAL[0]:
                    verdict = "ALARM" if 1 in res.values() else ("BROKEN" if 2 in res.values() else "silent")
                    print("%-9s %s:%d  %s  ->  %s   %s" % (verdict, mut[0], mut[1] + 1, mut[2].strip()[:70], mut[3].strip()[:70], {k: v for k, v in res.items() if not k.endswith(":out")}), flush=True)
                    continue
                verdict = "caught" if 1 in res.values() else ("broken" if 2 in res.values() and 0 not in res.values() else ("SURVIVED" if res else "unmapped"))
                print("%-9s %s:%d  %s  ->  %s   %s" % (verdict, mut[0], mut[1] + 1, mut[2].strip()[:70], mut[3].strip()[:70], res), flush=True)
            return out
        with ThreadPoolExecutor(jobs) as ex:
            results = [r for part in ex.map(run_part, range(jobs)) for r in part]
    finally:
        shutil.rmtree(base, ignore_errors=True)
    if NEUTRAL[0]:
        alarms = [r for r in results if 1 in r[1].values()]
        brk = [r for r in results if 1 not in r[1].values() and 2 in r[1].values()]
        print("\n%d behaviour-preserving rewrites: %d silent, %d FALSE ALARMS, %d analysis-broken" % (len(results), len(results) - len(alarms) - len(brk), len(alarms), len(brk)))
        for mut, res in alarms + brk:
            print("%s %s:%d\n    - %s\n    + %s\n    %s" % ("ALARM" if 1 in res.values() else "BROKEN", mut[0], mut[1] + 1, mut[2].strip(), mut[3].strip(), {k: (v if not k.endswith(":out") else v[-400:]) for k, v in res.items()}))
        return
    caught = [r for r in results if 1 in r[1].values()]
    broken = [r for r in results if 1 not in r[1].values() and 2 in r[1].values() and 0 not in r[1].values()]
    surv = [r for r in results if r not in caught and r not in broken]
    print("\n%d mutants: %d caught, %d analysis-broken (do not parse / outside the model), %d survived" % (len(results), len(caught), len(broken), len(surv)))
    for mut, res in surv:
        print("SURVIVOR %s:%d %s\n    - %s\n    + %s" % (mut[0], mut[1] + 1, res, mut[2].strip(), mut[3].strip()))


main()
