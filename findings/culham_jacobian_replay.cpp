// Replay for the C19 finding: CulhamGeometry's theta-Jacobians are not the derivatives of its mapping.
// Central finite differences of Fx, Fy (as shipped) against dFx_dt, dFy_dt (as shipped).
#include <cmath>
#include <cstdio>
#include "InputFunctions/DomainGeometry/culhamGeometry.h"
int main()
{
    CulhamGeometry g(1.3);
    int bad = 0;
    for (double r : {0.3, 0.65, 1.0, 1.2}) {
        for (double t : {0.4, 1.3, 2.9, 4.4}) {
            const double h = 1e-6;
            auto Fx = [&](double th) { return g.Fx(r, th, sin(th), cos(th)); };
            auto Fy = [&](double th) { return g.Fy(r, th, sin(th), cos(th)); };
            double fdx = (Fx(t + h) - Fx(t - h)) / (2 * h), fdy = (Fy(t + h) - Fy(t - h)) / (2 * h);
            double jx = g.dFx_dt(r, t, sin(t), cos(t)), jy = g.dFy_dt(r, t, sin(t), cos(t));
            bool ok = std::fabs(fdx - jx) < 1e-6 && std::fabs(fdy - jy) < 1e-6;
            if (!ok) bad++;
            printf("r=%.2f theta=%.1f  dFx/dtheta: FD %+.6f  member %+.6f   dFy/dtheta: FD %+.6f  member %+.6f  %s\n", r, t, fdx, jx, fdy, jy, ok ? "ok" : "MISMATCH");
        }
    }
    printf("%s (%d of 16 points mismatch)\n", bad ? "FAIL" : "PASS", bad);
    return bad ? 1 : 0;
}
