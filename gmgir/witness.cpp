// Witness unit: explicit instantiations so that every member of the linear-algebra
// templates has a resolved (non-dependent) body in the IR. Analysed, never linked or run.
#include "LinearAlgebra/vector.h"
#include "LinearAlgebra/vector_operations.h"
#include "LinearAlgebra/coo_matrix.h"
#include "LinearAlgebra/csr_matrix.h"
#include "LinearAlgebra/sparseLUSolver.h"
#include "LinearAlgebra/symmetricTridiagonalSolver.h"
#include "LinearAlgebra/diagonalSolver.h"

template class Vector<double>;
template class SparseMatrixCOO<double>;
template class SparseMatrixCSR<double>;
template class SparseLUSolver<double>;
template class SymmetricTridiagonalSolver<double>;
template class DiagonalSolver<double>;
