// gmgir — libTooling front end: lowers every function defined outside system headers
// to a compact JSON IR with resolved callees / fields / OpenMP directives.
// One IR node per AST node; no analysis happens here (see DESIGN.md section 2).
//
// usage: gmgir <out.json> <source> -- <compile flags>
#include "clang/AST/ASTConsumer.h"
#include "clang/AST/ASTContext.h"
#include "clang/AST/DeclCXX.h"
#include "clang/AST/DeclTemplate.h"
#include "clang/AST/ExprCXX.h"
#include "clang/AST/ExprOpenMP.h"
#include "clang/AST/OpenMPClause.h"
#include "clang/AST/RecursiveASTVisitor.h"
#include "clang/AST/StmtCXX.h"
#include "clang/AST/StmtOpenMP.h"
#include "clang/Frontend/CompilerInstance.h"
#include "clang/Frontend/FrontendAction.h"
#include "clang/Tooling/CompilationDatabase.h"
#include "clang/Tooling/Tooling.h"
#include "llvm/Support/raw_ostream.h"

#include <map>
#include <set>
#include <sstream>
#include <string>
#include <vector>

using namespace clang;

namespace {

std::string OutPath;

std::string jsonEscape(llvm::StringRef S)
{
    std::string O;
    O.reserve(S.size() + 2);
    for (unsigned char C : S) {
        switch (C) {
        case '"': O += "\\\""; break;
        case '\\': O += "\\\\"; break;
        case '\n': O += "\\n"; break;
        case '\r': O += "\\r"; break;
        case '\t': O += "\\t"; break;
        default:
            if (C < 0x20) {
                char B[8];
                snprintf(B, sizeof B, "\\u%04x", C);
                O += B;
            }
            else
                O += (char)C;
        }
    }
    return O;
}

// Minimal JSON builder: object under construction as a string.
struct J {
    std::string s;
    bool first = true;
    J() { s = "{"; }
    J& kv(const char* k, const std::string& rawJson)
    {
        if (!first) s += ",";
        first = false;
        s += "\"";
        s += k;
        s += "\":";
        s += rawJson;
        return *this;
    }
    J& str(const char* k, llvm::StringRef v) { return kv(k, "\"" + jsonEscape(v) + "\""); }
    J& num(const char* k, long long v) { return kv(k, std::to_string(v)); }
    J& boolean(const char* k, bool v) { return kv(k, v ? "true" : "false"); }
    std::string done() { return s + "}"; }
};

std::string arr(const std::vector<std::string>& v)
{
    std::string s = "[";
    for (size_t i = 0; i < v.size(); i++) {
        if (i) s += ",";
        s += v[i];
    }
    return s + "]";
}

class Lower
{
public:
    ASTContext& Ctx;
    SourceManager& SM;
    PrintingPolicy PP;
    std::map<std::string, int> FileIdx;
    std::vector<std::string> Files;
    std::map<const Decl*, int> DeclIds;

    explicit Lower(ASTContext& C)
        : Ctx(C)
        , SM(C.getSourceManager())
        , PP(C.getLangOpts())
    {
        PP.SuppressTagKeyword = true;
        PP.Bool = true;
    }

    int fileId(llvm::StringRef F)
    {
        auto It = FileIdx.find(F.str());
        if (It != FileIdx.end()) return It->second;
        int id = Files.size();
        Files.push_back(F.str());
        FileIdx[F.str()] = id;
        return id;
    }
    int declId(const Decl* D)
    {
        D = D->getCanonicalDecl();
        auto It = DeclIds.find(D);
        if (It != DeclIds.end()) return It->second;
        int id = DeclIds.size() + 1;
        DeclIds[D] = id;
        return id;
    }

    // [file, line] of expansion location; plus spelling line if in a macro
    std::string loc(SourceLocation L)
    {
        if (L.isInvalid()) return "[-1,0]";
        SourceLocation E = SM.getExpansionLoc(L);
        PresumedLoc P = SM.getPresumedLoc(E);
        if (P.isInvalid()) return "[-1,0]";
        std::string s = "[" + std::to_string(fileId(P.getFilename())) + "," + std::to_string(P.getLine());
        if (L.isMacroID()) {
            SourceLocation S = SM.getSpellingLoc(L);
            PresumedLoc Q = SM.getPresumedLoc(S);
            if (Q.isValid()) s += "," + std::to_string(fileId(Q.getFilename())) + "," + std::to_string(Q.getLine());
        }
        return s + "]";
    }

    std::string typeStr(QualType T) { return T.isNull() ? std::string("?") : T.getAsString(PP); }

    std::string qualName(const NamedDecl* D)
    {
        std::string S;
        llvm::raw_string_ostream OS(S);
        D->getNameForDiagnostic(OS, PP, /*Qualified=*/true);
        OS.flush();
        // for class template specialisation members, getNameForDiagnostic includes args of the function only;
        // qualified part already includes class args via printQualifiedName.
        return S;
    }

    // ---------------------------------------------------------------- expressions
    std::string expr(const Expr* E)
    {
        if (!E) return "null";
        // elide wrappers
        if (auto* P = dyn_cast<ParenExpr>(E)) return expr(P->getSubExpr());
        if (auto* C = dyn_cast<ImplicitCastExpr>(E)) return expr(C->getSubExpr());
        if (auto* C = dyn_cast<ExprWithCleanups>(E)) return expr(C->getSubExpr());
        if (auto* C = dyn_cast<MaterializeTemporaryExpr>(E)) return expr(C->getSubExpr());
        if (auto* C = dyn_cast<CXXBindTemporaryExpr>(E)) return expr(C->getSubExpr());
        if (auto* C = dyn_cast<ConstantExpr>(E)) return expr(C->getSubExpr());
        if (auto* C = dyn_cast<FullExpr>(E)) return expr(C->getSubExpr());
        if (auto* C = dyn_cast<CXXDefaultArgExpr>(E)) return expr(C->getExpr());
        if (auto* C = dyn_cast<CXXDefaultInitExpr>(E)) return expr(C->getExpr());
        if (auto* C = dyn_cast<SubstNonTypeTemplateParmExpr>(E)) return expr(C->getReplacement());
        if (auto* C = dyn_cast<CXXRewrittenBinaryOperator>(E)) return expr(C->getSemanticForm());

        J j;
        auto L = loc(E->getExprLoc());
        if (auto* I = dyn_cast<IntegerLiteral>(E)) {
            llvm::SmallString<32> S;
            I->getValue().toString(S, 10, I->getType()->isSignedIntegerType());
            return j.str("k", "Int").kv("v", std::string(S.str())).done();
        }
        if (auto* F = dyn_cast<FloatingLiteral>(E)) {
            llvm::SmallString<32> S;
            F->getValue().toString(S);
            // source spelling (exact decimal text) for CAS use
            std::string text;
            SourceLocation B = SM.getSpellingLoc(F->getBeginLoc());
            bool Inv = false;
            const char* cp = SM.getCharacterData(B, &Inv);
            if (!Inv && cp) {
                const char* q = cp;
                while (*q && (isalnum((unsigned char)*q) || *q == '.' || ((*q == '+' || *q == '-') && q > cp && (q[-1] == 'e' || q[-1] == 'E'))))
                    q++;
                text.assign(cp, q);
            }
            return j.str("k", "Float").str("v", S.str()).str("text", text).done();
        }
        if (auto* B = dyn_cast<CXXBoolLiteralExpr>(E)) return j.str("k", "Bool").boolean("v", B->getValue()).done();
        if (auto* S = dyn_cast<clang::StringLiteral>(E)) {
            if (S->isAscii() || S->isUTF8()) return j.str("k", "Str").str("v", S->getString()).done();
            return j.str("k", "Str").str("v", "").done();
        }
        if (isa<CXXNullPtrLiteralExpr>(E) || isa<GNUNullExpr>(E)) return j.str("k", "Nullptr").done();
        if (auto* C = dyn_cast<CharacterLiteral>(E)) return j.str("k", "Int").num("v", C->getValue()).done();
        if (isa<CXXThisExpr>(E)) return j.str("k", "This").kv("l", L).done();
        if (auto* D = dyn_cast<DeclRefExpr>(E)) {
            const ValueDecl* V = D->getDecl();
            if (auto* EC = dyn_cast<EnumConstantDecl>(V)) {
                llvm::SmallString<32> S;
                EC->getInitVal().toString(S, 10);
                std::string en;
                if (auto* ED = dyn_cast<EnumDecl>(EC->getDeclContext())) en = qualName(ED);
                return j.str("k", "Enum").str("enum", en).str("name", EC->getName()).kv("v", std::string(S.str())).done();
            }
            if (auto* FD = dyn_cast<FunctionDecl>(V)) return j.str("k", "FnRef").str("name", qualName(FD)).done();
            const char* kind = isa<ParmVarDecl>(V) ? "param" : "var";
            bool glob = false;
            if (auto* VD = dyn_cast<VarDecl>(V)) glob = VD->hasGlobalStorage() && !VD->isStaticLocal();
            j.str("k", "Ref").str("name", V->getName()).num("id", declId(V)).str("rk", kind);
            if (glob) j.boolean("global", true).str("qn", qualName(V));
            j.str("t", typeStr(V->getType())).kv("l", L);
            return j.done();
        }
        if (auto* M = dyn_cast<MemberExpr>(E)) {
            const ValueDecl* V = M->getMemberDecl();
            if (isa<CXXMethodDecl>(V)) {
                return j.str("k", "MethodRef").str("name", qualName(V)).kv("base", expr(M->getBase())).done();
            }
            std::string cls;
            if (auto* RD = dyn_cast<RecordDecl>(V->getDeclContext())) cls = qualName(RD);
            return j.str("k", "Field")
                .kv("base", expr(M->getBase()))
                .str("field", V->getName())
                .str("cls", cls)
                .boolean("arrow", M->isArrow())
                .str("t", typeStr(V->getType()))
                .kv("l", L)
                .done();
        }
        if (auto* O = dyn_cast<CXXOperatorCallExpr>(E)) {
            std::vector<std::string> A;
            for (auto* X : O->arguments()) A.push_back(expr(X));
            std::string callee;
            bool isMember = false;
            if (auto* FD = O->getDirectCallee()) {
                callee = qualName(FD);
                isMember = isa<CXXMethodDecl>(FD);
            }
            return j.str("k", "OpCall")
                .str("op", getOperatorSpelling(O->getOperator()))
                .str("callee", callee)
                .boolean("member", isMember)
                .kv("args", arr(A))
                .str("t", typeStr(E->getType()))
                .kv("l", L)
                .done();
        }
        if (auto* MC = dyn_cast<CXXMemberCallExpr>(E)) {
            std::vector<std::string> A;
            for (auto* X : MC->arguments()) A.push_back(expr(X));
            const CXXMethodDecl* MD = MC->getMethodDecl();
            std::string callee = MD ? qualName(MD) : "";
            j.str("k", "Call").str("callee", callee);
            if (MD) {
                j.boolean("virtual", MD->isVirtual());
                j.boolean("constm", MD->isConst());
                j.num("fid", declId(MD));
            }
            const Expr* Obj = MC->getImplicitObjectArgument();
            j.kv("this", expr(Obj));
            j.kv("args", arr(A)).str("t", typeStr(E->getType())).kv("l", L);
            return j.done();
        }
        if (auto* C = dyn_cast<CallExpr>(E)) {
            std::vector<std::string> A;
            for (auto* X : C->arguments()) A.push_back(expr(X));
            const FunctionDecl* FD = C->getDirectCallee();
            j.str("k", "Call").str("callee", FD ? qualName(FD) : "");
            if (FD)
                j.num("fid", declId(FD));
            else
                j.kv("fn", expr(C->getCallee()));
            j.kv("args", arr(A)).str("t", typeStr(E->getType())).kv("l", L);
            return j.done();
        }
        if (auto* U = dyn_cast<UnaryOperator>(E)) {
            return j.str("k", "Un")
                .str("op", UnaryOperator::getOpcodeStr(U->getOpcode()))
                .boolean("post", U->isPostfix())
                .kv("e", expr(U->getSubExpr()))
                .kv("l", L)
                .done();
        }
        if (auto* B = dyn_cast<BinaryOperator>(E)) {
            const char* k = B->isAssignmentOp() ? "Assign" : "Bin";
            return j.str("k", k)
                .str("op", B->getOpcodeStr())
                .kv("a", expr(B->getLHS()))
                .kv("b", expr(B->getRHS()))
                .str("t", typeStr(E->getType()))
                .kv("l", L)
                .done();
        }
        if (auto* C = dyn_cast<ConditionalOperator>(E)) {
            return j.str("k", "Cond").kv("c", expr(C->getCond())).kv("a", expr(C->getTrueExpr())).kv("b", expr(C->getFalseExpr())).kv("l", L).done();
        }
        if (auto* A = dyn_cast<ArraySubscriptExpr>(E)) {
            return j.str("k", "Index").kv("base", expr(A->getBase())).kv("idx", expr(A->getIdx())).str("t", typeStr(E->getType())).kv("l", L).done();
        }
        if (auto* C = dyn_cast<ExplicitCastExpr>(E)) {
            return j.str("k", "Cast").str("t", typeStr(C->getTypeAsWritten())).kv("e", expr(C->getSubExpr())).kv("l", L).done();
        }
        if (auto* C = dyn_cast<CXXConstructExpr>(E)) {
            std::vector<std::string> A;
            for (auto* X : C->arguments()) A.push_back(expr(X));
            const CXXConstructorDecl* CD = C->getConstructor();
            // copy/move elision of a single argument of same type: keep as Construct (analyses may peel)
            j.str("k", "Construct").str("t", typeStr(E->getType())).str("ctor", CD ? qualName(CD) : "");
            if (CD) {
                j.boolean("copy", CD->isCopyConstructor());
                j.boolean("move", CD->isMoveConstructor());
                j.num("fid", declId(CD));
            }
            j.kv("args", arr(A)).kv("l", L);
            return j.done();
        }
        if (auto* L2 = dyn_cast<LambdaExpr>(E)) {
            std::vector<std::string> Caps;
            for (auto& C : L2->captures()) {
                if (C.capturesVariable()) {
                    J c;
                    c.str("name", C.getCapturedVar()->getName()).num("id", declId(C.getCapturedVar())).boolean("byref", C.getCaptureKind() == LCK_ByRef);
                    Caps.push_back(c.done());
                }
                else if (C.capturesThis()) {
                    J c;
                    c.str("name", "this");
                    Caps.push_back(c.done());
                }
            }
            std::vector<std::string> Ps;
            if (auto* MD = L2->getCallOperator())
                for (auto* P : MD->parameters()) Ps.push_back(param(P));
            return j.str("k", "Lambda").kv("caps", arr(Caps)).kv("params", arr(Ps)).kv("body", stmt(L2->getBody())).kv("l", L).done();
        }
        if (auto* N = dyn_cast<CXXNewExpr>(E)) {
            j.str("k", "New").str("t", typeStr(N->getAllocatedType()));
            if (N->isArray() && N->getArraySize()) j.kv("size", expr(*N->getArraySize()));
            if (N->getInitializer()) j.kv("init", expr(N->getInitializer()));
            return j.kv("l", L).done();
        }
        if (auto* D = dyn_cast<CXXDeleteExpr>(E)) return j.str("k", "Delete").kv("e", expr(D->getArgument())).kv("l", L).done();
        if (auto* I = dyn_cast<InitListExpr>(E)) {
            std::vector<std::string> A;
            for (auto* X : I->inits()) A.push_back(expr(X));
            return j.str("k", "InitList").str("t", typeStr(E->getType())).kv("elems", arr(A)).kv("l", L).done();
        }
        if (auto* S = dyn_cast<CXXStdInitializerListExpr>(E)) return expr(S->getSubExpr());
        if (auto* T = dyn_cast<CXXThrowExpr>(E)) {
            return j.str("k", "Throw").kv("e", expr(T->getSubExpr())).kv("l", L).done();
        }
        if (auto* U = dyn_cast<UnaryExprOrTypeTraitExpr>(E)) {
            Expr::EvalResult R;
            if (E->EvaluateAsInt(R, Ctx)) {
                llvm::SmallString<32> S;
                R.Val.getInt().toString(S, 10);
                return j.str("k", "Int").kv("v", std::string(S.str())).done();
            }
        }
        if (auto* SV = dyn_cast<CXXScalarValueInitExpr>(E)) return j.str("k", "ZeroInit").str("t", typeStr(E->getType())).done();
        if (auto* OAS = dyn_cast<OMPArraySectionExpr>(E)) {
            return j.str("k", "OmpSection").kv("base", expr(OAS->getBase())).kv("lo", expr(OAS->getLowerBound())).kv("len", expr(OAS->getLength())).done();
        }
        if (auto* PD = dyn_cast<PredefinedExpr>(E)) return j.str("k", "Str").str("v", "__func__").done();
        if (auto* TO = dyn_cast<CXXTemporaryObjectExpr>(E)) { /* handled by CXXConstructExpr above (subclass) */
        }
        if (auto* FC = dyn_cast<CXXFunctionalCastExpr>(E)) { /* ExplicitCastExpr subclass handled */
        }
        // dependent / unknown
        std::vector<std::string> Kids;
        for (const Stmt* C : E->children())
            if (C) {
                if (auto* CE = dyn_cast<Expr>(C))
                    Kids.push_back(expr(CE));
                else
                    Kids.push_back(stmt(C));
            }
        return j.str("k", "Unknown").str("cls", E->getStmtClassName()).kv("kids", arr(Kids)).kv("l", L).done();
    }

    std::string param(const ParmVarDecl* P)
    {
        J j;
        QualType T = P->getType();
        bool isRef = T->isReferenceType();
        bool isConst = isRef ? T->getPointeeType().isConstQualified() : T.isConstQualified();
        j.str("name", P->getName()).num("id", declId(P)).str("t", typeStr(T)).boolean("ref", isRef).boolean("const", isConst);
        return j.done();
    }

    std::string varDecl(const VarDecl* V)
    {
        J j;
        j.str("name", V->getName()).num("id", declId(V)).str("t", typeStr(V->getType()));
        if (V->isStaticLocal()) j.boolean("static", true);
        if (V->hasInit()) {
            j.kv("init", expr(V->getInit()));
            // style: c-init / call-init / list-init irrelevant
        }
        if (auto* DD = dyn_cast<DecompositionDecl>(V)) {
            // structured binding: each name is either a member/element of the hidden object (binding expression) or, for
            // tuple-like types (std::pair, std::tuple), a hidden reference variable initialised with get<I>(object)
            std::vector<std::string> Bs;
            for (auto* B : DD->bindings()) {
                J b;
                b.str("name", B->getName()).num("id", declId(B));
                if (auto* HV = B->getHoldingVar()) {
                    b.num("hold_id", declId(HV));
                    if (HV->hasInit()) b.kv("e", expr(HV->getInit()));
                }
                else if (B->getBinding())
                    b.kv("e", expr(B->getBinding()));
                Bs.push_back(b.done());
            }
            j.kv("bindings", arr(Bs));
        }
        j.kv("l", loc(V->getLocation()));
        return j.done();
    }

    // ---------------------------------------------------------------- OpenMP clauses
    std::string ompClause(const OMPClause* C)
    {
        J j;
        j.str("ck", llvm::omp::getOpenMPClauseName(C->getClauseKind()));
        if (auto* I = dyn_cast<OMPIfClause>(C)) j.kv("e", expr(I->getCondition()));
        else if (auto* N = dyn_cast<OMPNumThreadsClause>(C))
            j.kv("e", expr(N->getNumThreads()));
        else if (auto* S = dyn_cast<OMPScheduleClause>(C)) {
            j.str("kind", getOpenMPSimpleClauseTypeName(llvm::omp::OMPC_schedule, S->getScheduleKind()));
            if (S->getChunkSize()) j.kv("chunk", expr(S->getChunkSize()));
        }
        else if (auto* R = dyn_cast<OMPReductionClause>(C)) {
            std::string op;
            llvm::raw_string_ostream OS(op);
            R->getNameInfo().printName(OS, PP);
            OS.flush();
            j.str("op", op);
            std::vector<std::string> V;
            for (auto* E : R->varlists()) V.push_back(expr(E));
            j.kv("vars", arr(V));
        }
        else if (auto* CL = dyn_cast<OMPCollapseClause>(C))
            j.kv("e", expr(CL->getNumForLoops()));
        else if (auto* D = dyn_cast<OMPDependClause>(C)) {
            j.str("kind", getOpenMPSimpleClauseTypeName(llvm::omp::OMPC_depend, D->getDependencyKind()));
            std::vector<std::string> V;
            for (auto* E : D->varlists()) V.push_back(expr(E));
            j.kv("vars", arr(V));
        }
        else if (auto* P = dyn_cast<OMPPrivateClause>(C)) {
            std::vector<std::string> V;
            for (auto* E : P->varlists()) V.push_back(expr(E));
            j.kv("vars", arr(V));
        }
        else if (auto* P = dyn_cast<OMPFirstprivateClause>(C)) {
            std::vector<std::string> V;
            for (auto* E : P->varlists()) V.push_back(expr(E));
            j.kv("vars", arr(V));
        }
        else if (auto* P = dyn_cast<OMPSharedClause>(C)) {
            std::vector<std::string> V;
            for (auto* E : P->varlists()) V.push_back(expr(E));
            j.kv("vars", arr(V));
        }
        else if (auto* P = dyn_cast<OMPLastprivateClause>(C)) {
            std::vector<std::string> V;
            for (auto* E : P->varlists()) V.push_back(expr(E));
            j.kv("vars", arr(V));
        }
        else if (auto* Df = dyn_cast<OMPDefaultClause>(C))
            j.str("kind", std::to_string((unsigned)Df->getDefaultKind()));
        return j.done();
    }

    // ---------------------------------------------------------------- statements
    std::string stmt(const Stmt* S)
    {
        if (!S) return "null";
        if (auto* E = dyn_cast<Expr>(S)) {
            J j;
            return j.str("k", "Expr").kv("e", expr(E)).kv("l", loc(E->getExprLoc())).done();
        }
        J j;
        auto L = loc(S->getBeginLoc());
        if (auto* C = dyn_cast<CompoundStmt>(S)) {
            std::vector<std::string> V;
            for (auto* X : C->body()) V.push_back(stmt(X));
            return j.str("k", "Block").kv("s", arr(V)).kv("l", L).done();
        }
        if (auto* D = dyn_cast<DeclStmt>(S)) {
            std::vector<std::string> V;
            for (auto* X : D->decls()) {
                if (auto* VD = dyn_cast<VarDecl>(X)) V.push_back(varDecl(VD));
                else if (isa<TypedefNameDecl>(X) || isa<StaticAssertDecl>(X) || isa<UsingDecl>(X) || isa<UsingDirectiveDecl>(X) || isa<TagDecl>(X) || isa<EmptyDecl>(X)) {
                }
                else {
                    J u;
                    u.str("name", "?").str("unknown", X->getDeclKindName());
                    V.push_back(u.done());
                }
            }
            return j.str("k", "Decl").kv("vars", arr(V)).kv("l", L).done();
        }
        if (auto* I = dyn_cast<IfStmt>(S)) {
            j.str("k", "If");
            if (I->getInit()) j.kv("init", stmt(I->getInit()));
            if (I->getConditionVariable()) j.kv("cvar", varDecl(I->getConditionVariable()));
            if (I->isConstexpr()) j.boolean("constexpr", true);
            j.kv("c", expr(I->getCond())).kv("t", stmt(I->getThen()));
            if (I->getElse()) j.kv("e", stmt(I->getElse()));
            return j.kv("l", L).done();
        }
        if (auto* F = dyn_cast<ForStmt>(S)) {
            j.str("k", "For");
            j.kv("init", stmt(F->getInit()));
            j.kv("c", F->getCond() ? expr(F->getCond()) : "null");
            j.kv("inc", F->getInc() ? expr(F->getInc()) : "null");
            j.kv("body", stmt(F->getBody()));
            return j.kv("l", L).done();
        }
        if (auto* W = dyn_cast<WhileStmt>(S)) return j.str("k", "While").kv("c", expr(W->getCond())).kv("body", stmt(W->getBody())).kv("l", L).done();
        if (auto* W = dyn_cast<DoStmt>(S)) return j.str("k", "Do").kv("c", expr(W->getCond())).kv("body", stmt(W->getBody())).kv("l", L).done();
        if (auto* W = dyn_cast<SwitchStmt>(S)) return j.str("k", "Switch").kv("e", expr(W->getCond())).kv("body", stmt(W->getBody())).kv("l", L).done();
        if (auto* C = dyn_cast<CaseStmt>(S)) return j.str("k", "Case").kv("v", expr(C->getLHS())).kv("sub", stmt(C->getSubStmt())).kv("l", L).done();
        if (auto* C = dyn_cast<DefaultStmt>(S)) return j.str("k", "Default").kv("sub", stmt(C->getSubStmt())).kv("l", L).done();
        if (auto* R = dyn_cast<ReturnStmt>(S)) {
            j.str("k", "Return");
            if (R->getRetValue()) j.kv("e", expr(R->getRetValue()));
            return j.kv("l", L).done();
        }
        if (isa<BreakStmt>(S)) return j.str("k", "Break").kv("l", L).done();
        if (isa<ContinueStmt>(S)) return j.str("k", "Continue").kv("l", L).done();
        if (isa<NullStmt>(S)) return j.str("k", "Null").done();
        if (auto* T = dyn_cast<CXXTryStmt>(S)) {
            std::vector<std::string> H;
            for (unsigned i = 0; i < T->getNumHandlers(); i++) H.push_back(stmt(T->getHandler(i)->getHandlerBlock()));
            return j.str("k", "Try").kv("body", stmt(T->getTryBlock())).kv("handlers", arr(H)).kv("l", L).done();
        }
        if (auto* RF = dyn_cast<CXXForRangeStmt>(S)) {
            j.str("k", "RangeFor").kv("var", varDecl(RF->getLoopVariable())).kv("range", expr(RF->getRangeInit()));
            if (auto* DD = dyn_cast<DecompositionDecl>(RF->getLoopVariable())) {
                std::vector<std::string> Bs;
                for (auto* B : DD->bindings()) {
                    J b;
                    b.str("name", B->getName()).num("id", declId(B));
                    Bs.push_back(b.done());
                }
                j.kv("bindings", arr(Bs));
            }
            return j.kv("body", stmt(RF->getBody())).kv("l", L).done();
        }
        if (auto* O = dyn_cast<OMPExecutableDirective>(S)) {
            std::vector<std::string> Cl;
            for (auto* C : O->clauses())
                if (C && !C->isImplicit()) Cl.push_back(ompClause(C));
            j.str("k", "Omp").str("dir", llvm::omp::getOpenMPDirectiveName(O->getDirectiveKind())).kv("clauses", arr(Cl));
            if (auto* CR = dyn_cast<OMPCriticalDirective>(O)) j.str("name", CR->getDirectiveName().getAsString());
            if (O->hasAssociatedStmt()) {
                const Stmt* A = O->getAssociatedStmt();
                while (auto* CS = dyn_cast_or_null<CapturedStmt>(A)) A = CS->getCapturedStmt();
                j.kv("body", stmt(A));
            }
            return j.kv("l", L).done();
        }
        if (auto* CS = dyn_cast<CapturedStmt>(S)) return stmt(CS->getCapturedStmt());
        if (auto* LS = dyn_cast<LabelStmt>(S)) return j.str("k", "Label").str("name", LS->getName()).kv("sub", stmt(LS->getSubStmt())).kv("l", L).done();
        if (auto* G = dyn_cast<GotoStmt>(S)) return j.str("k", "Goto").str("name", G->getLabel()->getName()).kv("l", L).done();
        if (auto* AS = dyn_cast<AttributedStmt>(S)) return stmt(AS->getSubStmt());
        std::vector<std::string> Kids;
        for (const Stmt* C : S->children())
            if (C) Kids.push_back(stmt(C));
        return j.str("k", "Unknown").str("cls", S->getStmtClassName()).kv("kids", arr(Kids)).kv("l", L).done();
    }

    // ---------------------------------------------------------------- functions
    std::string function(const FunctionDecl* FD)
    {
        J j;
        j.str("qn", qualName(FD)).str("name", FD->getNameAsString()).num("id", declId(FD));
        j.kv("l", loc(FD->getLocation()));
        j.kv("end", loc(FD->getBodyRBrace()));
        j.str("ret", typeStr(FD->getReturnType()));
        std::vector<std::string> Ps;
        for (auto* P : FD->parameters()) Ps.push_back(param(P));
        j.kv("params", arr(Ps));
        if (auto* MD = dyn_cast<CXXMethodDecl>(FD)) {
            j.str("cls", qualName(MD->getParent()));
            j.boolean("constm", MD->isConst());
            j.boolean("virtual", MD->isVirtual());
            j.boolean("static", MD->isStatic());
            const char* acc = MD->getAccess() == AS_public ? "public" : MD->getAccess() == AS_private ? "private" : "protected";
            j.str("access", acc);
            std::vector<std::string> Ov;
            for (auto* O : MD->overridden_methods()) Ov.push_back("\"" + jsonEscape(qualName(O)) + "\"");
            if (!Ov.empty()) j.kv("overrides", arr(Ov));
            if (MD->isCopyAssignmentOperator()) j.str("special", "copy_assign");
            if (MD->isMoveAssignmentOperator()) j.str("special", "move_assign");
        }
        if (auto* CD = dyn_cast<CXXConstructorDecl>(FD)) {
            if (CD->isCopyConstructor()) j.str("special", "copy_ctor");
            else if (CD->isMoveConstructor())
                j.str("special", "move_ctor");
            else if (CD->isDefaultConstructor())
                j.str("special", "default_ctor");
            else
                j.str("special", "ctor");
            std::vector<std::string> Inits;
            for (auto* I : CD->inits()) {
                J ij;
                if (I->isAnyMemberInitializer()) ij.str("field", I->getAnyMember()->getName());
                else if (I->isBaseInitializer())
                    ij.str("base", typeStr(QualType(I->getBaseClass(), 0)));
                else if (I->isDelegatingInitializer())
                    ij.boolean("delegating", true);
                ij.boolean("written", I->isWritten());
                ij.kv("init", expr(I->getInit()));
                ij.kv("l", loc(I->getSourceLocation()));
                Inits.push_back(ij.done());
            }
            j.kv("inits", arr(Inits));
        }
        if (isa<CXXDestructorDecl>(FD)) j.str("special", "dtor");
        if (FD->isDefaulted()) j.boolean("defaulted", true);
        if (FD->isTemplateInstantiation()) j.boolean("inst", true);
        j.kv("body", stmt(FD->getBody()));
        return j.done();
    }

    std::string record(const CXXRecordDecl* RD)
    {
        J j;
        j.str("qn", qualName(RD)).kv("l", loc(RD->getLocation()));
        std::vector<std::string> Fs;
        for (auto* F : RD->fields()) {
            J f;
            f.str("name", F->getName()).str("t", typeStr(F->getType()));
            if (F->hasInClassInitializer() && F->getInClassInitializer()) f.kv("init", expr(F->getInClassInitializer()));
            f.kv("l", loc(F->getLocation()));
            const char* acc = F->getAccess() == AS_public ? "public" : F->getAccess() == AS_private ? "private" : "protected";
            f.str("access", acc);
            Fs.push_back(f.done());
        }
        j.kv("fields", arr(Fs));
        std::vector<std::string> Bs;
        for (auto& B : RD->bases()) Bs.push_back("\"" + jsonEscape(typeStr(B.getType())) + "\"");
        j.kv("bases", arr(Bs));
        // special members: user-provided / defaulted / deleted / implicit
        std::vector<std::string> Ms;
        for (auto* M : RD->methods()) {
            J m;
            m.str("qn", qualName(M)).str("name", M->getNameAsString());
            m.boolean("user", M->isUserProvided());
            m.boolean("virtual", M->isVirtual());
            m.boolean("pure", M->isPure());
            m.boolean("deleted", M->isDeleted());
            m.boolean("defaulted", M->isDefaulted());
            m.boolean("constm", M->isConst());
            const char* acc = M->getAccess() == AS_public ? "public" : M->getAccess() == AS_private ? "private" : "protected";
            m.str("access", acc);
            m.str("ret", typeStr(M->getReturnType()));
            if (auto* CD = dyn_cast<CXXConstructorDecl>(M)) {
                if (CD->isCopyConstructor()) m.str("special", "copy_ctor");
                else if (CD->isMoveConstructor())
                    m.str("special", "move_ctor");
                else if (CD->isDefaultConstructor())
                    m.str("special", "default_ctor");
                else
                    m.str("special", "ctor");
            }
            else if (isa<CXXDestructorDecl>(M))
                m.str("special", "dtor");
            else if (M->isCopyAssignmentOperator())
                m.str("special", "copy_assign");
            else if (M->isMoveAssignmentOperator())
                m.str("special", "move_assign");
            m.kv("l", loc(M->getLocation()));
            Ms.push_back(m.done());
        }
        j.kv("methods", arr(Ms));
        j.boolean("is_inst", isa<ClassTemplateSpecializationDecl>(RD));
        return j.done();
    }

    std::string enumDecl(const EnumDecl* ED)
    {
        J j;
        j.str("qn", qualName(ED)).kv("l", loc(ED->getLocation()));
        std::vector<std::string> Es;
        for (auto* E : ED->enumerators()) {
            llvm::SmallString<32> S;
            E->getInitVal().toString(S, 10);
            Es.push_back("[\"" + jsonEscape(E->getName()) + "\"," + std::string(S.str()) + "]");
        }
        j.kv("enumerators", arr(Es));
        return j.done();
    }
};

class Visitor : public RecursiveASTVisitor<Visitor>
{
public:
    Lower& LW;
    std::vector<std::string> Fns, Recs, Enums, Globals;
    std::set<const Decl*> Seen;
    explicit Visitor(Lower& L)
        : LW(L)
    {
    }
    bool shouldVisitTemplateInstantiations() const { return true; }
    bool shouldVisitImplicitCode() const { return false; }

    bool inUser(SourceLocation L)
    {
        if (L.isInvalid()) return false;
        SourceLocation E = LW.SM.getExpansionLoc(L);
        if (LW.SM.isInSystemHeader(E)) return false;
        PresumedLoc P = LW.SM.getPresumedLoc(E);
        if (P.isInvalid()) return false;
        llvm::StringRef F = P.getFilename();
        if (F.startswith("/usr/")) return false;
        return true;
    }

    bool VisitFunctionDecl(FunctionDecl* FD)
    {
        if (!FD->doesThisDeclarationHaveABody()) return true;
        if (!inUser(FD->getLocation())) return true;
        if (FD->isDependentContext()) return true; // uninstantiated template pattern
        if (!Seen.insert(FD).second) return true;
        if (auto* MD = dyn_cast<CXXMethodDecl>(FD))
            if (MD->getParent()->isLambda()) return true; // emitted inline
        Fns.push_back(LW.function(FD));
        return true;
    }
    bool VisitCXXRecordDecl(CXXRecordDecl* RD)
    {
        if (!RD->isCompleteDefinition()) return true;
        if (!inUser(RD->getLocation())) return true;
        if (RD->isDependentContext()) return true;
        if (RD->isLambda()) return true;
        if (!Seen.insert(RD).second) return true;
        Recs.push_back(LW.record(RD));
        return true;
    }
    bool VisitEnumDecl(EnumDecl* ED)
    {
        if (!ED->isCompleteDefinition()) return true;
        if (!inUser(ED->getLocation())) return true;
        if (!Seen.insert(ED).second) return true;
        Enums.push_back(LW.enumDecl(ED));
        return true;
    }
    bool VisitVarDecl(VarDecl* VD)
    {
        if (!VD->hasGlobalStorage() || VD->isStaticLocal()) return true;
        if (!inUser(VD->getLocation())) return true;
        if (VD->getDeclContext()->isDependentContext() || isa<ParmVarDecl>(VD)) return true;
        if (!VD->isThisDeclarationADefinition()) return true;
        if (!Seen.insert(VD).second) return true;
        J j;
        j.str("qn", LW.qualName(VD)).str("t", LW.typeStr(VD->getType())).kv("l", LW.loc(VD->getLocation()));
        if (VD->hasInit()) j.kv("init", LW.expr(VD->getInit()));
        Globals.push_back(j.done());
        return true;
    }
};

class Consumer : public ASTConsumer
{
public:
    std::string Main;
    void HandleTranslationUnit(ASTContext& Ctx) override
    {
        if (Ctx.getDiagnostics().hasErrorOccurred()) {
            llvm::errs() << "gmgir: errors in translation unit, not emitting\n";
            return;
        }
        Lower LW(Ctx);
        Visitor V(LW);
        V.TraverseDecl(Ctx.getTranslationUnitDecl());
        std::error_code EC;
        llvm::raw_fd_ostream OS(OutPath, EC);
        if (EC) {
            llvm::errs() << "gmgir: cannot write " << OutPath << "\n";
            return;
        }
        auto& SM = Ctx.getSourceManager();
        std::string main;
        if (auto FE = SM.getFileEntryForID(SM.getMainFileID())) main = FE->getName().str();
        std::vector<std::string> Fs;
        for (auto& F : LW.Files) Fs.push_back("\"" + jsonEscape(F) + "\"");
        J j;
        j.str("unit", main).kv("files", arr(Fs)).kv("enums", arr(V.Enums)).kv("classes", arr(V.Recs)).kv("globals", arr(V.Globals)).kv("functions", arr(V.Fns));
        OS << j.done() << "\n";
    }
};

class Action : public ASTFrontendAction
{
public:
    std::unique_ptr<ASTConsumer> CreateASTConsumer(CompilerInstance&, llvm::StringRef) override { return std::make_unique<Consumer>(); }
};

} // namespace

int main(int argc, const char** argv)
{
    if (argc < 4) {
        llvm::errs() << "usage: gmgir <out.json> <source> -- <flags>\n";
        return 2;
    }
    OutPath = argv[1];
    std::string Src = argv[2];
    int dd = 3;
    while (dd < argc && std::string(argv[dd]) != "--") dd++;
    std::vector<std::string> Flags;
    for (int i = dd + 1; i < argc; i++) Flags.push_back(argv[i]);
    clang::tooling::FixedCompilationDatabase DB(".", Flags);
    clang::tooling::ClangTool Tool(DB, {Src});
    int rc = Tool.run(clang::tooling::newFrontendActionFactory<Action>().get());
    return rc;
}
