#!/bin/sh
# builds the libTooling front end (offline; llvm-14 dev files are in the image)
set -e
cd "$(dirname "$0")"
mkdir -p build .cache evidence replay
clang++ $(llvm-config-14 --cxxflags) -fno-rtti -O1 gmgir/gmgir.cc -o build/gmgir \
    /usr/lib/llvm-14/lib/libclang-cpp.so.14 /usr/lib/llvm-14/lib/libLLVM-14.so
echo "gmgir built"
