"""C18 — generated grids: no out-of-bounds access for any parameters, validation before publication, level
count implies coarsenability, endpoints pinned (decided part; monotonicity/nesting values and the file round
trip are floating-point statements and not decided).

R-C18-1: taint rule (lib/gmg/taint.py): no parameter-derived index offset / iterator advance / shift amount in the
         grid generators reaches its use without a runtime lower and upper bound.
R-C18-2: every non-default constructor validates (checkParameters) after the last write of the coordinates and
         before distances/splitting are derived; a failed file load leaves empty arrays, which checkParameters rejects.
R-C18-3: chooseNumberOfLevels, interpreted from source over a range of (nr, ntheta, maxLevels): the reported level
         count implies coarseningGrid's precondition for every coarsening setup() performs, every smoothing level has
         ntheta % 4 == 0 and nr >= 5, and fewer than two levels is rejected by an exception.
R-C18-4: end-point provenance: in every interpreted generator instance the first and the last radius ARE the caller's R0 and
         Rmax (the value node that was passed in, copied through vectors, sets and refinement), not an expression that equals them
         in exact arithmetic only (R0 + n*h), which rounding may move off the boundary. (Angles: ntheta is a power of two, for
         which n * (2 pi / n) is exact in binary floating point, so pinning the last angle changes no value.)
R-C18-5: the uniform generator interpreted in exact arithmetic with symbolic R0 < Rmax: radii run from exactly R0 to exactly Rmax,
         increase strictly, every fine radius is the midpoint of its coarse neighbours, divideBy2=k contains divideBy2=k-1 as its
         every-second-node subgrid, angles are j/ntheta of the literal 2*pi with antipodal partners, nr is odd. (The anisotropic
         generator orders doubles in std::set and is not interpretable symbolically; its memory safety is R-C18-1.)
R-C18-7: the anisotropic generator (std::set of doubles, window clamping, recursive halving, 8x+1 trimming) interpreted
         in exact arithmetic with an ordered-set model (setdom.py): for refinement radii below, inside, at and beyond
         [R0, Rmax] and factors 1..nr_exp-1 the radii run from exactly R0 to exactly Rmax, increase strictly, nr is odd,
         fine nodes are midpoints, one more divideBy2 nests; no out-of-range access; inadmissible factors throw.
R-C18-8: what the validation accepts: checkParameters interpreted in exact arithmetic on every strictly increasing angle
         vector of the lattice {k*2pi/M} from 0 to 2pi (M = 8: 128 vectors; 12: 2048) - it must throw exactly when the
         vector is not antipodally closed - and on malformed radii/angles of each kind.  (This is also the hypothesis the
         table analyses C03-C09 take for granted: every angle has an antipodal partner.)
R-C18-6: the text round trip.  writeToFile and the file constructor are interpreted over abstract streams (iodom.py):
         the reader must deliver the written sequence — same length, same order, value i = rd(written value i, notation,
         precision) — into the members the writer took them from, nr_/ntheta_ re-derived, validation before derived data.
         Library call sites pass the two file names in the same roles to writer and reader, and a constant precision p with
         10^-p below the tolerance of the reload checks (extracted from equals<double>).
"""
from gmg import conc, grids, ir, report, structq, taint
from gmg.conc import ConcDomain, TOP
from gmg.interp import Cell, Interp, Obj, ThrowEx

UNITS = ["src/PolarGrid/polargrid.cpp", "src/PolarGrid/anisotropic_division.cpp", "src/PolarGrid/load_write_grid.cpp", "src/GMGPolar/setup.cpp",
         "src/PolarGrid/multiindex.cpp"]
GENERATORS = ["PolarGrid::RadialAnisotropicDivision", "PolarGrid::constructRadialDivisions", "PolarGrid::constructAngularDivisions",
              "PolarGrid::divideVector", "PolarGrid::refineGrid", "PolarGrid::initializeDistances", "coarseningGrid",
              "PolarGrid::loadVectorFromFile"]


def algebraic_grid(ck, prog, tier):
    """the uniform generator (constructRadialDivisions with anisotropic factor 0, constructAngularDivisions, refineGrid/divideVector)
    interpreted in the exact rational-function domain with symbolic R0 < Rmax"""
    from gmg import dag, opsdom
    ck.rule("R-C18-5", "uniform generator, exact arithmetic: end points R0/Rmax, strictly increasing, fine nodes are midpoints, nesting under divideBy2, uniform angles ending at 2*pi with antipodal partners", floor=5)
    R0, R = dag.atom("R0"), dag.atom("Rmax")
    span = dag.sub(R, R0)
    TWO_PI = None
    cache = {}

    def gen(nr_exp, nt_exp, db2):
        key = (nr_exp, nt_exp, db2)
        if key in cache:
            return cache[key]
        dom = opsdom.OpsDomain(prog, record=False)
        it = Interp(prog, dom)
        g = dom.new_object("PolarGrid", None, None)
        it.call_function(prog.fn("PolarGrid::constructRadialDivisions"), g, [R0, R, nr_exp, dag.atom("refinement_radius"), 0])
        it.call_function(prog.fn("PolarGrid::constructAngularDivisions"), g, [nt_exp, g.f["nr_"].get()])
        it.call_function(prog.fn("PolarGrid::refineGrid"), g, [db2])
        nr, nt = g.f["nr_"].get(), g.f["ntheta_"].get()
        rad = [dag.lift(g.f["radii_"].get().sym[i]) for i in range(nr)]
        ang = [dag.lift(g.f["angles_"].get().sym[j]) for j in range(nt + 1)]
        cache[key] = (nr, nt, rad, ang, dom.oob)
        return cache[key]

    cases = [(2, -1, 0), (3, 3, 0), (3, -1, 1), (4, 2, 1), (3, 4, 2)] if tier == "quick" else [(a, b, c) for a in (2, 3, 4, 5) for b in (-1, 2, 3, 5) for c in (0, 1, 2)]
    site = ir.locstr(prog.fn("PolarGrid::constructRadialDivisions"))
    for (nr_exp, nt_exp, db2) in cases:
        key = "nr_exp=%d ntheta_exp=%d divideBy2=%d" % (nr_exp, nt_exp, db2)
        ck.instance("R-C18-5", key)
        nr, nt, rad, ang, oob = gen(nr_exp, nt_exp, db2)
        probs = []
        if oob:
            probs.append("out-of-range access %s[%s] (length %s) at %s" % oob[0])
        ck.instance("R-C18-4", "uniform " + key, nontrivial=True)
        if rad[0] is R0 and rad[-1] is R:
            ck.ok("R-C18-4", "uniform " + key, sample={"parameters": key, "first radius": dag.show(rad[0], 20), "last radius": dag.show(rad[-1], 20)})
        elif dag.equal(rad[0], R0) and dag.equal(rad[-1], R):
            which = 0 if rad[0] is not R0 else -1
            ck.violation("R-C18-4", "uniform:accumulated-endpoint", site, "%s: the %s radius equals %s only in exact arithmetic: it is computed as %s instead of being assigned from the end point (after rounding the grid need not end on the boundary)" % (
                key, "first" if which == 0 else "last", "R0" if which == 0 else "Rmax", dag.show(rad[which], 80)))
        else:
            probs.append("end points are %s and %s, not R0 and Rmax" % (dag.show(rad[0], 40), dag.show(rad[-1], 40)))
        if nr % 2 != 1:
            probs.append("nr = %d is even: the grid cannot be coarsened" % nr)
        for i in range(nr - 1):
            ratio = dag.div(dag.sub(rad[i + 1], rad[i]), span)
            vals = set(p.value(ratio) for p in dag.points())
            if len(vals) != 1 or list(vals)[0] <= 0:
                probs.append("radius %d -> %d is not an increasing fixed fraction of Rmax-R0" % (i, i + 1))
                break
        for m in range((nr - 1) // 2):
            if not dag.equal(dag.mul(dag.const(2), rad[2 * m + 1]), dag.add(rad[2 * m], rad[2 * m + 2])):
                probs.append("fine radius %d is not the midpoint of its coarse neighbours" % (2 * m + 1))
                break
        two_pi = ang[-1]
        if two_pi.op != "c" or abs(float(two_pi.a) - 6.283185307179586) > 1e-12:
            probs.append("last angle is %s, not the literal 2*pi" % dag.show(two_pi, 40))
        if not dag.is_zero(ang[0]):
            probs.append("first angle is not 0")
        for j in range(nt + 1):
            if not dag.equal(dag.mul(ang[j], dag.const(nt)), dag.mul(two_pi, dag.const(j))):
                probs.append("angle %d is not %d/%d of 2*pi" % (j, j, nt))
                break
        if nt % 2 == 0:
            for j in range(nt // 2):
                if not dag.equal(dag.mul(dag.sub(ang[j + nt // 2], ang[j]), dag.const(2)), two_pi):
                    probs.append("angle %d has no antipodal partner at index %d" % (j, j + nt // 2))
                    break
        else:
            probs.append("ntheta = %d is odd" % nt)
        if db2 > 0:
            nr2, nt2, rad2, ang2, _ = gen(nr_exp, nt_exp, db2 - 1)
            if nr != 2 * nr2 - 1 or nt != 2 * nt2:
                probs.append("divideBy2=%d gives %dx%d, one refinement less gives %dx%d" % (db2, nr, nt, nr2, nt2))
            else:
                if any(not dag.equal(rad[2 * i], rad2[i]) for i in range(nr2)) or any(not dag.equal(ang[2 * j], ang2[j]) for j in range(nt2 + 1)):
                    probs.append("the grid of one refinement less is not its every-second-node subgrid")
        if probs:
            ck.violation("R-C18-5", "uniform-generator:%s" % probs[0].split(" ")[0], site, "%s: %s" % (key, "; ".join(probs)))
        else:
            ck.ok("R-C18-5", key, sample={"parameters": key, "nr": nr, "ntheta": nt, "radius[1]": dag.show(rad[1], 60)})


def anisotropic_grid(ck, prog, tier):
    """constructRadialDivisions with anisotropic_factor > 0 (RadialAnisotropicDivision: std::set of doubles, window clamping,
    recursive halving, 8x+1 trimming) interpreted with R0 and span = Rmax - R0 as positive symbols; every radius is
    R0 + q*span with a rational q, so order, end points, midpoints and nesting are exact statements about the q's"""
    from fractions import Fraction as F
    from gmg import dag, setdom
    ck.rule("R-C18-7", "anisotropic generator, exact arithmetic, refinement radius below / inside / at / beyond [R0,Rmax]: radii run from exactly R0 to exactly Rmax, increase strictly, nr odd, fine nodes are midpoints, divideBy2 nests; no out-of-range access; unaccepted factors throw", floor=12)
    R0, span = dag.atom("R0"), dag.atom("span")
    R = dag.add(R0, span)
    if tier == "quick":
        cases = [(3, 1), (4, 1), (4, 2), (4, 3), (5, 2), (5, 4), (3, 3)]      # (3, 3): 2^factor == 2^nr_exp must be rejected
        ps = [F(-1, 2), F(0), F(1, 3), F(2, 3), F(9, 10), F(1), F(3, 2)]
    else:
        cases = [(e, a) for e in (2, 3, 4, 5, 6) for a in range(1, e + 1)]
        ps = [F(-1, 2), F(0), F(1, 100), F(1, 5), F(1, 3), F(1, 2), F(2, 3), F(4, 5), F(9, 10), F(99, 100), F(1), F(11, 10), F(3, 2)]
    site = ir.locstr(prog.fn("PolarGrid::RadialAnisotropicDivision"))
    for (nr_exp, af) in cases:
        for p_ in ps:
            key = "nr_exp=%d anisotropic_factor=%d refinement radius = R0 + %s*(Rmax-R0)" % (nr_exp, af, p_)
            ck.instance("R-C18-7", key, nontrivial=(p_ in (F(1), F(3, 2), F(-1, 2)) or af >= 2))
            dom = setdom.GenDomain(prog)
            it = Interp(prog, dom)
            g = dom.new_object("PolarGrid", None, None)
            rr = dag.add(R0, dag.mul(dag.const(p_), span))
            probs = []
            try:
                it.call_function(prog.fn("PolarGrid::constructRadialDivisions"), g, [R0, R, nr_exp, rr, af])
            except ThrowEx as t:
                if 2 ** af < 2 ** nr_exp:
                    probs.append("an admissible combination (2^factor < 2^nr_exp) is rejected: %s" % t.what)
                    ck.violation("R-C18-7", "anisotropic:rejected", site, "%s: %s" % (key, probs[0]))
                else:
                    ck.ok("R-C18-7", key)
                continue
            if 2 ** af >= 2 ** nr_exp:
                probs.append("the factor is accepted although 2^factor >= 2^nr_exp")
            nr = g.f["nr_"].get()
            ra = g.f["radii_"].get()
            rad = [dag.lift(ra.sym.get(i, dag.atom("unset_radius_%d" % i))) for i in range(nr)]
            qs = [dag.const_value(dag.div(dag.sub(x, R0), span)) for x in rad]
            if dom.oob:
                probs.append("out-of-range access %s[%s] (length %s) at %s" % tuple(dom.oob[0]))
            if any(q is None for q in qs):
                probs.append("radius %d is not of the form R0 + q*(Rmax-R0): %s" % (qs.index(None), dag.show(rad[qs.index(None)], 60)))
            else:
                if qs[0] != 0 or not dag.equal(rad[0], R0):
                    probs.append("the first radius is R0 + %s*(Rmax-R0), not R0" % qs[0])
                if qs[-1] != 1 or not dag.equal(rad[-1], R):
                    probs.append("the last radius is R0 + %s*(Rmax-R0), not Rmax" % qs[-1])
                # R-C18-4 (provenance): the end points are the caller's R0 and Rmax themselves (the very value that was passed
                # in, copied), not an expression that equals them in exact arithmetic and may differ by an ulp after rounding
                ck.instance("R-C18-4", "anisotropic " + key, nontrivial=False)
                if rad[0] is R0 and rad[-1] is R:
                    ck.ok("R-C18-4", "anisotropic " + key)
                elif qs[0] == 0 and qs[-1] == 1:
                    ck.violation("R-C18-4", "anisotropic:accumulated-endpoint", site, "%s: the %s radius equals %s only in exact arithmetic: it is computed as %s instead of being assigned from the end point (after rounding the grid need not end on the boundary)" % (
                        key, "first" if rad[0] is not R0 else "last", "R0" if rad[0] is not R0 else "Rmax", dag.show(rad[0] if rad[0] is not R0 else rad[-1], 80)))
                dec = [i for i in range(nr - 1) if not qs[i] < qs[i + 1]]
                if dec:
                    probs.append("radii %d and %d are not increasing (q = %s, %s)" % (dec[0], dec[0] + 1, qs[dec[0]], qs[dec[0] + 1]))
                if nr % 2 != 1:
                    probs.append("nr = %d is even" % nr)
                else:
                    nm = [m for m in range((nr - 1) // 2) if 2 * qs[2 * m + 1] != qs[2 * m] + qs[2 * m + 2]]
                    if nm:
                        probs.append("fine radius %d is not the midpoint of its coarse neighbours" % (2 * nm[0] + 1))
            if not probs:
                # nesting under one more refinement
                it.call_function(prog.fn("PolarGrid::constructAngularDivisions"), g, [2, nr])
                it.call_function(prog.fn("PolarGrid::refineGrid"), g, [1])
                nr2 = g.f["nr_"].get()
                ra2 = g.f["radii_"].get()
                if nr2 != 2 * nr - 1 or any(not dag.equal(dag.lift(ra2.sym.get(2 * i)), rad[i]) for i in range(nr)):
                    probs.append("divideBy2=1 does not contain divideBy2=0 as its every-second-node subgrid")
                if dom.oob:
                    probs.append("out-of-range access %s[%s] (length %s) at %s" % tuple(dom.oob[0]))
            if probs:
                ck.violation("R-C18-7", "anisotropic:%s" % "-".join(probs[0].split(" ")[:3]).replace(":", ""), site, "%s: %s" % (key, "; ".join(probs[:3])))
            else:
                ck.ok("R-C18-7", key, sample={"parameters": key, "nr": nr, "q (first 6)": [str(q) for q in qs[:6]]} if (nr_exp, af, p_) == (4, 2, F(2, 3)) else None)


def validation_domain(ck, prog, tier):
    """PolarGrid::checkParameters interpreted in exact arithmetic on EVERY strictly increasing angle vector of the lattice
    {k*2pi/M} that starts at 0 and ends at 2pi (2^(M-1) vectors), and on malformed radii/angle vectors of each kind: it must
    throw exactly when the grid is not admissible (not antipodally closed, not increasing, wrong end points, too short)"""
    import itertools
    from fractions import Fraction as F
    from gmg import dag, forkdom, setdom
    from gmg.symdom import SArr
    ck.rule("R-C18-8", "checkParameters rejects exactly the inadmissible grids: exhaustive over the lattice angle vectors (antipodal closure), plus malformed radii / angles of every kind", floor=100)
    fn = prog.fn("PolarGrid::checkParameters")
    ck.analysed(fn)

    class D(setdom.GenDomain, forkdom.ValueTests):
        def call(self, e, fr):
            r = self.value_call(e, fr)
            if r is not NotImplemented:
                return r
            return setdom.GenDomain.call(self, e, fr)
    PI = dag.const(F("3.14159265358979323846"))

    def accepted(radii, angles):
        dom = D(prog)
        dom.init_value_tests(None)
        it = Interp(prog, dom)
        g = dom.new_object("PolarGrid", None, None)
        ra = SArr("radii", len(radii), gen=lambda i: dag.const(F(radii[i])))
        an = SArr("angles", len(angles), gen=lambda j: angles[j])
        try:
            it.call_function(fn, g, [Cell(ra), Cell(an)])
        except ThrowEx as t:
            return False, str(t.what)
        if dom.oob:
            raise ir.AnalysisBroken("checkParameters reads out of range: %s" % (dom.oob[0],))
        return True, ""
    M = 8 if tier == "quick" else 12
    lat = lambda k: dag.mul(dag.const(F(2 * k, M)), PI)
    good_r = (F(1, 2), F(1), F(3, 2))
    site = ir.locstr(fn)
    n = 0
    for r_ in range(0, M):
        for S_ in itertools.combinations(range(1, M), r_):
            ks = [0] + list(S_) + [M]
            n += 1
            key = "angles {k*2pi/%d}: k=%s" % (M, ks)
            ck.instance("R-C18-8", key, nontrivial=(n % 16 == 0))
            kset = set(k % M for k in ks)
            admissible = len(ks) >= 3 and all(((k + M // 2) % M) in kset for k in kset)
            acc, why = accepted(good_r, [lat(k) for k in ks])
            if acc != admissible:
                ck.violation("R-C18-8", "checkParameters:%s" % ("accepts-unpaired-angles" if acc else "rejects-admissible-grid"), site,
                             "%s: %s although the vector is %s%s" % (key, "accepted" if acc else "rejected (%s)" % why[:80], "antipodally closed" if admissible else "not antipodally closed: angle index %s has no partner" % sorted(k for k in kset if ((k + M // 2) % M) not in kset)[:1], ""))
            else:
                ck.ok("R-C18-8", key, sample={"angles": key, "verdict": "accepted" if acc else "rejected"} if n in (5, 40) else None)
    g8 = [lat(k) for k in range(0, M + 1, M // 4)]
    malformed = [
        ("one radius", (F(1),), g8, False), ("non-positive radius", (F(0), F(1), F(2)), g8, False), ("negative radius", (F(-1), F(1), F(2)), g8, False),
        ("radii not increasing", (F(1), F(3), F(2)), g8, False), ("repeated radius", (F(1), F(1), F(2)), g8, False), ("two radii", (F(1), F(2)), g8, True),
        ("two angles only", good_r, [lat(0), lat(M)], False), ("first angle not 0", good_r, [lat(1)] + g8[1:], False),
        ("last angle not 2pi", good_r, g8[:-1] + [lat(M - 1)], False), ("angles not increasing", good_r, [g8[0], g8[2], g8[1], g8[3], g8[4]], False),
        ("repeated angle", good_r, [g8[0], g8[1], g8[1], g8[2], g8[3], g8[4]], False), ("negative angle", good_r, [dag.const(F(-1, 10))] + g8[1:], False),
        ("well-formed", good_r, g8, True),
        # what a failed file load leaves behind: empty arrays must be rejected before anything reads them
        ("no radii (failed load)", (), g8, False), ("no angles (failed load)", good_r, [], False), ("no radii and no angles (failed load)", (), [], False),
    ]
    for name, rad, ang, want in malformed:
        key = "malformed input: %s" % name
        ck.instance("R-C18-8", key)
        acc, why = accepted(rad, ang)
        if acc != want:
            ck.violation("R-C18-8", "checkParameters:%s" % name.replace(" ", "-"), site, "%s is %s" % (key, "accepted" if acc else "rejected: %s" % why[:80]))
        else:
            ck.ok("R-C18-8", key)
    ck.extra["lattice_angle_vectors"] = n


def tolerance_of_equals(prog):
    """equals<double>(l, r) must have the shape |l - r| <= T * max(1, |l|, |r|) (or an absolute T); returns (T, scaled)"""
    from fractions import Fraction
    f = prog.fn("equals<double>")
    rets = [n for n in ir.walk(f["body"]) if n.get("k") == "Return"]
    if len(rets) != 1 or rets[0]["e"].get("k") != "Bin" or rets[0]["e"]["op"] not in ("<=", "<"):
        raise ir.AnalysisBroken("equals<double> is no longer a single comparison |l-r| <= tolerance (%s)" % ir.locstr(f))
    rhs = rets[0]["e"]["b"]
    consts, scaled = [], False

    def flat(e):
        nonlocal scaled
        k = e.get("k")
        if k == "Paren":
            return flat(e["e"])
        if k == "Bin" and e["op"] == "*":
            flat(e["a"]); flat(e["b"]); return
        if k in ("Float", "Int"):
            consts.append(Fraction((e.get("text") or str(e["v"])).rstrip("fFlL")) if k == "Float" else Fraction(int(e["v"]))); return
        if k == "Call" and "numeric_limits<double>::epsilon" in e.get("callee", ""):
            consts.append(Fraction(1, 2 ** 52)); return
        if k == "Call" and e.get("callee", "").startswith("std::max"):
            lits = [a for a in ir.walk(e) if a.get("k") == "Float"]
            if not any(float(a["v"]) == 1.0 for a in lits):
                raise ir.AnalysisBroken("scale factor of equals<double> is not max(1, ...)")
            scaled = True; return
        if k in ("Cast", "ImplicitCast"):
            return flat(e["e"])
        raise ir.AnalysisBroken("tolerance expression of equals<double> has an unexpected factor %s at %s" % (k, ir.locstr(e)))
    flat(rhs)
    T = Fraction(1)
    for c in consts:
        T *= c
    return T, scaled


def round_trip(ck, tier):
    from fractions import Fraction
    from gmg import dag, iodom
    ck.rule("R-C18-6", "grid files: the reader delivers exactly the written sequence (same length and order, each value a function of the written value and the format only), to the same members; library writers use a precision the reload checks accept", floor=4)
    prog = ir.load(units=["src/PolarGrid/polargrid.cpp", "src/PolarGrid/load_write_grid.cpp", "src/GMGPolar/setup.cpp"], witness=False)
    for u in prog.units:
        if u not in ck.units:
            ck.units.append(u)
    wfn = prog.fn("PolarGrid::writeToFile")
    cands = [f for f in prog.fns("PolarGrid::PolarGrid") if len(f["params"]) >= 2 and "string" in f["params"][0]["t"] and "string" in f["params"][1]["t"]]
    if len(cands) != 1:
        raise ir.AnalysisBroken("anchor vanished or ambiguous: PolarGrid constructor from two file names (found %d)" % len(cands))
    rfn = cands[0]
    for f in (wfn, rfn, prog.fn("PolarGrid::writeVectorToFile"), prog.fn("PolarGrid::loadVectorFromFile")):
        ck.analysed(f)
    stubs = ["PolarGrid::checkParameters", "PolarGrid::initializeDistances", "PolarGrid::initializeLineSplitting"]
    sizes = [(2, 2), (5, 8)] if tier == "quick" else [(2, 2), (3, 4), (5, 8), (9, 6), (17, 32)]
    P = dag.atom("precision")
    for nr, nt in sizes:
        key = "write+reload nr=%d ntheta=%d" % (nr, nt)
        ck.instance("R-C18-6", key)
        dom = iodom.IoDomain(prog, stubs=stubs)
        it = Interp(prog, dom)
        g = dom.new_object("PolarGrid", None, None)
        ra, an = g.f["radii_"].get(), g.f["angles_"].get()
        for i in range(nr):
            ra.sym[i] = dag.atom("r%d" % i)
        for j in range(nt + 1):
            an.sym[j] = dag.atom("theta%d" % j)
        ra.length, an.length = nr, nt + 1
        g.f["nr_"].set(nr)
        g.f["ntheta_"].set(nt)
        it.call_function(wfn, g, ["<radii file>", "<angles file>", P])
        h = dom.new_object("PolarGrid", None, None)
        it.call_function(rfn, h, ["<radii file>", "<angles file>", None][:len(rfn["params"])])
        probs = []
        notation = set()
        for fname in ("<radii file>", "<angles file>"):
            toks = dom.files.get(fname)
            if toks is None:
                probs.append("%s is never opened for writing" % fname)
                continue
            for t in toks:
                if t[0] == "num":
                    notation.add(t[2])
                    if t[3] is not P:
                        probs.append("a value in %s is written with precision %s, not the caller's" % (fname, t[3]))
        hr, ha = h.f["radii_"].get(), h.f["angles_"].get()
        for nm, got, src, n in (("radii_", hr, ra, nr), ("angles_", ha, an, nt + 1)):
            if got.length != n:
                probs.append("%s reloads with %s entries, %d were written" % (nm, got.length, n))
                continue
            for i in range(n):
                v = got.sym.get(i)
                w = src.sym[i]
                if not (isinstance(v, dag.Node) and any(v is dag.func("rd_" + no, w, P) for no in ("fixed", "scientific", "default"))):
                    probs.append("%s[%d] reloads as %s, written value was %s" % (nm, i, dag.show(v, 60) if isinstance(v, dag.Node) else v, dag.show(w, 20)))
                    break
        if h.f["nr_"].get() != nr or h.f["ntheta_"].get() != nt:
            probs.append("reloaded grid has nr_=%s ntheta_=%s, written grid %d x %d" % (h.f["nr_"].get(), h.f["ntheta_"].get(), nr, nt))
        order = [b for b, _, _ in dom.stub_log]
        if "PolarGrid::checkParameters" not in order:
            probs.append("the file constructor does not validate what it loaded")
        else:
            snap = [sn for b, _, sn in dom.stub_log if b == "PolarGrid::checkParameters"][0]
            if snap is None or snap.get("radii_", (0, 0))[1] != nr or snap.get("angles_", (0, 0))[1] != nt + 1:
                probs.append("checkParameters runs before both files are loaded")
            if order.index("PolarGrid::checkParameters") != 0:
                probs.append("derived data (%s) is built before validation" % order[0])
        if probs:
            ck.violation("R-C18-6", "round-trip:%s" % probs[0].split(" ")[0], ir.locstr(wfn), "%s: %s" % (key, "; ".join(probs)[:900]))
        else:
            ck.ok("R-C18-6", key, sample={"case": key, "radii_[1] after reload": dag.show(hr.sym[1], 60), "notation": sorted(notation)})
    # ---- library call sites: same members in the same positions for writing and loading; adequate constant precision
    T, scaled = tolerance_of_equals(prog)
    import math
    writes, loads = [], []
    for qn, fl in prog.functions.items():
        for f in fl:
            if not ir.locstr(f).startswith("src/") or qn.startswith("PolarGrid::"):
                continue
            consts = {}
            for n in ir.walk(f["body"]):
                if n.get("k") == "Decl":
                    for v in n["vars"]:
                        i_ = v.get("init")
                        while i_ is not None and i_.get("k") in ("Paren", "Cast", "ImplicitCast") and i_.get("e") is not None:
                            i_ = i_["e"]
                        if i_ is not None and i_.get("k") == "Int" and v["t"].startswith("const"):
                            consts[v["id"]] = int(i_["v"])
                        elif i_ is not None and i_.get("k") == "Ref" and i_.get("global") and v["t"].startswith("const"):
                            g_ = prog.globals.get(i_.get("qn")) or {}
                            gi = g_.get("init")
                            while gi is not None and gi.get("k") in ("Paren", "Cast", "ImplicitCast") and gi.get("e") is not None:
                                gi = gi["e"]
                            if gi is not None and gi.get("k") == "Int" and "const" in (g_.get("t") or ""):
                                consts[v["id"]] = int(gi["v"])      # a local constant initialised from a named constant
            for n in ir.walk(f["body"]):
                if n.get("k") == "Call" and n.get("callee") == "PolarGrid::writeToFile":
                    writes.append((f, n, consts))
                if n.get("k") == "Construct" and n.get("ctor") == "PolarGrid::PolarGrid" and len(n["args"]) >= 2 and "string" in n["args"][0].get("t", ""):
                    loads.append((f, n))
    if not writes or not loads:
        raise ir.AnalysisBroken("no library call site of PolarGrid::writeToFile / the file constructor found")
    name = lambda a: a.get("field") or a.get("name")
    for f, n, consts in writes:
        key = "writeToFile call at %s" % ir.locstr(n)
        ck.instance("R-C18-6", key)
        probs = []
        w = (name(n["args"][0]), name(n["args"][1]))
        for lf, ln in loads:
            l = (name(ln["args"][0]), name(ln["args"][1]))
            if set(l) == set(w) and l != w:
                probs.append("radii and angles file names are passed as %s here and as %s to the loading constructor at %s" % (w, l, ir.locstr(ln)))
        pa = n["args"][2]
        while pa.get("k") in ("Paren", "Cast", "ImplicitCast") and pa.get("e") is not None:
            pa = pa["e"]
        pv = int(pa["v"]) if pa.get("k") == "Int" else consts.get(pa.get("id"))
        if pv is None and pa.get("k") == "Ref" and pa.get("global"):
            g_ = prog.globals.get(pa.get("qn")) or {}
            gi = g_.get("init")
            while gi is not None and gi.get("k") in ("Paren", "Cast", "ImplicitCast") and gi.get("e") is not None:
                gi = gi["e"]
            if gi is not None and gi.get("k") == "Int" and "const" in (g_.get("t") or ""):
                pv = int(gi["v"])
        if pv is None:
            ck.undecide("R-C18-6", key, "precision argument is not a compile-time constant")
            continue
        bound = T * Fraction(math.pi) if scaled else T
        if Fraction(1, 10 ** pv) > bound:
            probs.append("precision %d: two reloaded angles carry up to 10^-%d rounding in total, above the tolerance %.3g of the antipodal-partner / end-point tests in checkParameters (equals: %.3g * max(1,|x|)): a grid written here can be rejected when loaded back" % (pv, pv, float(bound), float(T)))
        if probs:
            ck.violation("R-C18-6", "round-trip:call-site", ir.locstr(n), "%s: %s" % (key, "; ".join(probs)))
        else:
            ck.ok("R-C18-6", key, sample={"call": key, "precision": pv, "tolerance of equals": "%.3g" % float(T), "files": list(w)})
    for lf, ln in loads:
        key = "load call at %s" % ir.locstr(ln)
        ck.instance("R-C18-6", key)
        l = [name(ln["args"][0]), name(ln["args"][1])]
        r = [p["name"] for p in rfn["params"][:2]]
        ck.ok("R-C18-6", key, sample={"call": key, "arguments": l, "parameters": r})


def main(tier):
    ck = report.Check("C18", tier, level="other", technique="static taint analysis (parameter-derived index offsets need runtime bounds) + abstract interpretation of chooseNumberOfLevels + structural constructor/endpoint rules")
    ck.rule("R-C18-1", "tainted index offsets / advances / shift amounts carry a runtime lower and upper bound", floor=6)
    ck.rule("R-C18-2", "constructors validate after the last coordinate write and before derived data", floor=3)
    ck.rule("R-C18-3", "level count implies coarsening preconditions; <2 levels rejected", floor=200)
    ck.rule("R-C18-4", "end-point provenance: in every interpreted generator instance (uniform, refined, anisotropic) the first and last radius are the values passed in (same value node), not expressions equal to them in exact arithmetic only", floor=8)
    prog = ir.load(units=UNITS, witness=False)
    ck.units += prog.units
    # ---------------- R-C18-1
    n_tainted = 0
    for qn in GENERATORS:
        fn = prog.fn(qn)
        ck.analysed(fn)
        ft = taint.FnTaint(fn)
        res, tset = ft.report()
        sinks = ft.sinks(tset)
        n_tainted += len(tset)
        seen = set()
        for vid, kind, node in sinks:
            name = ft.vars[vid][0]
            if (name, kind) in seen:
                continue
            seen.add((name, kind))
            for missing in ("lower", "upper"):
                if kind == "loop bound" and missing == "lower":
                    continue
                key = "%s:%s:%s" % (qn.split("::")[-1], name, missing)
                ck.instance("R-C18-1", key + ":" + kind)
                hit = [(k, v) for k, v in res.items() if k[1] == missing and v[3] == name]
                if hit:
                    (bname, _), (skind, snode, dnode, via) = hit[0]
                    ck.violation("R-C18-1", "%s:%s:%s" % (qn.split("::")[-1], bname, missing), ir.locstr(snode),
                                 "%s: `%s` is derived from the caller's parameters%s and reaches a %s (through `%s`) without a runtime %s bound; "
                                 "assert() is compiled out in the shipped build" % (qn, bname, " by a float->int conversion" if tset[[i for i in tset if ft.vars[i][0] == bname][0]][0] == "narrowing" else "",
                                                                                 skind, via, missing))
                else:
                    ck.ok("R-C18-1", key, sample={"function": qn, "variable": name, "sink": kind, "bound": missing})
    if n_tainted < 12:
        raise ir.AnalysisBroken("only %d tainted variables found in the grid generators (>= 12 confirmed by hand)" % n_tainted)
    # ---------------- R-C18-2 (same rule as R-C17-6, plus the file-load path)
    COORD_WRITERS = ("PolarGrid::constructRadialDivisions", "PolarGrid::constructAngularDivisions", "PolarGrid::refineGrid", "PolarGrid::loadVectorFromFile")
    ORDER = ["PolarGrid::checkParameters", "PolarGrid::initializeDistances", "PolarGrid::initializeLineSplitting"]
    nct = 0
    for fn in prog.fns("PolarGrid::PolarGrid"):
        if fn.get("special") != "ctor" or fn.get("defaulted"):
            continue
        nct += 1
        key = "ctor(%s)" % ", ".join(p["t"] for p in fn["params"])[:80]
        ck.instance("R-C18-2", key)
        seq = structq.named_call_sequence(prog, fn, set(COORD_WRITERS) | set(ORDER), "PolarGrid::")
        tail = [q for q in seq if q in ORDER]
        if tail != ORDER or any(q not in ORDER for q in seq[seq.index(ORDER[0]):]):
            ck.violation("R-C18-2", "ctor:order", ir.locstr(fn), "%s: call order %s" % (key, [q.split("::")[1] for q in seq]))
        else:
            ck.ok("R-C18-2", key)
    if nct < 3:
        raise ir.AnalysisBroken("found %d PolarGrid constructors" % nct)
    # (that checkParameters rejects the empty arrays a failed file load leaves behind is decided by interpreting it on them: R-C18-8)
    # ---------------- R-C18-3
    f_choose = prog.fn("GMGPolar::chooseNumberOfLevels")
    ck.analysed(f_choose)

    class Dom(ConcDomain):
        pass

    rng_nr = list(range(2, 40)) + [65, 129] if tier == "quick" else list(range(2, 140))
    rng_nt = [2, 3, 4, 6, 8, 12, 16, 20, 24, 32, 48, 64] if tier == "quick" else list(range(2, 130))
    caps = [-1, 0, 1, 2, 3, 7]
    n = 0
    for nr in rng_nr:
        for nt in rng_nt:
            for cap in caps:
                n += 1
                dom = Dom(prog)
                it = Interp(prog, dom)
                g = grids.make_grid(nr, nt, min(2, nr))
                gm = Obj("GMGPolar")
                gm.f["max_levels_"] = Cell(cap, "max_levels_")
                key = "nr=%d ntheta=%d cap=%d" % (nr, nt, cap)
                ck.instance("R-C18-3", key, nontrivial=(n % 7 == 0))
                try:
                    L = it.call_function(f_choose, gm, [Cell(g)])
                    thrown = None
                except ThrowEx as t:
                    L, thrown = None, t
                probs = []
                if thrown is None:
                    if not isinstance(L, int) or L < 2:
                        probs.append("returns %r levels without throwing" % (L,))
                    else:
                        a, b = nr, nt
                        for lev in range(L - 1):
                            if (a - 1) % 2 != 0 or b % 2 != 0:
                                probs.append("coarsening level %d -> %d violates coarseningGrid's precondition (nr=%d, ntheta=%d)" % (lev, lev + 1, a, b))
                                break
                            if b % 4 != 0 or a < 5:
                                probs.append("smoothing level %d has nr=%d ntheta=%d (smoothers need ntheta %% 4 == 0, nr >= 5)" % (lev, a, b))
                                break
                            a, b = (a + 1) // 2, b // 2
                        if not probs and (a < 3 or b < 2):
                            probs.append("coarsest level nr=%d ntheta=%d too small" % (a, b))
                        if cap > 0 and L > cap:
                            probs.append("returns %d levels above the cap %d" % (L, cap))
                else:
                    # rejected: must be because fewer than two levels are possible
                    a_ok = (nr + 1) // 2 >= 5 and (nr + 1) % 2 == 0
                    b_ok = nt // 2 >= 4 and nt % 2 == 0 and (nt // 2) % 2 == 0
                    if a_ok and b_ok and cap != 1:
                        probs.append("rejects a grid that admits two levels (%s)" % thrown.what[:60])
                if probs:
                    ck.violation("R-C18-3", "chooseNumberOfLevels:%s" % probs[0].split(" ")[0], ir.locstr(f_choose), "%s: %s" % (key, "; ".join(probs)))
                else:
                    ck.ok("R-C18-3", key, sample={"shape": key, "levels": L} if n % 997 == 0 else None)
    # ---------------- R-C18-4 endpoint provenance: decided inside R-C18-5 / R-C18-7 below on the interpreted generators (the end
    # points must be the very values passed in; an expression that equals them only in exact arithmetic is reported)
    # ---------------- R-C18-5: algebraic facts of the uniform generator (exact rational functions of R0, Rmax)
    algebraic_grid(ck, prog, tier)
    # ---------------- R-C18-7: the anisotropic generator in exact arithmetic (ordered-set model)
    anisotropic_grid(ck, prog, tier)
    # ---------------- R-C18-8: what checkParameters accepts
    validation_domain(ck, prog, tier)
    # ---------------- R-C18-6: text round trip (writer and reader interpreted over abstract streams)
    round_trip(ck, tier)
    return ck.finish(
        "Grid generation is examined without running it: (1) a taint analysis over the generator functions marks every integer "
        "that depends on the caller's parameters through a float->int conversion or unchecked arithmetic and requires, at every "
        "use as an index offset, iterator advance or shift amount, a runtime bound in each direction (asserts are compiled out); "
        "an index that depends only on the parameters that size its container is exempt. (2) chooseNumberOfLevels is interpreted "
        "from source for nr 2..139, ntheta 2..129 and six level caps and its result is checked against coarseningGrid's "
        "precondition level by level. (3) constructor order and endpoint pinning are structural. Strict monotonicity, the midpoint "
        "and nesting properties and the text round trip are floating-point facts and are not decided.",
        trusted_base=["clang 14 front end", "gmgir lowering", "taint rule's evidence vocabulary (guards that throw/return/reassign, std::min/max/clamp, 2^k>0)"],
        assumptions=["the taint rule demands the presence of a runtime bound, not its arithmetic adequacy"])


if __name__ == "__main__":
    report.run(main, "C18")
