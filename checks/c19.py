"""C19 — shipped test problems are consistent manufactured solutions (CAS on the closed forms extracted from source).

R-C19-1: for Circular, Shafranov and Czarny geometry the four Jacobian functions equal the partial derivatives of the mapping
         (Fx, Fy) the class defines (12 identities, symbolic).
R-C19-2: every *Gyro* coefficient profile has alpha*beta == 1; every other profile has beta == 0.
R-C19-3: u_D and u_D_Interior are the same function as exact_solution for every (problem, geometry) pair.
R-C19-4: selectTestCase over the option product geometry x problem x alpha x beta: each combination either throws or selects
         five classes whose name components equal the options, constructed from the same parameters in the same roles.
R-C19-5: the source term equals -div(alpha grad u) + beta u under the mapping's metric (L(u) formed symbolically from the
         extracted exact solution, coefficients and mapping; compared with the extracted rhs_f at 50-digit precision at random
         points; relative tolerance 1e-7 because the shipped closed forms carry 15-digit rounded constants).
Not decided: Culham (tabulated ODE solution, prescribed source term).
"""
import itertools
import random

import mpmath as mp
import sympy as sp

from gmg import cas, conc, ir, report
from gmg.conc import ConcDomain
from gmg.interp import Cell, Interp, Obj, Opaque, ThrowEx

GEOS = ["CircularGeometry", "ShafranovGeometry", "CzarnyGeometry"]
PROBLEMS = {0: "CartesianR2", 1: "CartesianR6", 2: "PolarR6", 3: "Refined"}
GEO = {0: "CircularGeometry", 1: "ShafranovGeometry", 2: "CzarnyGeometry", 3: "CulhamGeometry"}
ALPHA = {0: "Poisson", 1: "Sonnendrucker", 2: "Zoni", 3: "ZoniShifted"}


def construct(prog, cls, argvals, ops):
    """member values of an input-function object built by its constructor with the given argument values"""
    ctors = [f for f in prog.fns("%s::%s" % (cls, cls)) if len(f["params"]) == len(argvals)]
    if len(ctors) != 1:
        raise ir.AnalysisBroken("constructor of %s with %d parameters" % (cls, len(argvals)))
    c = ctors[0]
    fields = {}
    crec = prog.classes.get(cls)
    if crec:
        for f in crec["fields"]:
            if f.get("init") is not None and f["init"].get("k") in ("Float", "Int"):
                fields[f["name"]] = ops.num((f["init"].get("text") or f["init"]["v"]).rstrip("fFlL")) if f["init"]["k"] == "Float" else ops.const(int(f["init"]["v"]))
    penv = {p["id"]: v for p, v in zip(c["params"], argvals)}
    for i in c.get("inits", []):
        if "field" in i and i.get("written"):
            e = i["init"]
            while e.get("k") in ("Construct", "Cast") and (e.get("args") or e.get("e")):
                e = e["args"][0] if e.get("k") == "Construct" else e["e"]
            if e.get("k") == "Ref" and e["id"] in penv:
                fields[i["field"]] = penv[e["id"]]
    for s in c["body"]["s"]:
        for n in ir.walk(s):
            if n.get("k") == "Call" and n.get("callee", "").startswith(cls + "::initialize"):
                init = prog.fn(n["callee"])
                for st in init["body"]["s"]:
                    if st.get("k") == "Expr" and st["e"].get("k") == "Assign" and st["e"]["a"].get("k") == "Field":
                        fake = {"qn": n["callee"], "params": [], "body": {"s": [{"k": "Return", "e": st["e"]["b"]}]}}
                        fields[st["e"]["a"]["field"]] = cas.evaluate(fake, ops, {}, fields)
    return fields


def sym_params(theta_explicit=True):
    r, th = sp.Symbol("r", positive=True), sp.Symbol("theta", positive=True)
    return r, th, {"r": r, "theta": th, "sin_theta": sp.sin(th), "cos_theta": sp.cos(th)}


def ctor_args(cls, geo):
    """argument roles by geometry: (Rmax), (Rmax, kappa_eps, delta_e)"""
    return 1 if geo in ("CircularGeometry", "CulhamGeometry") else 3


def culham_tables(ck, prog):
    """CulhamGeometry::initializeGeometry fills ten tables of 1001 entries (Runge-Kutta sweep, normalisation passes, a trapezoid
    sweep, a final shift).  The values are numerical; what is decided here is the *recipe* of every entry: interpreted with the
    loop indices concrete and every double erased (calls of the class's other members return an arbitrary value), each entry's
    history of writing statements must be the table's common history from its second write on (the first write may be an
    initial condition), every entry is written, nothing is read before it is written and nothing is accessed out of range.
    A pass whose bound is off by one leaves one entry with a shorter history (seed C19-5: the last entry of E' and T' skipped
    by a fused normalisation loop)."""
    import re as _re
    from gmg.conc import Arr, ConcDomain, TOP
    from gmg.interp import Interp
    ck.rule("R-C19-6", "Culham tables: every entry has the table's common recipe (same writing statements from the second write on), is written before it is read, in range", floor=8)
    fn = prog.fn("CulhamGeometry::initializeGeometry")
    ck.analysed(fn)

    class TableDomain(ConcDomain):
        def __init__(self, prog_):
            ConcDomain.__init__(self, prog_)
            self.hist = {}
            self.early = []

        def field_default(self, t, name):
            m = _re.match(r"^(const\s+)?std::array<\s*double\s*,\s*(\d+)\s*>$", t.strip())
            if m:
                return Arr(name, int(m.group(2)))
            return ConcDomain.field_default(self, t, name)

        def on_write(self, arr, idx, site):
            ConcDomain.on_write(self, arr, idx, site)
            self.hist.setdefault(arr.name, {}).setdefault(idx, []).append(site)

        def on_read(self, arr, idx, site):
            ConcDomain.on_read(self, arr, idx, site)
            if isinstance(idx, int) and arr.length and 0 <= idx < arr.length and idx not in self.hist.get(arr.name, {}):
                self.early.append((arr.name, idx, site))

        def call(self, e, fr):
            cal = e.get("callee") or ""
            if cal.startswith("CulhamGeometry::") and cal != "CulhamGeometry::initializeGeometry" and e.get("this") is not None and e["this"].get("k") == "This":
                for a in e["args"]:
                    self.interp.rvalue(a, fr)
                return TOP          # the profile functions' values are numerical: not examined here
            return ConcDomain.call(self, e, fr)

    dom = TableDomain(prog)
    it = Interp(prog, dom, loop_limit=5000) if "loop_limit" in Interp.__init__.__code__.co_varnames else Interp(prog, dom)
    obj = dom.new_object("CulhamGeometry", None, None)
    it.call_function(fn, obj, [])
    site0 = ir.locstr(fn)
    tables = sorted(n for n, c in obj.f.items() if isinstance(c.get(), Arr) and (c.get().length or 0) > 100)
    if len(tables) < 8:
        raise ir.AnalysisBroken("only %d tables found in CulhamGeometry (10 confirmed by hand)" % len(tables))
    for name in tables:
        n = obj.f[name].get().length
        ck.instance("R-C19-6", name)
        h = dom.hist.get(name, {})
        probs = []
        missing = [i for i in range(n) if i not in h]
        if missing and len(missing) < n:
            probs.append("entry %d of %d is never written" % (missing[0], n))
        if h:
            from collections import Counter
            common = Counter(tuple(v) for v in h.values()).most_common(1)[0][0]
            for i in sorted(h):
                v = tuple(h[i])
                if len(v) != len(common) or v[1:] != common[1:]:
                    lack = [x for x in common[1:] if x not in v]
                    probs.append("entry %d is written by %s, the other entries by %s%s" % (i, list(v), list(common), ("; it misses the pass at %s" % lack[0]) if lack else ""))
                    break
        early = [x for x in dom.early if x[0] == name]
        if early:
            probs.append("entry %d is read at %s before anything wrote it" % (early[0][1], early[0][2]))
        oob = [o for o in dom.oob if o[0] == name]
        if oob:
            probs.append("out-of-range access %s[%s] at %s" % (name, oob[0][1], oob[0][3]))
        if not h and not missing:
            probs = []
        if probs:
            ck.violation("R-C19-6", "culham-table:%s" % name, site0, "CulhamGeometry::%s (%d entries): %s" % (name, n, "; ".join(probs)))
        else:
            ck.ok("R-C19-6", name, sample={"table": name, "entries": n, "recipe": list(Counter(tuple(v) for v in h.values()).most_common(1)[0][0]) if h else "not written by initializeGeometry"} if name == "E_prime_array" else None)


def main(tier):
    ck = report.Check("C19", tier, level="proof", technique="CAS: closed forms extracted from the source (sympy differentiation/simplification; 50-digit evaluation where simplification does not terminate); abstract interpretation of selectTestCase")
    ck.rule("R-C19-1", "Jacobian functions == partial derivatives of the mapping (Circular, Shafranov, Czarny)", floor=12)
    ck.rule("R-C19-2", "gyro profiles: alpha*beta == 1; other profiles: beta == 0", floor=7)
    ck.rule("R-C19-3", "boundary data == exact solution (u_D and u_D_Interior)", floor=20)
    ck.rule("R-C19-4", "selectTestCase: each option combination throws or selects matching classes with parameters in the same roles", floor=100)
    ck.rule("R-C19-5", "source term == -div(alpha grad u) + beta u under the mapping (50-digit evaluation, rel. 1e-7)", floor=60)
    prog = ir.load(include_inputs=True, witness=False)
    cas.PROG[0] = prog
    ck.units += [u for u in prog.units if "InputFunctions" in u or "select_test_case" in u]
    S = cas.SymOps()
    M = cas.MpOps()
    Rm, ka, de = sp.Symbol("Rmax", positive=True), sp.Symbol("p_kappa_eps", positive=True), sp.Symbol("p_delta_e", positive=True)
    methods = {}
    # ---------------- R-C19-1
    r, th, P = sym_params()
    geo_sym = {}
    for g in GEOS:
        args = [Rm] if ctor_args(g, g) == 1 else [Rm, ka, de]
        fields = construct(prog, g, args, S)
        # derived members stay symbolic where they only scale (factor_xi): keep the computed expression
        fn = lambda m: prog.fn("%s::%s" % (g, m))
        ex = {m: cas.evaluate(fn(m), S, P, fields) for m in ("Fx", "Fy", "dFx_dr", "dFy_dr", "dFx_dt", "dFy_dt")}
        for m in ex:
            ck.analysed(fn(m))
        geo_sym[g] = (ex, fields)
        for jac, base, var in (("dFx_dr", "Fx", r), ("dFy_dr", "Fy", r), ("dFx_dt", "Fx", th), ("dFy_dt", "Fy", th)):
            key = "%s::%s" % (g, jac)
            ck.instance("R-C19-1", key)
            z, how = cas.is_zero(sp.diff(ex[base], var) - ex[jac])
            if z:
                ck.ok("R-C19-1", key, sample={"identity": "d%s/d%s == %s" % (base, var, jac), "geometry": g, "decided by": how})
            else:
                ck.violation("R-C19-1", key, ir.locstr(fn(jac)), "%s is not the derivative of %s with respect to %s (%s)" % (jac, base, var, how))
    # ---------------- R-C19-1 for the Culham geometry, modulo its tabulated radial profiles
    # Delta, E, T, P are interpolated from tables the constructor integrates numerically; they stay uninterpreted functions
    # of rho = r/Rmax, and Delta_prime, E_prime, T_prime, dP are TAKEN to be their derivatives (naming convention of the class;
    # not decided).  What is decided: given that, the four Jacobian members are the partial derivatives of Fx, Fy.
    g = "CulhamGeometry"
    if g in prog.classes:
        xi = sp.Symbol("xi", positive=True)
        Df, Ef, Tf, Pf = (sp.Function(n) for n in ("Delta", "E", "T", "P"))
        prime = lambda F: (lambda a: sp.Subs(sp.Derivative(F(xi), xi), xi, a))
        opaque = {"Delta": Df, "E": Ef, "T": Tf, "P": Pf, "Delta_prime": prime(Df), "E_prime": prime(Ef), "T_prime": prime(Tf), "dP": prime(Pf)}
        missing = [n for n in opaque if ("%s::%s" % (g, n)) not in prog.functions]
        if missing:
            raise ir.AnalysisBroken("anchor vanished: CulhamGeometry::%s" % missing[0])
        fn = lambda m: prog.fn("%s::%s" % (g, m))
        exc = {m: cas.evaluate(fn(m), S, P, {"Rmax": Rm}, opaque=opaque) for m in ("Fx", "Fy", "dFx_dr", "dFy_dr", "dFx_dt", "dFy_dt")}
        for m in exc:
            ck.analysed(fn(m))
        for jac, base, var in (("dFx_dr", "Fx", r), ("dFy_dr", "Fy", r), ("dFx_dt", "Fx", th), ("dFy_dt", "Fy", th)):
            key = "%s::%s" % (g, jac)
            ck.instance("R-C19-1", key)
            d = sp.simplify((sp.diff(exc[base], var) - exc[jac]).doit())
            if d == 0:
                ck.ok("R-C19-1", key, sample={"identity": "d%s/d%s == %s" % (base, var, jac), "geometry": g, "decided by": "sympy, profiles Delta/E/T/P uninterpreted, *_prime/dP taken as their derivatives"})
            else:
                ck.violation("R-C19-1", key, ir.locstr(fn(jac)), "%s is not the derivative of %s with respect to %s: the difference is %s (tabulated profiles uninterpreted; Delta_prime, E_prime, T_prime, dP taken as their derivatives)" % (jac, base, var, sp.sstr(d)[:200]))
    # ---------------- R-C19-2
    aj = sp.Symbol("alpha_jump", positive=True)
    coef_classes = sorted(c for c in prog.classes if c.endswith("Coefficients") and not c.startswith("DensityProfile"))
    coef_sym = {}
    for c in coef_classes:
        fields = construct(prog, c, [Rm, aj], S)
        a = cas.evaluate(prog.fn(c + "::alpha"), S, {"r": r}, fields)
        b = cas.evaluate(prog.fn(c + "::beta"), S, {"r": r}, fields)
        coef_sym[c] = (a, b)
        ck.analysed(prog.fn(c + "::alpha"))
        ck.instance("R-C19-2", c)
        if "Gyro" in c:
            z, how = cas.is_zero(a * b - 1)
            msg = "alpha*beta - 1 does not vanish"
        else:
            z, how = cas.is_zero(b)
            msg = "beta is not identically zero"
        if z:
            ck.ok("R-C19-2", c, sample={"profile": c, "decided by": how})
        else:
            ck.violation("R-C19-2", c, ir.locstr(prog.fn(c + "::beta")), "%s: %s (%s)" % (c, msg, how))
    # ---------------- R-C19-3
    exact_sym = {}
    for c in sorted(prog.classes):
        if "_Boundary_" not in c:
            continue
        prob, geo = c.split("_Boundary_")
        ex_cls = "%s_%s" % (prob, geo)
        if ex_cls not in prog.classes:
            raise ir.AnalysisBroken("no exact-solution class %s for boundary class %s" % (ex_cls, c))
        if geo == "CulhamGeometry":
            continue
        n = ctor_args(c, geo)
        args = [Rm] if n == 1 else [Rm, ka, de]
        fb = construct(prog, c, args, S)
        fe = construct(prog, ex_cls, args, S)
        u = cas.evaluate(prog.fn(ex_cls + "::exact_solution"), S, P, fe)
        exact_sym[ex_cls] = u
        for m in ("u_D", "u_D_Interior"):
            key = "%s::%s" % (c, m)
            ck.instance("R-C19-3", key)
            v = cas.evaluate(prog.fn(c + "::" + m), S, P, fb)
            z, how = cas.is_zero(v - u)
            if z:
                ck.ok("R-C19-3", key)
            else:
                ck.violation("R-C19-3", key, ir.locstr(prog.fn(c + "::" + m)), "%s differs from %s::exact_solution (%s)" % (key, ex_cls, how))
    # ---------------- R-C19-4 selection table
    sel = prog.fn("GMGPolar::selectTestCase")
    ck.analysed(sel)

    class SelDom(ConcDomain):
        def call(self, e, fr):
            callee = e.get("callee") or ""
            if conc.strip_targs(callee) == "std::make_unique":
                cls = callee[callee.index("<") + 1:].split(",")[0].rstrip(">").strip()
                vals = [self.interp.rvalue(a, fr) for a in e["args"]]
                return ("obj", cls, tuple(v.tag if isinstance(v, Opaque) else v for v in vals))
            return ConcDomain.call(self, e, fr)

    for geo, prob, al, be in itertools.product(range(4), range(4), range(4), range(2)):
        key = "geometry=%d problem=%d alpha=%d beta=%d" % (geo, prob, al, be)
        ck.instance("R-C19-4", key, nontrivial=((geo + prob + al + be) % 3 == 0))
        dom = SelDom(prog)
        it = Interp(prog, dom)
        gm = Obj("GMGPolar")
        for k, v in (("geometry_", geo), ("problem_", prob), ("alpha_", al), ("beta_", be), ("Rmax_", Opaque("Rmax")), ("kappa_eps_", Opaque("kappa_eps")),
                     ("delta_e_", Opaque("delta_e")), ("alpha_jump_", Opaque("alpha_jump"))):
            gm.f[k] = Cell(v, k)
        for k in ("domain_geometry_", "density_profile_coefficients_", "boundary_conditions_", "source_term_", "exact_solution_"):
            gm.f[k] = Cell(None, k)
        try:
            it.call_function(sel, gm, [])
            thrown = None
        except ThrowEx as t:
            thrown = t
        if thrown:
            ck.ok("R-C19-4", key)
            continue
        got = {k: gm.f[k].get() for k in ("domain_geometry_", "density_profile_coefficients_", "boundary_conditions_", "source_term_", "exact_solution_")}
        probs = []
        g, p, a = GEO[geo], PROBLEMS[prob], ALPHA[al]
        coef = a + ("Gyro" if (be == 1 and a != "Poisson") else "") + "Coefficients"
        want = {"domain_geometry_": g, "density_profile_coefficients_": coef, "boundary_conditions_": "%s_Boundary_%s" % (p, g),
                "source_term_": "%s_%s_%s" % (p, coef[:-len("Coefficients")], g), "exact_solution_": "%s_%s" % (p, g)}
        geo_args = ("Rmax",) if g in ("CircularGeometry", "CulhamGeometry") else ("Rmax", "kappa_eps", "delta_e")
        for k, w in want.items():
            v = got[k]
            if not (isinstance(v, tuple) and v[0] == "obj"):
                probs.append("%s is left unset" % k)
                continue
            if v[1] != w:
                probs.append("%s is a %s, the options ask for %s" % (k, v[1], w))
            wa = ("Rmax", "alpha_jump") if k == "density_profile_coefficients_" else geo_args
            if v[2] != wa:
                probs.append("%s is constructed from %s, expected %s" % (k, v[2], wa))
        if probs:
            ck.violation("R-C19-4", "selectTestCase:%s" % probs[0].split(" ")[0], ir.locstr(sel), "%s: %s" % (key, "; ".join(probs)))
        else:
            ck.ok("R-C19-4", key, sample={"options": key, "classes": {k: v[1] for k, v in got.items()}} if (geo, prob, al, be) == (1, 2, 3, 1) else None)
    # ---------------- R-C19-5 source terms
    rnd = random.Random(1234)
    # two parameter points: the shipped defaults, and one that differs from every in-class default member value (an object
    # whose constructor drops or mis-routes a parameter keeps a default and is only visible away from the defaults)
    PARAM_POINTS = [{"Rmax": mp.mpf("1.3"), "p_kappa_eps": mp.mpf("0.3"), "p_delta_e": mp.mpf("0.2")},
                    {"Rmax": mp.mpf("1.17"), "p_kappa_eps": mp.mpf("0.23"), "p_delta_e": mp.mpf("0.31")}]
    src_classes = sorted(c for c in prog.classes if c.count("_") == 2 and "_Boundary_" not in c and c.split("_")[2] in GEOS and (c + "::rhs_f") in prog.functions)
    pick = src_classes  # all 66 classes: the comparison takes about half a minute
    for c in pick:
        prob, coefn, g = c.split("_")
        ck.instance("R-C19-5", c)
        ex_cls = "%s_%s" % (prob, g)
        ccls = coefn + "Coefficients"
        if ex_cls not in exact_sym or ccls not in coef_sym:
            ck.undecide("R-C19-5", c, "no exact solution / coefficient class")
            continue
        n = ctor_args(c, g)
        u = exact_sym[ex_cls]
        a, b = coef_sym[ccls]
        ex, gf = geo_sym[g]
        x, y = ex["Fx"], ex["Fy"]
        xr, xt, yr, yt = sp.diff(x, r), sp.diff(x, th), sp.diff(y, r), sp.diff(y, th)
        det = xr * yt - xt * yr
        # inverse metric (J^T J)^{-1} = 1/det^2 * [[xt^2+yt^2, -(xr xt + yr yt)], [., xr^2+yr^2]]
        grr, grt, gtt = (xt ** 2 + yt ** 2) / det ** 2, -(xr * xt + yr * yt) / det ** 2, (xr ** 2 + yr ** 2) / det ** 2
        ur, ut = sp.diff(u, r), sp.diff(u, th)
        fr_, ft_ = a * det * (grr * ur + grt * ut), a * det * (grt * ur + gtt * ut)
        Lu = -(sp.diff(fr_, r) + sp.diff(ft_, th)) / det + b * u
        syms = [r, th, Rm, ka, de, aj]
        try:
            f_L = cas.with_timeout(60, lambda: sp.lambdify(syms, Lu, modules="mpmath"))
        except cas.Timeout:
            ck.undecide("R-C19-5", c, "symbolic L(u) too large")
            continue
        worst = mp.mpf(0)
        wpt = None
        for vals in PARAM_POINTS:
            fields_m = construct(prog, c, [vals["Rmax"]] if n == 1 else [vals["Rmax"], vals["p_kappa_eps"], vals["p_delta_e"]], M)
            for _ in range(5):
                rv = vals["Rmax"] * mp.mpf(rnd.randint(80, 920)) / 1000
                tv = mp.mpf(rnd.randint(1, 6200)) / 1000
                lhs = cas.evaluate(prog.fn(c + "::rhs_f"), M, {"r": rv, "theta": tv, "sin_theta": mp.sin(tv), "cos_theta": mp.cos(tv)}, fields_m)
                rhs = f_L(rv, tv, vals["Rmax"], vals["p_kappa_eps"], vals["p_delta_e"], mp.mpf("0.66"))
                rel = abs(lhs - rhs) / (abs(rhs) + mp.mpf("1e-30"))
                if rel > worst:
                    worst, wpt = rel, (rv, tv, lhs, rhs, vals)
        if worst < mp.mpf("1e-7"):
            ck.ok("R-C19-5", c, sample={"source term": c, "max relative deviation from L(u) at 5 points x 2 parameter sets": mp.nstr(worst, 3)})
        else:
            # what exactly is wrong: the defect rhs_f - L(u) at two fixed points of the default parameter set (8 digits), so
            # that a recorded finding covers this defect and not any other wrong formula in the same class
            sig = []
            vals = PARAM_POINTS[0]
            fields_m = construct(prog, c, [vals["Rmax"]] if n == 1 else [vals["Rmax"], vals["p_kappa_eps"], vals["p_delta_e"]], M)
            for rv, tv in ((vals["Rmax"] / 2, mp.mpf(1)), (vals["Rmax"] * mp.mpf("0.77"), mp.mpf(4))):
                lhs = cas.evaluate(prog.fn(c + "::rhs_f"), M, {"r": rv, "theta": tv, "sin_theta": mp.sin(tv), "cos_theta": mp.cos(tv)}, fields_m)
                rhs = f_L(rv, tv, vals["Rmax"], vals["p_kappa_eps"], vals["p_delta_e"], mp.mpf("0.66"))
                sig.append("(rhs_f-L(u))(%s,%s)=%s" % (mp.nstr(rv, 4), mp.nstr(tv, 4), mp.nstr(lhs - rhs, 8)))
            ck.violation("R-C19-5", c, ir.locstr(prog.fn(c + "::rhs_f")), signature="; ".join(sig), msg=
                         "%s::rhs_f deviates from -div(alpha grad u)+beta u by a relative %s at (r,theta)=(%s,%s) with constructor arguments (Rmax, 2nd, 3rd)=(%s,%s,%s): rhs_f=%s, L(u)=%s" % (
                             c, mp.nstr(worst, 5), mp.nstr(wpt[0], 5), mp.nstr(wpt[1], 5), mp.nstr(wpt[4]["Rmax"], 4), mp.nstr(wpt[4]["p_kappa_eps"], 4), mp.nstr(wpt[4]["p_delta_e"], 4), mp.nstr(wpt[2], 12), mp.nstr(wpt[3], 12)))
    # ---------------- R-C19-6: Culham's tabulated profiles are built uniformly
    culham_tables(ck, prog)
    ck.extra["undecided_is_broken"] = False
    ck.extra["source_terms_total"] = len(src_classes)
    ck.extra["source_terms_checked"] = len(pick)
    return ck.finish(
        "The input-function classes are pure closed forms. Their return expressions are extracted from the IR into sympy (decimal "
        "literals as exact rationals, sin_theta/cos_theta parameters as sin/cos of theta, members as positive symbols or as the values "
        "their constructors derive). Jacobian, gyro and boundary identities are decided by symbolic simplification, falling back to "
        "50-digit evaluation at random points when simplification does not terminate. The source term is compared with L(u) formed "
        "symbolically from the extracted u, alpha, beta and mapping; because the shipped source terms carry rounded constants this last "
        "comparison is numerical (relative 1e-7 at 5 points per class) and is reported as such. selectTestCase is interpreted for all "
        "128 option combinations.",
        trusted_base=["clang 14 front end", "gmgir lowering", "sympy diff/simplify/lambdify", "mpmath at 50 digits"],
        assumptions=["Culham geometry (tabulated) is not covered", "R-C19-5 is a numerical identity check on extracted closed forms, not a symbolic proof"])


if __name__ == "__main__":
    report.run(main, "C19")
