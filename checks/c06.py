"""C06 — smoothing is an exact zebra line relaxation of the same operator (structural/algebraic part).

R-C06-1 (split completeness): for every non-Dirichlet node p the equation a sweep solves on p's line,
         sum_q A_sc[p,q] u_q = rhs_p - sum_q A_ortho[p,q] u_q,  satisfies  A_sc[p,.] + A_ortho[p,.] == A[p,.]  (A: the
         residual operator's table), rhs enters with weight one, couplings to Dirichlet nodes may be taken from the
         boundary data (symmetry shift); Dirichlet rows are identity rows with right-hand side = boundary data.
         Consequence: the exact discrete solution is a fixed point and the residual vanishes on each line just solved.
R-C06-2: give == take (A_sc tables and every row equation), parallel variant == sequential variant.
R-C06-3 (freshness / Gauss-Seidel order): every A_ortho coupling reads the neighbour's value of the current sweep iff the
         neighbour's line was solved earlier in the sweep (colour order black circles, white circles, black radial,
         white radial); no coupling to a node of the same line is left on the ortho side; every line is solved exactly once.
R-C06-4: the line solves use the matrices that were built (line index = solver index); right-hand side range = the line.
Not decided: exactness of the tridiagonal solves (C14, numeric), energy-norm monotonicity.
"""
from gmg import dag, ir, opsdom, report, tab_ops, tab_smoother


def shapes(tier):
    # smoothing levels: ntheta % 4 == 0, nsc >= 2, lsr >= 3
    if tier == "quick":
        return [(7, 8, 3, False), (6, 8, 2, True), (8, 4, 4, False), (7, 12, 3, True), (9, 16, 5, False)]
    return [(nr, nt, nsc, d) for (nr, nt) in ((6, 4), (7, 8), (8, 8), (9, 12)) for nsc in (2, 3, 4) if nr - nsc >= 3 for d in (False, True)]


def row_problems(S, sw, A, p):
    """check split completeness + freshness for node p; returns list of problems"""
    probs = []
    if p not in sw.row:
        return ["node %s is never solved in the sweep" % (S.rt(p),)]
    cols, fco, const = sw.ortho(p)
    asc = sw.Asc.get(p, {})
    if const is not None and not dag.is_zero(const):
        probs.append("right-hand side of node %s has a constant part" % (S.rt(p),))
    if S.dirichlet(p):
        if set(asc) != {p} or not dag.equal(asc[p], dag.ONE):
            probs.append("Dirichlet node %s: A_sc row is %s, expected the identity" % (S.rt(p), {S.rt(q): dag.show(v, 40) for q, v in asc.items()}))
        if cols or set(fco) != {p} or not dag.equal(fco[p], dag.ONE):
            probs.append("Dirichlet node %s: right-hand side is not the boundary data rhs[p]" % (S.rt(p),))
        return probs
    if p not in fco or not dag.equal(fco[p], dag.ONE):
        probs.append("node %s: rhs[p] enters with weight %s" % (S.rt(p), dag.show(fco.get(p, dag.ZERO), 60)))
    total = dict(asc)
    for (ver, q), v in cols.items():
        total[q] = dag.add(total.get(q, dag.ZERO), v)
        if sw.line_of(q) == sw.line_of(p):
            probs.append("node %s: coupling to %s of the same line is on the A_ortho side" % (S.rt(p), S.rt(q)))
        want = "y" if sw.seq.get(q, 10 ** 9) < sw.seq[p] else "x"
        if ver != want:
            probs.append("node %s reads the %s value of neighbour %s although that line is solved %s in the sweep" % (
                S.rt(p), "previous-sweep" if ver == "x" else "updated", S.rt(q), "earlier" if want == "y" else "later"))
    for q, c in fco.items():
        if q == p:
            continue
        if not S.dirichlet(q):
            probs.append("node %s takes rhs of the non-Dirichlet node %s" % (S.rt(p), S.rt(q)))
        total[q] = dag.add(total.get(q, dag.ZERO), dag.sub(dag.ZERO, c))
    want = A.get(p, {})
    for q in set(total) | set(want):
        if not dag.equal(total.get(q, dag.ZERO), want.get(q, dag.ZERO)):
            probs.append("node %s column %s: A_sc + A_ortho = %s but the operator has %s" % (S.rt(p), S.rt(q), dag.show(total.get(q, dag.ZERO), 100), dag.show(want.get(q, dag.ZERO), 100)))
            break
    return probs


def main(tier):
    ck = report.Check("C06", tier, level="proof", technique="symbolic interpretation of the smoother matrix builders and of one sweep (line solves summarised, right-hand sides snapshotted) into exact tables; split completeness and Gauss-Seidel freshness by identity testing")
    ck.rule("R-C06-1", "split completeness A_sc + A_ortho == A per row; Dirichlet rows; rhs weight 1", floor=6)
    ck.rule("R-C06-2", "give == take; parallel == sequential", floor=6)
    ck.rule("R-C06-3", "freshness: neighbour version = updated iff its line was solved earlier; every line solved once; no same-line coupling on the ortho side", floor=6)
    ck.rule("R-C06-4", "A_sc containers well-formed (dimensions, CSR slots); no out-of-range access", floor=6)
    prog = tab_smoother.load()
    ck.units += prog.units
    for cls in ("SmootherGive", "SmootherTake"):
        for m in ("buildAscMatrices", "buildAscCircleSection", "buildAscRadialSection", "smoothing", "applyAscOrthoCircleSection",
                  "applyAscOrthoRadialSection", "solveCircleSection", "solveRadialSection"):
            ck.analysed(prog.fn("%s::%s" % (cls, m)))
    for (nr, nt, nsc, dirbc) in shapes(tier):
        S = tab_ops.Setting(prog, nr, nt, nsc, dirbc)
        sk = S.key()
        A, rp, regs = S.residual("ResidualGive", S.cache(True, True))
        sweeps = {}
        for cls in ("SmootherGive", "SmootherTake"):
            for threads in (2, 1):
                sw = tab_smoother.Sweep(S, cls, "Smoother", "smoothing", threads=threads)
                sweeps[(cls, threads)] = sw
                key = "%s threads=%d %s" % (cls, threads, sk)
                site = ir.locstr(prog.fn(cls + "::smoothing"))
                # R-C06-4
                ck.instance("R-C06-4", key)
                probs = list(sw.asc_problems)
                if sw.oob:
                    probs.append("out-of-range access %s[%s] (length %s) at %s" % sw.oob[0])
                if probs:
                    ck.violation("R-C06-4", "%s:containers" % cls, ir.locstr(prog.fn(cls + "::buildAscMatrices")), "%s: %s" % (key, probs[0]))
                else:
                    ck.ok("R-C06-4", key)
                # R-C06-1 and R-C06-3 per row
                ck.instance("R-C06-1", key)
                ck.instance("R-C06-3", key)
                p1, p3 = [], []
                if sw.solved_twice:
                    p3.append("node %s is solved more than once in a sweep" % (S.rt(sw.solved_twice[0]),))
                for p in range(S.N):
                    for msg in row_problems(S, sw, A, p):
                        (p3 if ("although that line" in msg or "same line" in msg or "never solved" in msg) else p1).append(msg)
                    if len(p1) + len(p3) > 3:
                        break
                if p1:
                    ck.violation("R-C06-1", "%s:split" % cls, site, "%s: %s" % (key, p1[0]))
                else:
                    ck.ok("R-C06-1", key, sample={"smoother": cls, "shape": sk, "rows": S.N, "line solves": len(sw.calls)})
                if p3:
                    ck.violation("R-C06-3", "%s:order" % cls, site, "%s: %s" % (key, p3[0]))
                else:
                    ck.ok("R-C06-3", key)
        # R-C06-2
        ref = sweeps[("SmootherGive", 2)]
        # the give smoother under the other three cache-flag combinations (take requires both caches)
        for fl in ((True, False), (False, True), (False, False)):
            sweeps[("SmootherGive", 2, fl)] = tab_smoother.Sweep(S, "SmootherGive", "Smoother", "smoothing", threads=2, flags=fl)
        for k2 in (("SmootherTake", 2), ("SmootherGive", 1), ("SmootherTake", 1), ("SmootherGive", 2, (True, False)), ("SmootherGive", 2, (False, True)), ("SmootherGive", 2, (False, False))):
            sw = sweeps[k2]
            key = "%s threads=%d%s vs give/parallel %s" % (k2[0], k2[1], (" caches=(%s,%s)" % k2[2]) if len(k2) > 2 else "", sk)
            ck.instance("R-C06-2", key)
            bad = None
            if len(k2) > 2 and (sw.oob or sw.asc_problems or sw.solved_twice):
                bad = ("out-of-range access %s[%s] (length %s) at %s" % sw.oob[0]) if sw.oob else (sw.asc_problems[0] if sw.asc_problems else "a node is solved twice")
            d = tab_ops.diff_tables(ref.Asc, sw.Asc) if not bad else None
            if bad:
                pass
            elif d:
                i, c, a, b = d[0]
                bad = "A_sc[%s,%s]: %s vs %s" % (S.rt(i), S.rt(c), a, b)
            else:
                for p in range(S.N):
                    c1, f1, _ = ref.ortho(p)
                    c2, f2, _ = sw.ortho(p)
                    for kk in set(c1) | set(c2):
                        if not dag.equal(c1.get(kk, dag.ZERO), c2.get(kk, dag.ZERO)):
                            bad = "row %s, neighbour %s (%s value): %s vs %s" % (S.rt(p), S.rt(kk[1]), "updated" if kk[0] == "y" else "previous", dag.show(c1.get(kk, dag.ZERO), 80), dag.show(c2.get(kk, dag.ZERO), 80))
                            break
                    for kk in set(f1) | set(f2):
                        if not dag.equal(f1.get(kk, dag.ZERO), f2.get(kk, dag.ZERO)):
                            bad = "row %s, rhs entry %s: %s vs %s" % (S.rt(p), S.rt(kk), dag.show(f1.get(kk, dag.ZERO), 80), dag.show(f2.get(kk, dag.ZERO), 80))
                    if bad:
                        break
            if bad:
                ck.violation("R-C06-2", "%s-%s:differs" % (k2[0], ("caches-%s-%s" % k2[2]) if len(k2) > 2 else ("parallel" if k2[1] > 1 else "sequential")), ir.locstr(prog.fn(k2[0] + "::smoothing")), "%s: %s" % (key, bad))
            else:
                ck.ok("R-C06-2", key)
    return ck.finish(
        "For both smoothers, parallel and sequential variant, on representative smoothing-level grids (both parities of the number "
        "of circles, both boundary modes): build*Matrices is interpreted and the stored line matrices are read back before any "
        "factorisation; then one sweep is interpreted with every line solve replaced by its footprint summary and its right-hand "
        "side snapshotted as an exact linear form over rhs, previous-sweep values and values already updated in this sweep. Per row "
        "this is the equation the sweep solves; adding the stored A_sc row must give exactly the residual operator's row (C03's "
        "table), which implies that the exact solution is a fixed point and the residual vanishes on a line right after its solve. "
        "The version (previous/updated) of every neighbour value must match the colour order.",
        trusted_base=["clang 14 front end", "gmgir lowering", "own IR interpreter", "line-solver footprint summary (reads/writes rhs[off..off+n), solver state, scratch)", "identity testing by exact rational evaluation at 4 pseudo-random points"],
        assumptions=["exactness of the tridiagonal/LU solves is C14's (numerical) side", "energy-norm monotonicity not decided"])


if __name__ == "__main__":
    report.run(main, "C06")
