"""C17 — grid node numbering is a bijection consistent with geometry and periodicity.

R-C17-1: index(int,int) (after wrapThetaIndex), fastIndex and index(MultiIndex) are the same function; it is a
         bijection onto 0..N-1 (evaluated by abstract interpretation of the source on every node of a family of shapes:
         the functions are piecewise linear with predicates r<nsc / node<ncirc only, so the family realises every case).
R-C17-2: both multiIndex variants invert it.
R-C17-3: wrapThetaIndex: maps every offset in -3n..3n to the residue mod n on the power-of-two and the general
         path; the power-of-two flag is recomputed as (n & (n-1)) == 0 after every write of ntheta_.
R-C17-4: on every path of initializeLineSplitting (explicit radius below/inside/above, automatic):
         lsr = nr - nsc, 0 <= nsc <= nr, node counts = nsc*ntheta, lsr*ntheta.
R-C17-5: coarsening reads 2*i of the fine arrays with sizes (nr+1)/2 and ntheta/2+1; spacings are first differences.
R-C17-6: every non-default constructor validates, computes distances and splits, in that order, after the last write
         of the coordinate arrays.
R-C17-7: with symbolic coordinates r_i, theta_j (exact DAG values): initializeDistances stores first differences;
         radialSpacing / angularSpacing (any unwrapped index) / adjacentNeighborDistances return the coordinate
         differences (periodic in theta, 0 beyond the radial ends); adjacentNeighborsOf / diagonalNeighborsOf return
         index(i±1, wrap(j±1)) or -1; polarCoordinates returns (r_i, theta_j).
Not decided: the same statements after floating-point rounding (they are exact differences of two doubles).
"""
import itertools

from gmg import conc, grids, ir, report, structq
from gmg.conc import Arr, ConcDomain, Elem, PtrInto, TOP
from gmg.interp import Cell, Interp, Obj, ThrowEx, Undef

UNITS = ["src/PolarGrid/polargrid.cpp", "src/PolarGrid/multiindex.cpp", "src/PolarGrid/point.cpp", "src/PolarGrid/load_write_grid.cpp",
         "src/PolarGrid/anisotropic_division.cpp"]


def shapes(tier):
    nrs = [2, 3, 4, 5, 6, 9] if tier == "quick" else list(range(2, 13))
    nts = [3, 4, 6, 8] if tier == "quick" else [3, 4, 5, 6, 8, 12, 16]
    for nr in nrs:
        for nt in nts:
            for nsc in range(0, nr + 1):
                yield nr, nt, nsc


class GridDomain(ConcDomain):
    """ConcDomain + the few std:: facilities initializeLineSplitting/coarseningGrid use"""

    def call(self, e, fr):
        it = self.interp
        callee = e.get("callee") or e.get("ctor") or ""
        base = conc.strip_targs(callee)
        mname = base.rsplit("::", 1)[-1]
        args = e["args"]
        site = ir.locstr(e)
        if e["k"] == "Call" and "this" in e and e["this"] is not None:
            th = it.eval(e["this"], fr)
            th = th.get() if isinstance(th, Cell) else th
            if isinstance(th, dict) and th.get("__opt__"):
                if mname in ("has_value", "operator bool"):
                    return th["present"]
                if mname == "value":
                    return TOP
        if base == "std::lower_bound":
            a, b = it.rvalue(args[0], fr), it.rvalue(args[1], fr)
            it.rvalue(args[2], fr)
            if isinstance(a, PtrInto) and isinstance(b, PtrInto):
                k = self.pick(b.off - a.off + 1, site)
                return PtrInto(a.arr, a.off + k)
        if base == "std::distance":
            a, b = it.rvalue(args[0], fr), it.rvalue(args[1], fr)
            return b.off - a.off
        if e["k"] == "OpCall" and e["op"] in ("!=", "==") and len(args) == 2:
            a, b = it.rvalue(args[0], fr), it.rvalue(args[1], fr)
            if isinstance(a, PtrInto) and isinstance(b, PtrInto):
                return (a.off != b.off) if e["op"] == "!=" else (a.off == b.off)
        return ConcDomain.call(self, e, fr)


def geometry_queries(ck, tier):
    """R-C17-7: spacing and neighbour queries against the coordinate arrays, coordinates symbolic (exact DAG values)"""
    from gmg import dag, opsdom, symdom
    from gmg.symdom import SArr
    ck.rule("R-C17-7", "initializeDistances / radialSpacing / angularSpacing / adjacentNeighborDistances / polarCoordinates equal the coordinate differences (periodic in theta, 0 beyond the radial ends); adjacent/diagonal neighbour indices equal index(i±1, wrap(j±1)) or -1", floor=5)
    prog = ir.load(units=UNITS, witness=False)
    for qn in ("PolarGrid::initializeDistances", "PolarGrid::adjacentNeighborDistances", "PolarGrid::adjacentNeighborsOf", "PolarGrid::diagonalNeighborsOf",
               "PolarGrid::polarCoordinates", "PolarGrid::radialSpacing", "PolarGrid::angularSpacing"):
        ck.analysed(prog.fn(qn))
    mi_ctor = [f for f in prog.fns("MultiIndex::MultiIndex") if len(f["params"]) == 2 and all(p["t"].replace("const ", "") == "int" for p in f["params"])]
    if len(mi_ctor) != 1:
        raise ir.AnalysisBroken("anchor vanished: MultiIndex(int,int)")
    shapes7 = [(2, 4, 1), (3, 3, 0), (4, 6, 2), (5, 8, 5), (5, 4, 3)] if tier == "quick" else [(nr, nt, nsc) for nr in (2, 3, 4, 5, 7) for nt in (3, 4, 6, 8) for nsc in sorted(set((0, 1, nr // 2, nr)))]
    site = ir.locstr(prog.fn("PolarGrid::adjacentNeighborDistances"))
    for nr, nt, nsc in shapes7:
        key = "queries nr=%d ntheta=%d nsc=%d" % (nr, nt, nsc)
        ck.instance("R-C17-7", key)
        dom = opsdom.OpsDomain(prog, record=False)
        it = Interp(prog, dom)
        g = symdom.sym_grid(nr, nt, nsc)
        R = [dag.atom("r_%d" % i) for i in range(nr)]
        T = [dag.atom("th_%d" % j) for j in range(nt + 1)]
        g.f["radial_spacings_"].set(SArr("radial_spacings_", 0))
        g.f["angular_spacings_"].set(SArr("angular_spacings_", 0))
        probs = []
        it.call_function(prog.fn("PolarGrid::initializeDistances"), g, [])
        rs, ks = g.f["radial_spacings_"].get(), g.f["angular_spacings_"].get()
        if rs.length != nr - 1 or ks.length != nt:
            probs.append("spacing arrays have lengths %s and %s, expected %d and %d" % (rs.length, ks.length, nr - 1, nt))
        else:
            for i in range(nr - 1):
                if not dag.equal(dag.lift(rs.sym.get(i, dag.atom("unset"))), dag.sub(R[i + 1], R[i])):
                    probs.append("radial_spacings_[%d] is %s, not r_%d - r_%d" % (i, dag.show(dag.lift(rs.sym.get(i, dag.atom("unset"))), 40), i + 1, i))
                    break
            for j in range(nt):
                if not dag.equal(dag.lift(ks.sym.get(j, dag.atom("unset"))), dag.sub(T[j + 1], T[j])):
                    probs.append("angular_spacings_[%d] is %s, not theta_%d - theta_%d" % (j, dag.show(dag.lift(ks.sym.get(j, dag.atom("unset"))), 40), j + 1, j))
                    break
        dk = lambda j: dag.sub(T[(j % nt) + 1], T[j % nt])  # periodic angular distance from node j to node j+1
        if not probs:
            for i in range(nr - 1):
                v = it.call_function(prog.fn("PolarGrid::radialSpacing"), g, [i])
                v = v.get() if isinstance(v, Cell) else v
                if not dag.equal(dag.lift(v), dag.sub(R[i + 1], R[i])):
                    probs.append("radialSpacing(%d) is %s" % (i, dag.show(dag.lift(v), 40)))
                    break
            for j in range(-nt, 2 * nt + 1):
                v = it.call_function(prog.fn("PolarGrid::angularSpacing"), g, [j])
                v = v.get() if isinstance(v, Cell) else v
                if not dag.equal(dag.lift(v), dk(j)):
                    probs.append("angularSpacing(%d) is %s, expected the distance from angle %d to its successor" % (j, dag.show(dag.lift(v), 40), j % nt))
                    break
        def idx(i, j):
            v = it.call_function(prog.fn("PolarGrid::index", 2), g, [i, j])
            return v
        if not probs:
            for i in range(nr):
                for j in range(nt):
                    mi = dom.new_object("MultiIndex", None, None)
                    it.call_function(mi_ctor[0], mi, [i, j])
                    out = dom.default_value("std::array<std::pair<double, double>, space_dimension>", {"name": "nd"}, None)
                    it.call_function(prog.fn("PolarGrid::adjacentNeighborDistances"), g, [Cell(mi), Cell(out)])
                    got = [[dag.lift(out.objs[d][k].get()) for k in ("first", "second")] for d in range(2)]
                    want = [[dag.sub(R[i], R[i - 1]) if i > 0 else dag.ZERO, dag.sub(R[i + 1], R[i]) if i < nr - 1 else dag.ZERO], [dk(j - 1), dk(j)]]
                    for d in range(2):
                        for k in range(2):
                            if not dag.equal(got[d][k], want[d][k]):
                                probs.append("adjacentNeighborDistances(%d,%d)[%d].%s is %s, the coordinates give %s" % (i, j, d, ("first", "second")[k], dag.show(got[d][k], 40), dag.show(want[d][k], 40)))
                    nb = dom.default_value("std::array<std::pair<int, int>, space_dimension>", {"name": "nb"}, None)
                    it.call_function(prog.fn("PolarGrid::adjacentNeighborsOf"), g, [Cell(mi), Cell(nb)])
                    gotn = [[nb.objs[d][k].get() for k in ("first", "second")] for d in range(2)]
                    wantn = [[idx(i - 1, j) if i > 0 else -1, idx(i + 1, j) if i < nr - 1 else -1], [idx(i, (j - 1) % nt), idx(i, (j + 1) % nt)]]
                    if gotn != wantn:
                        probs.append("adjacentNeighborsOf(%d,%d) is %s, expected %s" % (i, j, gotn, wantn))
                    it.call_function(prog.fn("PolarGrid::diagonalNeighborsOf"), g, [Cell(mi), Cell(nb)])
                    gotn = [[nb.objs[d][k].get() for k in ("first", "second")] for d in range(2)]
                    wantn = [[idx(i - 1, (j - 1) % nt) if i > 0 else -1, idx(i + 1, (j - 1) % nt) if i < nr - 1 else -1],
                             [idx(i - 1, (j + 1) % nt) if i > 0 else -1, idx(i + 1, (j + 1) % nt) if i < nr - 1 else -1]]
                    if gotn != wantn:
                        probs.append("diagonalNeighborsOf(%d,%d) is %s, expected %s (bottom-left, bottom-right, top-left, top-right)" % (i, j, gotn, wantn))
                    pt = it.call_function(prog.fn("PolarGrid::polarCoordinates"), g, [Cell(mi)])
                    if isinstance(pt, Obj):
                        d_ = pt.f.get("data_")
                        arr = d_.get() if d_ is not None else None
                        pc = [dag.lift(arr.sym.get(k)) if arr is not None and hasattr(arr, "sym") and arr.sym.get(k) is not None else None for k in range(2)]
                        if pc[0] is None or pc[1] is None or not dag.equal(pc[0], R[i]) or not dag.equal(pc[1], T[j]):
                            probs.append("polarCoordinates(%d,%d) is (%s, %s)" % (i, j, pc[0] is not None and dag.show(pc[0], 30), pc[1] is not None and dag.show(pc[1], 30)))
                    if probs:
                        break
                if probs:
                    break
        if dom.oob:
            probs.append("out-of-range access %s[%s] (length %s) at %s" % dom.oob[0])
        if probs:
            ck.violation("R-C17-7", "queries:%s" % probs[0].split("(")[0].split(" ")[0], site, "%s: %s" % (key, "; ".join(probs[:3])))
        else:
            ck.ok("R-C17-7", key, sample={"shape": key, "nodes": nr * nt})


def main(tier):
    ck = report.Check("C17", tier, level="other", technique="abstract interpretation of the index functions from source on a case-complete family of grid shapes; structural rules on flag maintenance, split identities, coarsening and constructor order")
    ck.rule("R-C17-1", "index/fastIndex/index(MultiIndex) agree and are a bijection onto 0..N-1 on every shape", floor=50)
    ck.rule("R-C17-2", "both multiIndex variants invert index on every node", floor=50)
    ck.rule("R-C17-3", "wrap = residue mod ntheta for offsets -3n..3n on both paths; flag recomputed after each write of ntheta_", floor=10)
    ck.rule("R-C17-4", "split identities on every path of initializeLineSplitting", floor=20)
    ck.rule("R-C17-5", "coarsening keeps every second node incl. both ends; spacings are first differences", floor=4)
    ck.rule("R-C17-6", "constructors: coordinates, then checkParameters, initializeDistances, initializeLineSplitting", floor=3)
    prog = ir.load(units=UNITS, witness=False)
    ck.units += prog.units
    f_index2 = prog.fn("PolarGrid::index", 2)
    f_index1 = prog.fn("PolarGrid::index", 1)
    f_fast = prog.fn("PolarGrid::fastIndex")
    f_wrap = prog.fn("PolarGrid::wrapThetaIndex")
    f_mi1 = prog.fn("PolarGrid::multiIndex", 1)
    f_mi3 = prog.fn("PolarGrid::multiIndex", 3)
    for f in (f_index2, f_index1, f_fast, f_wrap, f_mi1, f_mi3):
        ck.analysed(f)
    mi_ctor = [f for f in prog.fns("MultiIndex::MultiIndex") if len(f["params"]) == 2][0]
    n_shapes = 0
    sampled = 0
    for nr, nt, nsc in shapes(tier):
        n_shapes += 1
        dom = GridDomain(prog)
        it = Interp(prog, dom)
        g = grids.make_grid(nr, nt, nsc)
        N = nr * nt
        key = "nr=%d ntheta=%d nsc=%d" % (nr, nt, nsc)
        seen = {}
        p1, p2 = [], []
        for r in range(nr):
            for t in range(nt):
                a = it.call_function(f_index2, g, [r, t])
                b = it.call_function(f_fast, g, [r, t])
                mi = dom.new_object("MultiIndex", None, None)
                it.call_function(mi_ctor, mi, [r, t])
                c = it.call_function(f_index1, g, [Cell(mi)])
                if not (a == b == c):
                    p1.append("index(%d,%d)=%r fastIndex=%r index(MultiIndex)=%r" % (r, t, a, b, c))
                if not isinstance(a, int) or not (0 <= a < N):
                    p1.append("index(%d,%d)=%r outside 0..%d" % (r, t, a, N - 1))
                elif a in seen:
                    p1.append("index(%d,%d) = index%r = %d" % (r, t, seen[a], a))
                else:
                    seen[a] = (r, t)
                # inverse, both variants
                if isinstance(a, int) and 0 <= a < N:
                    cr, ct = Cell(Undef("r")), Cell(Undef("t"))
                    it.call_function(f_mi3, g, [a, cr, ct])
                    if (cr.get(), ct.get()) != (r, t):
                        p2.append("multiIndex(%d, r, t) gives (%r,%r), index came from (%d,%d)" % (a, cr.get(), ct.get(), r, t))
                    m = it.call_function(f_mi1, g, [a])
                    if isinstance(m, Obj):
                        d = m.f["data_"].get()
                        got = (d.ints.get(0), d.ints.get(1))
                    else:
                        got = m
                    if got != (r, t):
                        p2.append("multiIndex(%d) gives %r, index came from (%d,%d)" % (a, got, r, t))
        if dom.oob:
            p1.append("out-of-range access %r" % (dom.oob[0],))
        ck.instance("R-C17-1", key)
        if p1:
            ck.violation("R-C17-1", "index:%s" % ("mismatch" if "fastIndex" in p1[0] else "not-bijective"), ir.locstr(f_index2), "%s: %s" % (key, "; ".join(p1[:4])))
        else:
            ck.ok("R-C17-1", key, sample={"shape": key, "nodes": N} if sampled < 2 else None)
            sampled += 1
        ck.instance("R-C17-2", key)
        if p2:
            ck.violation("R-C17-2", "multiIndex:not-inverse", ir.locstr(f_mi3), "%s: %s" % (key, "; ".join(p2[:4])))
        else:
            ck.ok("R-C17-2", key)
    # ---- R-C17-3 wrap on both paths
    for nt in ([3, 4, 5, 6, 7, 8, 12, 16] if tier == "quick" else list(range(2, 34))):
        key = "wrap ntheta=%d" % nt
        ck.instance("R-C17-3", key)
        dom = GridDomain(prog)
        it = Interp(prog, dom)
        g = grids.make_grid(5, nt, 2)
        bad = []
        for x in range(-3 * nt - 1, 3 * nt + 2):
            w = it.call_function(f_wrap, g, [x])
            if w != x % nt:
                bad.append("wrapThetaIndex(%d)=%r, expected %d" % (x, w, x % nt))
        if bad:
            ck.violation("R-C17-3", "wrap:%s" % ("pow2" if (nt & (nt - 1)) == 0 else "general"), ir.locstr(f_wrap), "%s: %s" % (key, "; ".join(bad[:3])))
        else:
            ck.ok("R-C17-3", key)
    # flag maintenance: every function that writes ntheta_ writes the flag afterwards with the canonical expression
    def canonical_flag(e):
        # (ntheta_ & (ntheta_ - 1)) == 0
        if e.get("k") != "Bin" or e["op"] != "==":
            return False
        a, b = e["a"], e["b"]
        if b.get("k") != "Int" or b["v"] != 0:
            a, b = b, a
        if b.get("k") != "Int" or int(b["v"]) != 0 or a.get("k") != "Bin" or a["op"] != "&":
            return False
        x, y = a["a"], a["b"]
        isn = lambda z: structq.is_this_field(z, "ntheta_")
        ism1 = lambda z: z.get("k") == "Bin" and z["op"] == "-" and isn(z["a"]) and z["b"].get("k") == "Int" and int(z["b"]["v"]) == 1
        return (isn(x) and ism1(y)) or (isn(y) and ism1(x))

    syntactic_flag = canonical_flag
    flag_cache = {}

    def canonical_flag(e):
        """the assigned expression IS the power-of-two predicate of ntheta_: decided by evaluating it (helper functions
        included) for ntheta_ = 1..130 and some larger values, not by its spelling"""
        if syntactic_flag(e):
            return True
        if id(e) in flag_cache:
            return flag_cache[id(e)]
        from gmg.interp import Frame
        ok = True
        try:
            for n in list(range(1, 131)) + [255, 256, 257, 1000, 1024, 4095, 4096, 65536, 65537]:
                dom_ = GridDomain(prog)
                it_ = Interp(prog, dom_)
                o = Obj("PolarGrid")
                o.f["ntheta_"] = Cell(n, "ntheta_")
                fr_ = Frame({"qn": "PolarGrid::<flag expression>", "params": [], "ret": "bool"}, o)
                v = it_.rvalue(e, fr_)
                if not isinstance(v, (bool, int)) or bool(v) != ((n & (n - 1)) == 0):
                    ok = False
                    break
        except Exception:
            ok = False      # reads something else than ntheta_, or is outside the interpreter: not shown to be the predicate
        flag_cache[id(e)] = ok
        return ok

    n_writers = 0
    for qn, fns in prog.functions.items():
        if not qn.startswith("PolarGrid::"):
            continue
        for fn in fns:
            events = []  # ordered ('n'|'flag', ok, node)
            for i in fn.get("inits", []):
                if i.get("field") == "ntheta_" and i.get("written"):
                    events.append(("n", True, i))
                if i.get("field") == "is_ntheta_PowerOfTwo_" and i.get("written"):
                    events.append(("flag", canonical_flag(i["init"]), i))
            for s, guards in structq.stmts_with_guards(fn["body"]):
                for e in structq.exprs_of_stmt(s):
                    for tgt, node in structq.writes_in_expr(e):
                        if structq.is_this_field(tgt, "ntheta_"):
                            events.append(("n", len(guards), node))
                        if structq.is_this_field(tgt, "is_ntheta_PowerOfTwo_"):
                            events.append(("flag", node.get("k") == "Assign" and canonical_flag(node["b"]) and len(guards) == 0, node))
            if not any(k == "n" for k, _, _ in events):
                continue
            n_writers += 1
            key = "flag after ntheta_ write in %s" % qn
            ck.instance("R-C17-3", key)
            last_n = max(i for i, ev in enumerate(events) if ev[0] == "n")
            after = [ev for ev in events[last_n + 1:] if ev[0] == "flag"]
            if not after:
                ck.violation("R-C17-3", "flag:%s:stale" % qn.split("::")[-1], ir.locstr(events[last_n][2]),
                             "%s assigns ntheta_ but does not recompute is_ntheta_PowerOfTwo_ afterwards: wrapThetaIndex takes the wrong path" % qn)
            elif not all(ok for _, ok, _ in after):
                ck.violation("R-C17-3", "flag:%s:expr" % qn.split("::")[-1], ir.locstr(after[0][2]),
                             "%s recomputes is_ntheta_PowerOfTwo_ with an expression that is not the power-of-two predicate of ntheta_ (evaluated for ntheta_ = 1..130 and larger values), or conditionally" % qn)
            else:
                ck.ok("R-C17-3", key)
    if n_writers < 4:
        raise ir.AnalysisBroken("only %d functions write ntheta_ (4 confirmed by hand)" % n_writers)
    # ---- R-C17-4 split identities on every path
    f_split = prog.fn("PolarGrid::initializeLineSplitting")
    ck.analysed(f_split)
    split_shapes = [(nr, nt) for nr in ([2, 3, 5, 6, 9] if tier == "quick" else range(2, 14)) for nt in (4, 6)]
    for nr, nt in split_shapes:
        for present in (False, True):
            key = "split nr=%d ntheta=%d explicit=%s" % (nr, nt, present)
            npaths = 0

            def mk(ch):
                d = GridDomain(prog, ch)
                d.top_policy = "fork"
                return d

            def body(dom, it):
                g = grids.make_grid(nr, nt, 0)
                for k in ("number_smoother_circles_", "length_smoother_radial_", "number_circular_smoother_nodes_", "number_radial_smoother_nodes_"):
                    g.f[k].set(Undef(k))
                dom.g = g
                it.call_function(f_split, g, [{"__opt__": True, "present": present}])

            for dom in conc.run_all(mk, body):
                npaths += 1
                ck.instance("R-C17-4", key + " path%d" % npaths, nontrivial=(npaths == 1))
                g = dom.g
                nsc = g.f["number_smoother_circles_"].get()
                lsr = g.f["length_smoother_radial_"].get()
                nc = g.f["number_circular_smoother_nodes_"].get()
                nrad = g.f["number_radial_smoother_nodes_"].get()
                probs = []
                if dom.thrown:
                    probs.append("throws %s" % dom.thrown.what)
                elif not all(isinstance(x, int) for x in (nsc, lsr, nc, nrad)):
                    probs.append("members left undefined: nsc=%r lsr=%r ncirc=%r nrad=%r" % (nsc, lsr, nc, nrad))
                else:
                    if not (0 <= nsc <= nr):
                        probs.append("nsc=%d outside 0..nr=%d" % (nsc, nr))
                    if lsr != nr - nsc:
                        probs.append("lsr=%d != nr-nsc=%d" % (lsr, nr - nsc))
                    if nc != nsc * nt or nrad != lsr * nt:
                        probs.append("node counts %d,%d != nsc*ntheta=%d, lsr*ntheta=%d" % (nc, nrad, nsc * nt, lsr * nt))
                    if not present and nr > 5 and (nsc < 2 or lsr < 3):
                        probs.append("automatic split gives nsc=%d, lsr=%d (smoothers need nsc>=2, lsr>=3)" % (nsc, lsr))
                if dom.oob:
                    probs.append("out-of-range access %r" % (dom.oob[0],))
                if probs:
                    ck.violation("R-C17-4", "split:%s" % probs[0].split("=")[0][:30], ir.locstr(f_split), "%s: %s" % (key, "; ".join(probs)))
                else:
                    ck.ok("R-C17-4", key)
    # ---- R-C17-5 coarsening / distances by interpretation with effect recording
    f_coarse = prog.fn("coarseningGrid")
    f_dist = prog.fn("PolarGrid::initializeDistances")
    # parameters after the grid (added later with default values): the literal every call site of the library passes (default
    # arguments are materialised at the call sites by the front end); no agreement -> the anchor's signature really changed
    coarse_extra = []
    if len(f_coarse["params"]) > 1:
        sites = [c for fl in ir.load().functions.values() for f in fl for c in structq.calls_in(f["body"]) if structq.callee_of(c) == "coarseningGrid" and len(c.get("args", [])) == len(f_coarse["params"])]
        for k_ in range(1, len(f_coarse["params"])):
            vals_ = set()
            for c in sites:
                a_ = c["args"][k_]
                while a_.get("k") in ("Paren", "Cast", "ImplicitCast") and a_.get("e") is not None:
                    a_ = a_["e"]
                vals_.add((a_.get("k"), str(a_.get("v"))) if a_.get("k") in ("Int", "Bool") else ("?", ir.show(a_)))
            if len(vals_) != 1 or list(vals_)[0][0] == "?":
                raise ir.AnalysisBroken("coarseningGrid has %d parameters and the library's call sites do not pass one literal for parameter %d" % (len(f_coarse["params"]), k_))
            kind_, v_ = list(vals_)[0]
            coarse_extra.append((v_ in ("True", "true", "1")) if kind_ == "Bool" else int(v_))
    ck.analysed(f_coarse)
    ck.analysed(f_dist)

    class Rec(GridDomain):
        def __init__(self, prog):
            GridDomain.__init__(self, prog)
            self.log = []
            self.cur_reads = []

        def on_read(self, arr, idx, site):
            self.bounds(arr, idx, site)
            self.cur_reads.append((arr.name, idx))

        def on_write(self, arr, idx, site):
            self.bounds(arr, idx, site)
            self.log.append((arr.name, idx, tuple(self.cur_reads)))
            self.cur_reads = []

        def call(self, e, fr):
            callee = e.get("callee") or e.get("ctor") or ""
            if e["k"] == "Construct" and callee.startswith("PolarGrid::PolarGrid"):
                vals = [self.interp.rvalue(a, fr) for a in e["args"][:2]]
                self.result = vals
                return Obj("PolarGrid")
            if e["k"] == "Construct" and e.get("t", "").startswith("std::vector<double") and len(e["args"]) >= 1 and not e.get("copy") and not e.get("move"):
                n = self.interp.rvalue(e["args"][0], fr)
                return Arr("vec", n)
            if e["k"] == "Construct" and (e.get("copy") or e.get("move")) and len(e["args"]) == 1:
                return self.interp.rvalue(e["args"][0], fr)
            if e["k"] == "Construct" and e.get("t", "").startswith("std::optional"):
                return {"__opt__": True, "present": len(e["args"]) > 0}
            return GridDomain.call(self, e, fr)

    for nr, nt in ((5, 4), (9, 8), (7, 12), (17, 16)):
        key = "coarsen nr=%d ntheta=%d" % (nr, nt)
        ck.instance("R-C17-5", key)
        dom = Rec(prog)
        it = Interp(prog, dom)
        g = grids.make_grid(nr, nt, 2)
        probs = []
        try:
            it.call_function(f_coarse, g, [Cell(g)] + coarse_extra)
        except ThrowEx as t:
            probs.append("throws %s" % t.what)
        res = getattr(dom, "result", None)
        if not res or not all(isinstance(x, Arr) for x in res):
            probs.append("coarse grid not constructed from two coordinate vectors")
        else:
            cr, ct = res
            if cr.length != (nr + 1) // 2 or ct.length != nt // 2 + 1:
                probs.append("coarse sizes %s x %s, expected %d x %d" % (cr.length, ct.length, (nr + 1) // 2, nt // 2 + 1))
            wr = {}
            for name, idx, reads in dom.log:
                wr.setdefault(name, {})[idx] = reads
            for arr, fine, n in ((cr, "grid.radii_", cr.length), (ct, "grid.angles_", ct.length)):
                w = wr.get(arr.name, {})
                # two coarse vectors share the name 'vec': distinguish by recorded source array
                for i in range(n or 0):
                    ok = any(reads == ((fine, 2 * i),) for (nm, ix, reads) in dom.log if ix == i)
                    if not ok:
                        probs.append("coarse %s[%d] is not read from fine index %d" % (fine, i, 2 * i))
                        break
        if dom.oob:
            probs.append("out-of-range access %r" % (dom.oob[0],))
        if probs:
            ck.violation("R-C17-5", "coarseningGrid:%s" % probs[0][:40], ir.locstr(f_coarse), "%s: %s" % (key, "; ".join(probs)))
        else:
            ck.ok("R-C17-5", key)
        # distances
        key = "distances nr=%d ntheta=%d" % (nr, nt)
        ck.instance("R-C17-5", key)
        dom = Rec(prog)
        it = Interp(prog, dom)
        g = grids.make_grid(nr, nt, 2)
        g.f["radial_spacings_"].get().length = 0
        g.f["angular_spacings_"].get().length = 0
        it.call_function(f_dist, g, [])
        probs = []
        rs, as_ = g.f["radial_spacings_"].get(), g.f["angular_spacings_"].get()
        if rs.length != nr - 1 or as_.length != nt:
            probs.append("spacing array sizes %s,%s expected %d,%d" % (rs.length, as_.length, nr - 1, nt))
        for name, idx, reads in dom.log:
            src = "grid.radii_" if "radial" in name else "grid.angles_"
            if sorted(reads) != [(src, idx), (src, idx + 1)]:
                probs.append("%s[%d] computed from %r, expected %s[%d] and %s[%d]" % (name, idx, reads, src, idx + 1, src, idx))
                break
        nwr = len([1 for name, idx, reads in dom.log if "radial" in name]), len([1 for name, idx, reads in dom.log if "angular" in name])
        if nwr != (nr - 1, nt):
            probs.append("%r spacing entries written, expected (%d,%d)" % (nwr, nr - 1, nt))
        if dom.oob:
            probs.append("out-of-range access %r" % (dom.oob[0],))
        if probs:
            ck.violation("R-C17-5", "initializeDistances:%s" % probs[0][:40], ir.locstr(f_dist), "%s: %s" % (key, "; ".join(probs)))
        else:
            ck.ok("R-C17-5", key)
    # ---- R-C17-6 constructor discipline
    COORD_WRITERS = ("PolarGrid::constructRadialDivisions", "PolarGrid::constructAngularDivisions", "PolarGrid::refineGrid", "PolarGrid::loadVectorFromFile")
    ORDER = ["PolarGrid::checkParameters", "PolarGrid::initializeDistances", "PolarGrid::initializeLineSplitting"]
    nct = 0
    for fn in prog.fns("PolarGrid::PolarGrid"):
        if fn.get("special") != "ctor" or fn.get("defaulted"):
            continue
        nct += 1
        key = "ctor(%s)" % ", ".join(p["t"] for p in fn["params"])[:80]
        ck.instance("R-C17-6", key)
        seq = structq.event_sequence(prog, fn, set(COORD_WRITERS) | set(ORDER), ("radii_", "angles_", "nr_", "ntheta_"), "PolarGrid::")
        tail = [q for q in seq if q in ORDER]
        probs = []
        if tail != ORDER:
            probs.append("calls %s, expected %s" % ([q.split("::")[1] for q in tail], [q.split("::")[1] for q in ORDER]))
        else:
            first = seq.index(ORDER[0])
            late = [q for q in seq[first:] if q not in ORDER]
            if late:
                probs.append("coordinates modified after validation: %s" % late)
        if probs:
            ck.violation("R-C17-6", "ctor:%s" % probs[0][:40], ir.locstr(fn), "%s: %s" % (key, "; ".join(probs)))
        else:
            ck.ok("R-C17-6", key)
    if nct < 3:
        raise ir.AnalysisBroken("found %d PolarGrid constructors (3 confirmed by hand)" % nct)
    ck.extra["shapes"] = n_shapes
    geometry_queries(ck, tier)
    return ck.finish(
        "The index functions of PolarGrid are interpreted from /repo's source (integers concrete, doubles erased) on every node of "
        "a family of shapes covering nr 2..12, ntheta incl. powers of two and non-powers, every split position 0..nr. The functions are "
        "piecewise linear in (r,theta) with the only predicates r<nsc and node<ncirc, so every case of every predicate is realised. "
        "Split identities are checked on every path of initializeLineSplitting (floating-point comparisons forked both ways, "
        "lower_bound result enumerated). Flag maintenance, coarsening index rule and constructor order are structural.",
        trusted_base=["clang 14 front end", "gmgir lowering", "own IR interpreter (C integer semantics)"],
        assumptions=["coordinates as floating-point values are not examined"])


if __name__ == "__main__":
    report.run(main, "C17")
