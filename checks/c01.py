"""C01 — a reported convergence is true (stop-test integrity; convergence itself is not decided).

R-C01-1: at every stop test of solve() the number handed to converged() is a norm (of the configured type) of
         the residual -- extrapolated residual when extrapolation is on -- of the iterate the level-0 solution
         vector holds at that moment; when solve() stops early the returned iterate is that same term.
R-C01-2: converged() returns true only through a comparison that implies value <= tolerance, pairing the
         absolute value with the absolute tolerance and the relative value (current/initial of THIS solve) with
         the relative one; an early stop happens only after converged() returned true.
R-C01-3: the norm switch covers every enumerator with the matching norm expression.
R-C01-6: verbose_ / paraview_ (what is printed or written) do not steer the iteration: the set of possible outcomes of solve()
         is the same for every value of them.
R-C01-5: the iterate after k passes of the loop is cycle^k(start) for the configured cycle type, extrapolation variant and
         smoothing counts (start = 0 or the FMG start vector): the dispatch in solve() hands the right cycle the right
         vectors. (That this iteration converges is numerical and not decided.)
"""
import itertools

from gmg import drv, ir, report, solve_runs as sr
from gmg.oracle import Oracle, setup_rhs
from gmg.terms import LC, has_kind, show, walk_atoms

EXT = {0: "NONE", 1: "IMPLICIT", 2: "FULL_GRID", 3: "COMBINED"}
KN = {0: "V", 1: "W", 2: "F"}
NORM = {0: "EUCLIDEAN", 1: "WEIGHTED_EUCLIDEAN", 2: "INFINITY"}


def modes(tier):
    seen = set()

    def emit(**kw):
        m = {"L": 2, "FMG": False, "FMG_iterations": 1, "FMG_cycle": 0, "extrapolation": 0, "cycle": 0, "nu1": 1, "nu2": 1,
             "max_iterations": 2, "abs_tol": True, "rel_tol": True, "exact": False, "norm": 0}
        m.update(kw)
        k = tuple(sorted(m.items()))
        if k not in seen:
            seen.add(k)
            return m
        return None

    tols = [(True, False), (False, True), (True, True)]
    out = []
    Ls = [2, 3] if tier == "quick" else [2, 3, 4]
    for ext, cyc, fmg, L, (a, r) in itertools.product(range(4), range(3), (False, True), Ls, tols):
        out.append(emit(extrapolation=ext, cycle=cyc, FMG=fmg, L=L, abs_tol=a, rel_tol=r))
    for norm, ext, (a, r) in itertools.product(range(3), range(4), tols):
        out.append(emit(norm=norm, extrapolation=ext, abs_tol=a, rel_tol=r))
    for mi, ext, (a, r) in itertools.product((1, 3), range(4), tols):
        out.append(emit(max_iterations=mi, extrapolation=ext, abs_tol=a, rel_tol=r))
    if tier == "thorough":
        for norm, ext, cyc, fmg, (a, r), mi, ex in itertools.product(range(3), range(4), range(3), (False, True), tols, (1, 2, 3), (False, True)):
            out.append(emit(norm=norm, extrapolation=ext, cycle=cyc, FMG=fmg, abs_tol=a, rel_tol=r, max_iterations=mi, exact=ex, L=3))
    return [m for m in out if m]


def scalar_parts(v):
    """(set of function names, list of LCs) inside a scalar term"""
    names, lcs = set(), []
    stack = [v]
    while stack:
        x = stack.pop()
        if isinstance(x, LC):
            lcs.append(x)
        elif isinstance(x, tuple) and x and x[0] == "s":
            names.add(x[1])
            stack.extend(x[2:])
        elif isinstance(x, tuple):
            stack.extend(x)
    return names, lcs


def implied_le(cond, outcome):
    """(a, b, strict) such that `cond == outcome` implies a <= b; None if it implies nothing of that shape"""
    neg = not outcome
    while isinstance(cond, tuple) and cond[:2] == ("s", "!"):
        cond = cond[2]
        neg = not neg
    if not (isinstance(cond, tuple) and len(cond) == 4 and cond[0] == "s"):
        return None
    op, a, b = cond[1], cond[2], cond[3]
    if neg:
        op = {">": "<=", ">=": "<", "<": ">=", "<=": ">"}.get(op)
    if op == "<=":
        return (a, b)
    if op == "<":
        return (a, b)
    if op == ">=":
        return (b, a)
    if op == ">":
        return (b, a)
    return None


def main(tier):
    ck = report.Check("C01", tier, level="other", technique="static value-flow analysis of solve()/converged(): the tested scalar is a norm of the residual term of the returned iterate")
    ck.rule("R-C01-1", "tested value = configured norm of the (extrapolated) residual of the current level-0 iterate; early stop returns that iterate", floor=100)
    ck.rule("R-C01-2", "converged() true only via value<=tolerance with matching pairing; relative value = current/initial of this solve; early stop only after converged()==true", floor=100)
    ck.rule("R-C01-3", "norm switch: each enumerator uses its own norm expression", floor=3)
    prog = sr.load()
    ck.units += prog.units
    for qn in ("GMGPolar::solve", "GMGPolar::converged", "GMGPolar::extrapolatedResidual", "GMGPolar::initializeSolution"):
        ck.analysed(prog.fn(qn))
    solve_fn = prog.fn("GMGPolar::solve")
    conv_fn = prog.fn("GMGPolar::converged")
    n_paths = 0
    norm_seen = {}
    ms = modes(tier)
    for mode in ms:
        L = mode["L"]
        ext = mode["extrapolation"] != 0
        what = "ext=%s cycle=%s FMG=%s L=%d abs=%s rel=%s norm=%s maxit=%d" % (EXT[mode["extrapolation"]], KN[mode["cycle"]], mode["FMG"], L,
                                                                              mode["abs_tol"], mode["rel_tol"], NORM[mode["norm"]], mode["max_iterations"])
        rhs = setup_rhs(L, mode["FMG"], ext)
        orc = Oracle(L, 1, 1, ext, mode["extrapolation"] in (0, 2, 3), rhs)
        outs = sr.scenario_fresh(prog, mode, with_accessors=False)
        for pi, o in enumerate(outs):
            n_paths += 1
            pk = "%s path%d" % (what, pi)
            if o.throws:
                ck.fail("R-C01-1", "solve:throws", o.throws.site, "%s: solve() throws %s" % (what, o.throws.what))
                continue
            calls = o.converged_calls
            start_res = None
            # ---- every stop test
            for ci, c in enumerate(calls):
                ck.instance("R-C01-1", pk + " test%d" % ci)
                absv, relv = c["args"]
                want = orc.stop_residual(c["solution"])
                names, lcs = scalar_parts(absv)
                probs = []
                if len(lcs) != 1 or lcs[0] is not want:
                    probs.append("the value tested against the tolerance is %s, not a norm of the residual %s of the current iterate" % (show(absv)[:300], show(want)[:200]))
                wantn = {0: {"sqrt", "l2sq"}, 1: {"sqrt", "l2sq", "/", "N"}, 2: {"inf"}}[mode["norm"]]
                if names != wantn:
                    probs.append("norm expression uses %s, expected %s for %s" % (sorted(names), sorted(wantn), NORM[mode["norm"]]))
                else:
                    norm_seen[mode["norm"]] = True
                if ci == 0:
                    start_res = want
                if probs:
                    ck.violation("R-C01-1", "solve:tested-value", c["site"], "%s: %s" % (pk, "; ".join(probs)), detail=o.dom.oplog[-30:])
                else:
                    ck.ok("R-C01-1", pk, sample={"mode": what, "tested": show(absv)[:200]} if (n_paths % 97 == 1) else None)
                # relative value
                ck.instance("R-C01-2", pk + " test%d rel" % ci)
                rprobs = []
                if ci == 0:
                    if relv != 1:
                        rprobs.append("relative value at iteration 0 is %s, not 1" % show(relv)[:200])
                else:
                    ok = isinstance(relv, tuple) and relv[:2] == ("s", "/") and relv[2] == absv
                    if ok:
                        n2, l2 = scalar_parts(relv[3])
                        ok = len(l2) == 1 and l2[0] is start_res
                    if not ok:
                        rprobs.append("relative value is %s, not current/initial residual norm of this solve" % show(relv)[:300])
                # decision logic inside converged()
                if c["result"] is True:
                    if not c["choices"]:
                        rprobs.append("converged() returned true without comparing anything")
                    else:
                        site, cond, outc, fnq = c["choices"][-1]
                        le = implied_le(cond, outc)
                        if le is None:
                            rprobs.append("converged() returns true on condition %s == %s, which does not imply value <= tolerance" % (show(cond)[:200], outc))
                        else:
                            a, b = le
                            pair_ok = (a == absv and b == ("s", "tol", "absolute_tolerance_")) or (a == relv and b == ("s", "tol", "relative_tolerance_"))
                            if a == absv and a == relv:
                                pair_ok = b in (("s", "tol", "absolute_tolerance_"), ("s", "tol", "relative_tolerance_"))
                            if not pair_ok:
                                rprobs.append("converged() returns true because %s <= %s: wrong pairing or direction" % (show(a)[:120], show(b)[:120]))
                elif c["result"] is False:
                    # every enabled tolerance must have been compared and failed
                    seen_tols = set()
                    for site, cond, outc, fnq in c["choices"]:
                        le = implied_le(cond, not outc)  # the negation holds
                        for t in ("absolute_tolerance_", "relative_tolerance_"):
                            if ("s", "tol", t) in (cond if isinstance(cond, tuple) else ()) or t in show(cond):
                                seen_tols.add(t)
                    need = set(t for t, on in (("absolute_tolerance_", mode["abs_tol"]), ("relative_tolerance_", mode["rel_tol"])) if on)
                    if not need <= seen_tols:
                        rprobs.append("converged() returned false without testing %s" % ", ".join(sorted(need - seen_tols)))
                else:
                    rprobs.append("converged() returned %r" % (c["result"],))
                if rprobs:
                    ck.violation("R-C01-2", "converged:logic", c["site"], "%s: %s" % (pk, "; ".join(rprobs)))
                else:
                    ck.ok("R-C01-2", pk)
            # ---- exit
            ck.instance("R-C01-2", pk + " exit")
            it_n = o.iterations
            early = isinstance(it_n, int) and it_n < mode["max_iterations"]
            eprobs = []
            if early:
                if not calls or calls[-1]["result"] is not True:
                    eprobs.append("solve() stops after %s of %d iterations although the last stop test did not report convergence" % (it_n, mode["max_iterations"]))
                elif o.solution is not calls[-1]["solution"]:
                    eprobs.append("the iterate returned after a reported convergence is not the one that was tested (something modified it after the test)")
            else:
                if calls and calls[-1]["result"] is True:
                    eprobs.append("converged() reported convergence but solve() kept iterating")
            if has_kind(o.solution, ("stale", "clob")):
                eprobs.append("returned iterate depends on scratch/stale data")
            if eprobs:
                ck.violation("R-C01-2", "solve:exit", ir.locstr(solve_fn), "%s: %s" % (pk, "; ".join(eprobs)))
            else:
                ck.ok("R-C01-2", pk + " exit")
    for n in range(3):
        ck.instance("R-C01-3", NORM[n])
        if norm_seen.get(n):
            ck.ok("R-C01-3", NORM[n])
        else:
            ck.violation("R-C01-3", "solve:norm-%s" % NORM[n], ir.locstr(solve_fn), "no stop test used the %s norm expression in its mode" % NORM[n])
    # ---- R-C01-5: what the iteration iterates: after k passes of the loop the level-0 iterate is cycle^k(start), with the
    # cycle type and the extrapolation variant the options select (the dispatch in solve() is checked by no other rule)
    ck.rule("R-C01-5", "the iterate solve() returns after k iterations == k applications of the configured cycle (type, extrapolation variant, smoothing counts) to the start vector", floor=40)
    Ls5 = [2, 3] if tier == "quick" else [2, 3, 4]
    for ext, cyc, fmg, L, mi in itertools.product(range(4), range(3), (False, True), Ls5, (1, 2)):
        if tier == "quick" and L == 3 and mi == 2 and cyc != 0:
            continue
        mode = {"L": L, "FMG": fmg, "FMG_iterations": 1, "FMG_cycle": (cyc + 1) % 3, "extrapolation": ext, "cycle": cyc, "nu1": 1, "nu2": 1,
                "max_iterations": mi, "abs_tol": False, "rel_tol": False, "exact": False, "norm": 0}
        what = "ext=%s cycle=%s FMG=%s(start-up cycle %s) L=%d iterations=%d" % (EXT[ext], KN[cyc], fmg, KN[(cyc + 1) % 3], L, mi)
        ck.instance("R-C01-5", what)
        outs = sr.scenario_fresh(prog, mode, with_accessors=False)
        is_ext = ext != 0
        fgs = ext in (0, 2, 3)
        rhs = setup_rhs(L, fmg, is_ext)
        orc = Oracle(L, 1, 1, is_ext, fgs, rhs)
        want = orc.fmg((cyc + 1) % 3, 1) if fmg else LC.zero()
        for _ in range(mi):
            want = orc.cycle(cyc, 0, want, rhs[0], ext_top=is_ext)
        probs = []
        if not outs:
            probs.append("no path through setup()+solve()")
        # usually one path with both tolerances off; a branch on something the driver model does not know (an option added
        # later) gives several, and each of them must return the expected iterate
        for o in outs:
            if o.throws:
                probs.append("throws %s" % o.throws.what)
            elif o.solution is not want:
                probs.append("the returned iterate is\n      %s\n    but %d x %s-cycle (%s) from the start vector gives\n      %s" % (
                    show(o.solution)[:400], mi, KN[cyc], "implicitly extrapolated" if is_ext else "plain", show(want)[:400]))
            if o.iterations != mi:
                probs.append("number_of_iterations_ is %s after %d passes" % (o.iterations, mi))
        if probs:
            ck.violation("R-C01-5", "solve:iteration:%s" % KN[cyc], ir.locstr(solve_fn), "%s: %s" % (what, probs[0]))
        else:
            ck.ok("R-C01-5", what, sample={"mode": what} if (ext, cyc, fmg, L, mi) == (1, 1, True, 2, 1) else None)
    # ---- R-C01-6: presentation options do not steer the iteration.  verbose_ and paraview_ select what is printed / written;
    # the set of possible outcomes of solve() (returned iterate, iteration count, over every outcome of every value-dependent
    # test) must be the same whatever their values (a numerical decision that moved inside `if (verbose_ > 0)` is silent in
    # every logged run and wrong in every quiet one)
    ck.rule("R-C01-6", "the outcomes of solve() (iterate term, iteration count, over all paths) do not depend on verbose_ / paraview_", floor=12)
    for ext, fmg, mi in itertools.product(range(4), (False, True), (2, 3)):
        if tier == "quick" and mi == 3 and fmg:
            continue
        base_mode = {"L": 2, "FMG": fmg, "FMG_iterations": 1, "FMG_cycle": 0, "extrapolation": ext, "cycle": 0, "nu1": 1, "nu2": 1,
                     "max_iterations": mi, "abs_tol": True, "rel_tol": True, "exact": False, "norm": 0}
        what = "ext=%s FMG=%s maxit=%d" % (EXT[ext], fmg, mi)
        ck.instance("R-C01-6", what)

        def outcomes(verbose, paraview):
            m = dict(base_mode, verbose=verbose, paraview=paraview)
            res = set()
            for o in sr.scenario_fresh(prog, m, with_accessors=False):
                res.add(("throws %s" % o.throws.what) if o.throws else (show(o.solution), str(o.iterations)))
            return res
        ref = outcomes(0, False)
        bad = None
        for vb, pv in ((1, False), (2, False), (0, True)):
            got = outcomes(vb, pv)
            if got != ref:
                only = sorted(got - ref) or sorted(ref - got)
                bad = "with verbose=%d paraview=%s solve() has %d possible outcomes, with verbose=0 paraview=False %d; e.g. only %s: iterate %s after %s iterations" % (
                    vb, pv, len(got), len(ref), "there" if (got - ref) else "in the quiet run", str(only[0][0])[:160] if isinstance(only[0], tuple) else only[0], only[0][1] if isinstance(only[0], tuple) else "-")
                break
        if bad:
            ck.violation("R-C01-6", "solve:presentation-option-steers-iteration", ir.locstr(solve_fn), "%s: %s" % (what, bad))
        else:
            ck.ok("R-C01-6", what, sample={"mode": what, "outcomes": len(ref)} if (ext, fmg, mi) == (3, False, 2) else None)
    # ---- R-C01-4: the combination extrapolatedResidual builds (exact table, interpreted from source)
    from fractions import Fraction
    from gmg import dag, symdom, tab_ops
    from gmg.dag import Lin
    from gmg.interp import Cell
    from gmg.symdom import SArr
    ck.rule("R-C01-4", "extrapolatedResidual: 4/3 r_h at fine-only nodes, (4 r_h - r_2h)/3 at coarse nodes (r_2h at the injected index)", floor=3)
    oprog = tab_ops.load()
    fx = oprog.fn("GMGPolar::extrapolatedResidual")
    ck.analysed(fx)
    for (nr, nt, nsc, nscc) in ((7, 8, 3, 2), (9, 4, 2, 1), (5, 8, 5, 3), (7, 8, 0, 0), (7, 12, 3, 2)):
        S = tab_ops.Setting(oprog, nr, nt, nsc, False)
        cg = symdom.coarse_of(S.grid, nscc)
        gm = tab_ops.make_gmgpolar(S, [symdom.make_level(0, S.grid), symdom.make_level(1, cg)])
        Nc = cg.shape[0] * cg.shape[1]
        res = SArr("residual", S.N, gen=lambda j: Lin.var(("r", j)))
        rn = SArr("residual_next", Nc, gen=lambda j: Lin.var(("c", j)))
        S.it.call_function(fx, gm, [0, Cell(res), Cell(rn)])
        key = "nr=%d ntheta=%d nsc=%d/%d" % (nr, nt, nsc, nscc)
        ck.instance("R-C01-4", key)
        bad = None
        cnt, cnr = nt // 2, (nr + 1) // 2

        def cindex(i, j):
            return j + cnt * i if i < nscc else nscc * cnt + (i - nscc) + (cnr - nscc) * j

        for p in range(S.N):
            i, j = S.rt(p)
            v = res.sym.get(p)
            want = {("r", p): Fraction(4, 3)}
            if i % 2 == 0 and j % 2 == 0:
                want[("c", cindex(i // 2, j // 2))] = Fraction(-1, 3)
            got = {k: c for k, c in v.t.items() if not dag.is_zero(c)} if isinstance(v, Lin) else None
            if got is None or set(got) != set(want) or any(not dag.equal(got[k], dag.const(want[k])) for k in want):
                bad = "node (%d,%d): extrapolated residual is %s, expected %s" % (i, j, v, want)
                break
        if S.dom.oob:
            bad = "out-of-range access %r" % (S.dom.oob[0],)
        if bad:
            ck.violation("R-C01-4", "extrapolatedResidual:table", ir.locstr(fx), "%s: %s" % (key, bad))
        else:
            ck.ok("R-C01-4", key, sample={"shape": key, "coarse-node row": "4/3 r_h - 1/3 r_2h", "fine-node row": "4/3 r_h"})
    ck.extra["modes"] = len(ms)
    ck.extra["paths"] = n_paths
    return ck.finish(
        "setup()+solve() are interpreted from /repo's source per mode with every outcome of every stop test explored "
        "(finite case split). At each call of converged() the argument terms are compared with the norm of the residual term of "
        "the iterate currently in the level-0 solution vector (for extrapolation: the combination extrapolatedResidual builds from "
        "the fine residual and the coarse residual of the injected iterate); converged()'s own comparisons are read off the "
        "recorded branch conditions. Decides 'a reported stop is true' structurally; convergence and the rate bound are numerical "
        "and not decided.",
        trusted_base=["clang 14 front end", "gmgir lowering", "operator signature table"],
        assumptions=["convergence and its rate are numerical and not decided"])


if __name__ == "__main__":
    report.run(main, "C01")
