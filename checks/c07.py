"""C07 — extrapolated smoothing relaxes fine-only nodes and never moves coarse nodes (structural/algebraic part).

R-C07-1: at every node that also belongs to the next coarser grid (both indices even) the line solve receives exactly the
         current value x[c] as right-hand side (no rhs, no neighbour contribution) and the stored matrix row is the literal
         identity: the sweep returns x[c]/1.0, bit for bit.
R-C07-2: for every fine-only non-Dirichlet node p: A_sc[p,.] + A_ortho[p,.] == A[p,.] (split completeness; couplings to coarse
         nodes are all on the ortho side), rhs weight one; Dirichlet rows are identity rows with the boundary data;
         neighbour versions follow the colour order; lines through coarse nodes use diagonal solvers, the others tridiagonal.
R-C07-3: give == take, parallel == sequential.
Not decided: residual exactly zero after the last colour (arithmetic of the solves).
"""
from gmg import dag, ir, report, tab_ops, tab_smoother


def shapes(tier):
    # finest-level grids: ntheta % 4 == 0 (so the coarse grid has even ntheta), nsc >= 3, lsr >= 3, nr odd
    if tier == "quick":
        return [(7, 8, 3, False), (9, 8, 4, True), (7, 4, 4, False), (9, 12, 4, False), (11, 16, 5, True)]
    return [(nr, nt, nsc, d) for (nr, nt) in ((7, 4), (7, 8), (9, 8), (9, 12), (11, 8)) for nsc in (3, 4, 5) if nr - nsc >= 3 for d in (False, True)]


def main(tier):
    ck = report.Check("C07", tier, level="proof", technique="symbolic interpretation of the extrapolated smoother's matrix builders and of one sweep into exact tables; coarse-node invariance and split completeness by identity testing")
    ck.rule("R-C07-1", "coarse nodes: right-hand side == current value, matrix row == literal identity, no other contribution", floor=6)
    ck.rule("R-C07-2", "fine-only rows: A_sc + A_ortho == A; Dirichlet rows; version order; solver kind per line", floor=6)
    ck.rule("R-C07-3", "give == take; parallel == sequential", floor=6)
    prog = tab_smoother.load()
    ck.units += prog.units
    for cls in ("ExtrapolatedSmootherGive", "ExtrapolatedSmootherTake"):
        for m in ("buildAscMatrices", "buildAscCircleSection", "buildAscRadialSection", "extrapolatedSmoothing", "applyAscOrthoCircleSection",
                  "applyAscOrthoRadialSection", "solveCircleSection", "solveRadialSection"):
            ck.analysed(prog.fn("%s::%s" % (cls, m)))
    for (nr, nt, nsc, dirbc) in shapes(tier):
        S = tab_ops.Setting(prog, nr, nt, nsc, dirbc)
        sk = S.key()
        A, rp, regs = S.residual("ResidualGive", S.cache(True, True))
        sweeps = {}
        for cls in ("ExtrapolatedSmootherGive", "ExtrapolatedSmootherTake"):
            for threads in (2, 1):
                sw = tab_smoother.Sweep(S, cls, "ExtrapolatedSmoother", "extrapolatedSmoothing", threads=threads, extrapolated=True)
                sweeps[(cls, threads)] = sw
                key = "%s threads=%d %s" % (cls, threads, sk)
                site = ir.locstr(prog.fn(cls + "::extrapolatedSmoothing"))
                p1, p2 = [], []
                p2 += sw.asc_problems
                if sw.oob:
                    p2.append("out-of-range access %s[%s] (length %s) at %s" % sw.oob[0])
                if sw.solved_twice:
                    p2.append("node %s is solved more than once in a sweep" % (S.rt(sw.solved_twice[0]),))
                for p in range(S.N):
                    r, t = S.rt(p)
                    coarse = (r % 2 == 0 and t % 2 == 0)
                    if p not in sw.row:
                        (p1 if coarse else p2).append("node (%d,%d) is never handed to a line solve" % (r, t))
                        continue
                    cols, fco, const = sw.ortho(p)
                    asc = sw.Asc.get(p, {})
                    if coarse:
                        ok_rhs = (not fco) and set(cols) == {("x", p)} and dag.equal(cols[("x", p)], dag.const(-1)) and (const is None or dag.is_zero(const))
                        if not ok_rhs:
                            p1.append("coarse node (%d,%d): the right-hand side of its solve is %s, expected exactly the current value x[c]" % (r, t, sw.row[p]))
                        one_literal = set(asc) == {p} and asc[p] is dag.ONE
                        if not one_literal:
                            p1.append("coarse node (%d,%d): stored matrix row is %s, expected the literal 1.0 on the diagonal only (bit-exact division)" % (
                                r, t, {S.rt(q): dag.show(v, 40) for q, v in asc.items()}))
                        kind = sw.line_kind.get(sw.line_of(p))
                        if kind not in ("diag", "csr"):
                            p1.append("coarse node (%d,%d) lies on a line solved by a %s solver, expected a diagonal solver" % (r, t, kind))
                        continue
                    # fine-only nodes
                    if const is not None and not dag.is_zero(const):
                        p2.append("node (%d,%d): constant part in the right-hand side" % (r, t))
                    if S.dirichlet(p):
                        if set(asc) != {p} or not dag.equal(asc[p], dag.ONE) or cols or set(fco) != {p} or not dag.equal(fco[p], dag.ONE):
                            p2.append("Dirichlet node (%d,%d) is not an identity row with the boundary data" % (r, t))
                        continue
                    if p not in fco or not dag.equal(fco[p], dag.ONE):
                        p2.append("node (%d,%d): rhs[p] enters with weight %s" % (r, t, dag.show(fco.get(p, dag.ZERO), 60)))
                    total = dict(asc)
                    for (ver, q), v in cols.items():
                        total[q] = dag.add(total.get(q, dag.ZERO), v)
                        qr, qt = S.rt(q)
                        q_coarse = (qr % 2 == 0 and qt % 2 == 0)
                        if sw.line_of(q) == sw.line_of(p) and not q_coarse:
                            p2.append("node (%d,%d): coupling to the fine node (%d,%d) of the same line is on the A_ortho side" % (r, t, qr, qt))
                        if not q_coarse:
                            want = "y" if sw.seq.get(q, 10 ** 9) < sw.seq[p] else "x"
                            if ver != want:
                                p2.append("node (%d,%d) reads the %s value of neighbour (%d,%d) against the colour order" % (r, t, "previous" if ver == "x" else "updated", qr, qt))
                    for q, c in fco.items():
                        if q != p:
                            if not S.dirichlet(q):
                                p2.append("node (%d,%d) takes rhs of the non-Dirichlet node %s" % (r, t, S.rt(q)))
                            total[q] = dag.add(total.get(q, dag.ZERO), dag.sub(dag.ZERO, c))
                    for q in asc:
                        qr, qt = S.rt(q)
                        if q != p and qr % 2 == 0 and qt % 2 == 0:
                            p2.append("node (%d,%d): coupling to the coarse node (%d,%d) is inside A_sc (it must be on the ortho side)" % (r, t, qr, qt))
                    want = A.get(p, {})
                    for q in set(total) | set(want):
                        if not dag.equal(total.get(q, dag.ZERO), want.get(q, dag.ZERO)):
                            p2.append("node (%d,%d) column %s: A_sc + A_ortho = %s but the operator has %s" % (r, t, S.rt(q), dag.show(total.get(q, dag.ZERO), 100), dag.show(want.get(q, dag.ZERO), 100)))
                            break
                    if len(p1) + len(p2) > 4:
                        break
                ck.instance("R-C07-1", key)
                if p1:
                    ck.violation("R-C07-1", "%s:coarse-node" % cls, site, "%s: %s" % (key, p1[0]))
                else:
                    ck.ok("R-C07-1", key, sample={"smoother": cls, "shape": sk, "coarse nodes": ((nr + 1) // 2) * (nt // 2)})
                ck.instance("R-C07-2", key)
                if p2:
                    ck.violation("R-C07-2", "%s:fine-rows" % cls, site, "%s: %s" % (key, p2[0]))
                else:
                    ck.ok("R-C07-2", key)
        ref = sweeps[("ExtrapolatedSmootherGive", 2)]
        # the give smoother under the other three cache-flag combinations (take requires both caches)
        for fl in ((True, False), (False, True), (False, False)):
            sweeps[("ExtrapolatedSmootherGive", 2, fl)] = tab_smoother.Sweep(S, "ExtrapolatedSmootherGive", "ExtrapolatedSmoother", "extrapolatedSmoothing", threads=2, extrapolated=True, flags=fl)
        for k2 in (("ExtrapolatedSmootherTake", 2), ("ExtrapolatedSmootherGive", 1), ("ExtrapolatedSmootherTake", 1), ("ExtrapolatedSmootherGive", 2, (True, False)), ("ExtrapolatedSmootherGive", 2, (False, True)), ("ExtrapolatedSmootherGive", 2, (False, False))):
            sw = sweeps[k2]
            key = "%s threads=%d%s vs give/parallel %s" % (k2[0], k2[1], (" caches=(%s,%s)" % k2[2]) if len(k2) > 2 else "", sk)
            ck.instance("R-C07-3", key)
            bad = None
            if len(k2) > 2 and (sw.oob or sw.asc_problems or sw.solved_twice):
                bad = ("out-of-range access %s[%s] (length %s) at %s" % sw.oob[0]) if sw.oob else (sw.asc_problems[0] if sw.asc_problems else "a node is solved twice")
            d = tab_ops.diff_tables(ref.Asc, sw.Asc) if not bad else None
            if bad:
                pass
            elif d:
                i, c, a, b = d[0]
                bad = "A_sc[%s,%s]: %s vs %s" % (S.rt(i), S.rt(c), a, b)
            else:
                for p in range(S.N):
                    c1, f1, _ = ref.ortho(p)
                    c2, f2, _ = sw.ortho(p)
                    for kk in set(c1) | set(c2):
                        if not dag.equal(c1.get(kk, dag.ZERO), c2.get(kk, dag.ZERO)):
                            bad = "row %s, neighbour %s (%s value): %s vs %s" % (S.rt(p), S.rt(kk[1]), "updated" if kk[0] == "y" else "previous", dag.show(c1.get(kk, dag.ZERO), 80), dag.show(c2.get(kk, dag.ZERO), 80))
                            break
                    for kk in set(f1) | set(f2):
                        if not dag.equal(f1.get(kk, dag.ZERO), f2.get(kk, dag.ZERO)):
                            bad = "row %s, rhs entry %s differs" % (S.rt(p), S.rt(kk))
                    if bad:
                        break
            if bad:
                ck.violation("R-C07-3", "%s-%s:differs" % (k2[0], ("caches-%s-%s" % k2[2]) if len(k2) > 2 else ("parallel" if k2[1] > 1 else "sequential")), ir.locstr(prog.fn(k2[0] + "::extrapolatedSmoothing")), "%s: %s" % (key, bad))
            else:
                ck.ok("R-C07-3", key)
    return ck.finish(
        "Same method as C06 applied to the extrapolated smoothers: the stored A_sc matrices (tridiagonal, diagonal and the inner "
        "CSR block) are read back after interpreting buildAscMatrices; one sweep is interpreted with line solves summarised and "
        "their right-hand sides snapshotted as exact linear forms. At every coarse node the snapshot must be exactly the current "
        "value and the stored diagonal the literal 1.0 (so the returned value is x[c]/1.0, unchanged bit for bit); every fine-only "
        "row must satisfy split completeness against the residual operator's table with all couplings to coarse nodes on the ortho "
        "side.",
        trusted_base=["clang 14 front end", "gmgir lowering", "own IR interpreter", "line-solver footprint summary", "identity testing by exact rational evaluation at 4 pseudo-random points"],
        assumptions=["arithmetic of the line solves (residual exactly zero on the last colour) is not decided"])


if __name__ == "__main__":
    report.run(main, "C07")
