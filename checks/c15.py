"""C15 — copies and moves of linear-algebra objects behave like the original.

Decides (DESIGN 4/C15): R-C15-1 every data member is transferred by each of the four
special members on every non-self path; R-C15-2 allocation extent == copy extent == the
class's own extent invariant (derived from its value constructors); R-C15-3 a move resets
every scalar of the source that governs the extent of a moved-out array; R-C15-4 no member
type can share storage between two objects (independence by type).

Method: abstract interpretation of each special member's mem-initialisers and body over a
symbolic object state (scalars: sympy expressions over other.f / old.f / parameters; owning
arrays: allocation extent + copied range + source), path split at every `if`.
"""
import itertools
import re
import sys

import sympy as sp

from gmg import ir, report

CLASSES = ["Vector", "SparseMatrixCOO", "SparseMatrixCSR", "SparseLUSolver", "SymmetricTridiagonalSolver",
           "DiagonalSolver"]
SPECIALS = ["copy_ctor", "copy_assign", "move_ctor", "move_assign"]

_fresh = itertools.count()


def fresh(tag="unk"):
    return sp.Symbol("%s%d" % (tag, next(_fresh)))


class Arr:
    """abstract owning array"""

    def __init__(self, kind, extent=None, src=None):
        self.kind = kind  # 'null' | 'old' | 'alloc' | 'moved' | 'other'
        self.extent = extent  # sympy (alloc) or None
        self.src = src  # for moved: field name of other
        self.copies = []  # (src_field, lo, hi)  element copies from other.src_field[lo:hi) into [lo:hi)
        self.filled = None

    def clone(self):
        a = Arr(self.kind, self.extent, self.src)
        a.copies = list(self.copies)
        a.filled = self.filled
        return a

    def __repr__(self):
        return "Arr(%s, extent=%s, src=%s, copies=%s)" % (self.kind, self.extent, self.src, self.copies)


def is_array_field(t):
    return t.startswith("std::unique_ptr<") and "[]" in t


def is_sharing_type(t):
    t = t.strip()
    return t.endswith("*") or t.endswith("&") or "shared_ptr" in t or "weak_ptr" in t or "reference_wrapper" in t


class State:
    def __init__(self):
        self.this = {}  # field -> sympy | Arr
        self.other = {}  # field -> sympy | Arr   (source object, mutated by moves)
        self.locals = {}  # decl id -> sympy
        self.eqs = []  # (a, b) equalities assumed on this path
        self.self_path = False
        self.returned = False
        self.trace = []

    def clone(self):
        s = State()
        s.this = {k: (v.clone() if isinstance(v, Arr) else v) for k, v in self.this.items()}
        s.other = {k: (v.clone() if isinstance(v, Arr) else v) for k, v in self.other.items()}
        s.locals = dict(self.locals)
        s.eqs = list(self.eqs)
        s.self_path = self.self_path
        s.returned = self.returned
        s.trace = list(self.trace)
        return s


class Interp:
    """interprets one special member / constructor of class cls"""

    def __init__(self, cls, fn, other_param, prog=None):
        self.cls = cls
        self.fn = fn
        self.other_id = other_param["id"] if other_param else None
        self.other_ids = {self.other_id} if other_param else set()   # every name that denotes the source object (helper parameters)
        self.fields = {f["name"]: f for f in cls["fields"]}
        self.problems = []
        self.prog = prog
        self.depth = 0

    # -------- object designators
    def obj_of(self, e):
        """'this' | 'other' | None for an expression denoting an object of the class"""
        if e is None:
            return None
        k = e["k"]
        if k == "This":
            return "this"
        if k == "Un" and e["op"] == "*" and e["e"]["k"] == "This":
            return "this"
        if k == "Ref" and e["id"] in self.other_ids:
            return "other"
        if k == "Call" and e["callee"].startswith("std::move") and len(e["args"]) == 1:
            return self.obj_of(e["args"][0])
        return None

    def field_ref(self, e):
        """(obj, fieldname) if e denotes this->f / other.f (possibly through std::move)"""
        if e is None:
            return None
        if e["k"] == "Field":
            o = self.obj_of(e["base"])
            if o and e["field"] in self.fields:
                return (o, e["field"])
        if e["k"] == "Call" and e["callee"].startswith("std::move") and len(e["args"]) == 1:
            return self.field_ref(e["args"][0])
        if e["k"] == "Construct" and len(e["args"]) == 1 and (e.get("copy") or e.get("move")):
            return self.field_ref(e["args"][0])
        return None

    def is_move(self, e):
        if e["k"] == "Call" and e["callee"].startswith("std::move"):
            return True
        if e["k"] == "Construct" and len(e["args"]) == 1 and e.get("move"):
            return True
        return False

    # -------- scalar evaluation
    def val(self, e, st):
        k = e["k"]
        if k == "Int":
            return sp.Integer(int(e["v"]))
        if k == "Float":
            return sp.Rational(e.get("text") or e["v"]) if (e.get("text") or e["v"]).replace(".", "").isdigit() else sp.Float(e["v"])
        if k == "Bool":
            return sp.true if e["v"] else sp.false
        if k == "Nullptr":
            return Arr("null")
        if k == "Ref":
            if e["id"] in st.locals:
                return st.locals[e["id"]]
            v = sp.Symbol("param_" + e["name"])
            st.locals[e["id"]] = v
            return v
        fr = self.field_ref(e)
        if fr:
            o, f = fr
            d = st.this if o == "this" else st.other
            v = d[f]
            if isinstance(v, Arr):
                if self.is_move(e):
                    if v.kind in ("other",) and o == "other":
                        d[f] = Arr("null")
                        return Arr("moved", src=f)
                    r = v.clone()
                    return r
                return v
            return v
        if k == "Cast":
            return self.val(e["e"], st)
        if k in ("Bin",):
            a = self.val(e["a"], st)
            b = self.val(e["b"], st)
            if isinstance(a, Arr) or isinstance(b, Arr):
                return fresh()
            op = e["op"]
            try:
                if op == "+":
                    return a + b
                if op == "-":
                    return a - b
                if op == "*":
                    return a * b
                if op == "!=":
                    return sp.Ne(a, b)
                if op == "==":
                    return sp.Eq(a, b)
                if op == "||":
                    return sp.Or(a, b)
                if op == "&&":
                    return sp.And(a, b)
                if op == "<":
                    return sp.Lt(a, b)
            except TypeError:
                pass
            return fresh()
        if k == "Call":
            cal = e["callee"]
            if cal.startswith("std::make_unique<") and "[]" in cal:
                ext = self.val(e["args"][0], st)
                return Arr("alloc", extent=ext)
            if cal.endswith("::size") and "this" in e:
                return fresh("size")
            if cal.startswith("std::move") and len(e["args"]) == 1:
                return self.val(e["args"][0], st)
            if "this" in e and e.get("this") is not None and not e["args"] and self.prog is not None and self.obj_of(e["this"]) in ("this", "other"):
                # a const getter of the class called on *this or on the source: `return member_;`
                g_ = [f for f in self.prog.fns(cal) if not f["params"] and f.get("body") is not None and f.get("constm")]
                if len(g_) == 1:
                    b_ = g_[0]["body"]
                    st_ = b_["s"] if b_.get("k") == "Block" else [b_]
                    if len(st_) == 1 and st_[0].get("k") == "Return" and st_[0].get("e") is not None:
                        r_ = st_[0]["e"]
                        while r_.get("k") in ("Paren", "Cast", "ImplicitCast") and r_.get("e") is not None:
                            r_ = r_["e"]
                        if r_.get("k") == "Field" and r_.get("base") is not None and r_["base"].get("k") == "This" and r_["field"] in self.fields:
                            d_ = st.this if self.obj_of(e["this"]) == "this" else st.other
                            v_ = d_[r_["field"]]
                            if not isinstance(v_, Arr):
                                return v_
            if cal.startswith("std::exchange") and len(e["args"]) == 2:
                # std::exchange(x, new): yields the old value of x and stores new in x
                fr2 = self.field_ref(e["args"][0])
                if fr2:
                    o2, f2 = fr2
                    d2 = st.this if o2 == "this" else st.other
                    oldv = d2[f2]
                    newv = self.val(e["args"][1], st)
                    if isinstance(oldv, Arr):
                        d2[f2] = newv if isinstance(newv, Arr) else Arr("null")
                        if oldv.kind == "other" and o2 == "other":
                            return Arr("moved", src=f2)
                        return oldv
                    d2[f2] = newv
                    st.trace.append("%s.%s := %s (std::exchange)   [%s]" % (o2, f2, newv, ir.locstr(e)))
                    return oldv
        if k == "Construct":
            if len(e["args"]) == 1:
                return self.val(e["args"][0], st)
            if len(e["args"]) == 0:
                return sp.Symbol("default_" + e["t"].replace(" ", "_"))
        if k == "InitList" and not e["elems"]:
            return sp.Integer(0)
        if k == "ZeroInit":
            return sp.Integer(0)
        return fresh()

    # -------- effects
    def assign_field(self, obj, f, v, st, site):
        d = st.this if obj == "this" else st.other
        d[f] = v
        st.trace.append("%s.%s := %s   [%s]" % (obj, f, v, site))

    def ptr_of(self, e):
        """e is `X.f.get()` (+ offset): returns (obj, field, offset)"""
        if e["k"] in ("Paren", "Cast", "ImplicitCast") and e.get("e") is not None:
            return self.ptr_of(e["e"])
        if e["k"] == "Call" and e["callee"].endswith("::get") and "this" in e:
            fr = self.field_ref(e["this"])
            if fr:
                return (fr[0], fr[1], sp.Integer(0))
        if e["k"] == "Ref" and getattr(self, "cur_state", None) is not None:
            v = self.cur_state.locals.get(e["id"])
            if isinstance(v, tuple) and v and v[0] == "ptr":
                return v[1:]
        if e["k"] == "Bin" and e["op"] in "+-":
            return None
        return None

    def ptr_off(self, e, st):
        self.cur_state = st
        p = self.ptr_of(e)
        if p:
            return p
        if e["k"] == "Bin" and e["op"] in ("+", "-"):
            a = self.ptr_off(e["a"], st)
            if a:
                b = self.val(e["b"], st)
                if isinstance(b, Arr):
                    return None
                return (a[0], a[1], a[2] + b if e["op"] == "+" else a[2] - b)
        return None

    def do_copy(self, src_lo, src_hi, dst, st, site):
        a = self.ptr_off(src_lo, st)
        b = self.ptr_off(src_hi, st)
        c = self.ptr_off(dst, st)
        if not (a and b and c) or a[:2] != b[:2]:
            self.problems.append(("std::copy with unrecognised operands", site))
            return
        if c[0] != "this":
            self.problems.append(("std::copy writes into the source object", site))
            return
        arr = st.this[c[1]]
        if not isinstance(arr, Arr):
            return
        if sp.simplify(a[2]) != 0 or sp.simplify(c[2]) != 0:
            self.problems.append(("std::copy with non-zero start offset", site))
        arr.copies.append((a[0], a[1], a[2], b[2]))
        st.trace.append("this.%s[0:%s) := %s.%s[..]   [%s]" % (c[1], b[2], a[0], a[1], site))

    def element_loop(self, s, st):
        """for (i = 0; i < N; ++i) f[i] = other.g[i];  (possibly under an OpenMP directive)"""
        if s["k"] == "Omp":
            return self.element_loop(s.get("body"), st) if s.get("body") else False
        if s["k"] != "For":
            return False
        init = s["init"]
        if not init or init["k"] != "Decl" or len(init["vars"]) != 1:
            return False
        iv = init["vars"][0]
        lo = self.val(iv["init"], st) if iv.get("init") else None
        c = s["c"]
        if not c or c["k"] != "Bin" or c["op"] != "<" or c["a"]["k"] != "Ref" or c["a"]["id"] != iv["id"]:
            return False
        hi = self.val(c["b"], st)
        body = s["body"]
        stm = body["s"] if body["k"] == "Block" else [body]
        ok = False
        for x in stm:
            if x["k"] != "Expr":
                return False
            e = x["e"]
            if e["k"] != "Assign" or e["op"] != "=":
                return False
            l, r = e["a"], e["b"]

            def elem(z):
                if z["k"] in ("Paren", "Cast", "ImplicitCast") and z.get("e") is not None:
                    return elem(z["e"])
                if z["k"] == "OpCall" and z["op"] == "[]" and len(z["args"]) == 2:
                    fr = self.field_ref(z["args"][0])
                    if fr and z["args"][1]["k"] == "Ref" and z["args"][1]["id"] == iv["id"]:
                        return fr
                if z["k"] == "Index" and z["idx"]["k"] == "Ref" and z["idx"]["id"] == iv["id"]:
                    # p[i] with p a local name for X.f.get(): the same element as X.f[i]
                    p = self.ptr_off(z["base"], st)
                    if p and sp.simplify(p[2]) == 0:
                        return (p[0], p[1])
                return None

            lf, rf = elem(l), elem(r)
            if not lf or not rf or lf[0] != "this":
                return False
            arr = st.this[lf[1]]
            if isinstance(arr, Arr):
                arr.copies.append((rf[0], rf[1], lo, hi))
                st.trace.append("this.%s[%s:%s) := %s.%s[i]   [%s]" % (lf[1], lo, hi, rf[0], rf[1], ir.locstr(s)))
                ok = True
        return ok

    def havoc_loop(self, s, st):
        for n in ir.walk(s):
            if n.get("k") == "Assign":
                fr = self.field_ref(n["a"])
                if fr:
                    self.assign_field(fr[0], fr[1], fresh("loop"), st, ir.locstr(n))
                elif n["a"]["k"] == "Ref":
                    st.locals[n["a"]["id"]] = fresh("loop")
                elif n["a"]["k"] == "OpCall" and n["a"]["op"] == "[]":
                    fr = self.field_ref(n["a"]["args"][0])
                    if fr and isinstance((st.this if fr[0] == "this" else st.other)[fr[1]], Arr):
                        (st.this if fr[0] == "this" else st.other)[fr[1]].filled = "loop"
            if n.get("k") == "Un" and n["op"] in ("++", "--") and n["e"]["k"] == "Ref":
                st.locals[n["e"]["id"]] = fresh("loop")

    def exec_expr(self, e, st):
        k = e["k"]
        site = ir.locstr(e)
        if k == "Assign":
            fr = self.field_ref(e["a"])
            if fr and e["op"] == "=":
                self.assign_field(fr[0], fr[1], self.val(e["b"], st), st, site)
                return
            if fr:
                self.assign_field(fr[0], fr[1], fresh(), st, site)
                return
            if e["a"]["k"] == "Ref":
                st.locals[e["a"]["id"]] = self.val(e["b"], st) if e["op"] == "=" else fresh()
                return
            if e["a"]["k"] == "OpCall" and e["a"]["op"] == "[]":
                fr = self.field_ref(e["a"]["args"][0])
                if fr:
                    return  # single element store (value constructors)
            return
        if k == "OpCall" and e["op"] == "=" and len(e["args"]) == 2:
            fr = self.field_ref(e["args"][0])
            if fr:
                self.assign_field(fr[0], fr[1], self.val(e["args"][1], st), st, site)
                return
        if k == "Call":
            cal = e["callee"]
            if cal.startswith("std::copy<") and len(e["args"]) == 3:
                self.do_copy(e["args"][0], e["args"][1], e["args"][2], st, site)
                return
            if cal.startswith("std::fill<") and len(e["args"]) == 3:
                c = self.ptr_off(e["args"][0], st)
                if c and isinstance(st.this.get(c[1]), Arr):
                    st.this[c[1]].filled = "fill"
                return
            if cal.startswith("std::fill_n<") and len(e["args"]) == 3:
                c = self.ptr_off(e["args"][0], st)
                if c and isinstance(st.this.get(c[1]), Arr):
                    st.this[c[1]].filled = "fill"
                return
            if cal.startswith("std::copy_n<") and len(e["args"]) == 3:
                # copy_n(src, n, dst) == copy(src, src + n, dst)
                a = self.ptr_off(e["args"][0], st)
                c = self.ptr_off(e["args"][2], st)
                n_ = self.val(e["args"][1], st)
                if not (a and c) or isinstance(n_, Arr):
                    self.problems.append(("std::copy_n with unrecognised operands", site))
                    return
                if c[0] != "this":
                    self.problems.append(("std::copy_n writes into the source object", site))
                    return
                arr = st.this[c[1]]
                if isinstance(arr, Arr):
                    if sp.simplify(a[2]) != 0 or sp.simplify(c[2]) != 0:
                        self.problems.append(("std::copy_n with non-zero start offset", site))
                    arr.copies.append((a[0], a[1], a[2], a[2] + n_))
                    st.trace.append("this.%s[0:%s) := %s.%s[..]   [%s]" % (c[1], n_, a[0], a[1], site))
                return
            # calls of own methods (e.g. factorize) : opaque — havoc nothing for copy/move members; flag
            if "this" in e and self.obj_of(e.get("this")) == "this" and self.inline_call(e, st):
                return
            if "this" in e and self.obj_of(e.get("this")) == "this":
                st.trace.append("call %s [%s]" % (cal, site))
                for f in self.fields:
                    if not isinstance(st.this[f], Arr):
                        st.this[f] = fresh("call")
                return
        # anything else: ignore (asserts are compiled out)

    def inline_paths(self, e, st):
        """statement-level call of a method of the same class on *this (a setter, a helper with an `if`): interpreted in
        place on every path; None if the callee is not a single definition in the program"""
        cands = [f for f in self.prog.fns(e["callee"]) if len(f["params"]) == len(e["args"]) and f.get("body") is not None]
        if len(cands) != 1 or cands[0].get("special") or cands[0].get("inits"):
            return None
        fn = cands[0]
        added = []
        trial = st.clone()
        for p, a in zip(fn["params"], e["args"]):
            if self.obj_of(a) == "other":
                self.other_ids.add(p["id"])
                added.append(p["id"])
            else:
                trial.locals[p["id"]] = self.val(a, trial)
        self.depth += 1
        try:
            body = fn["body"]
            ends = self.exec_block(body["s"] if body["k"] == "Block" else [body], [trial])
        finally:
            self.depth -= 1
            for i in added:
                self.other_ids.discard(i)
        for x in ends:
            x.returned = False
            x.trace.append("(inlined %s)" % e["callee"])
        return ends

    def inline_call(self, e, st):
        """a call of a method of the same class on *this whose definition is in the IR (a helper shared by copy constructor
        and copy assignment): interpreted in place, its parameters bound to the arguments.  Only straight-line helpers that
        end in one state are inlined (anything else keeps the conservative treatment)."""
        if self.prog is None or self.depth >= 3:
            return False
        cands = [f for f in self.prog.fns(e["callee"]) if len(f["params"]) == len(e["args"]) and f.get("body") is not None]
        if len(cands) != 1 or cands[0].get("special") or cands[0].get("inits"):
            return False
        fn = cands[0]
        added = []
        saved = {}
        for p, a in zip(fn["params"], e["args"]):
            if self.obj_of(a) == "other":
                self.other_ids.add(p["id"])
                added.append(p["id"])
            else:
                saved[p["id"]] = st.locals.get(p["id"])
                st.locals[p["id"]] = self.val(a, st)
        self.depth += 1
        try:
            body = fn["body"]
            trial = st.clone()
            ends = self.exec_block(body["s"] if body["k"] == "Block" else [body], [trial])
        finally:
            self.depth -= 1
            for i in added:
                self.other_ids.discard(i)
        if len(ends) != 1:
            return False
        end = ends[0]
        st.this, st.other, st.locals, st.eqs, st.trace = end.this, end.other, end.locals, end.eqs, end.trace + ["(inlined %s)" % e["callee"]]
        st.returned = False
        return True

    def exec_block(self, stmts, states):
        for s in stmts:
            nxt = []
            for st in states:
                if st.returned:
                    nxt.append(st)
                    continue
                nxt.extend(self.exec_stmt(s, st))
            states = nxt
        return states

    def cond_split(self, c, st):
        """returns (state_if_true, state_if_false)"""
        t, f = st.clone(), st
        # self-assignment tests
        def is_self_test(e):
            if e["k"] == "Bin" and e["op"] in ("==", "!="):
                a, b = e["a"], e["b"]
                for x, y in ((a, b), (b, a)):
                    if x["k"] == "This" and y["k"] == "Un" and y["op"] == "&" and self.obj_of(y["e"]) == "other":
                        return e["op"]
            return None

        op = is_self_test(c)
        if op == "==":
            t.self_path = True
            return t, f
        if op == "!=":
            f.self_path = True
            return t, f
        v = self.val(c, st.clone())
        # collect equalities on the false branch of (a != b) [|| ...]
        def neqs(x):
            if isinstance(x, sp.Ne):
                return [(x.lhs, x.rhs)]
            if isinstance(x, sp.Or):
                out = []
                for a in x.args:
                    r = neqs(a)
                    if r is None:
                        return None
                    out += r
                return out
            return None

        def eqs(x):
            if isinstance(x, sp.Eq):
                return [(x.lhs, x.rhs)]
            if isinstance(x, sp.And):
                out = []
                for a in x.args:
                    r = eqs(a)
                    if r:
                        out += r
                return out
            return []

        n = neqs(v)
        if n:
            f.eqs += n
        if v is sp.true:
            f.returned = True
            f.self_path = True  # infeasible
        if v is sp.false:
            t.returned = True
            t.self_path = True
        t.eqs += eqs(v) if not isinstance(v, sp.Ne) else []
        return t, f

    def exec_stmt(self, s, st):
        k = s["k"]
        if k == "Block":
            return self.exec_block(s["s"], [st])
        if k == "Expr":
            e_ = s["e"]
            if e_.get("k") == "Call" and "this" in e_ and self.obj_of(e_.get("this")) == "this" and self.prog is not None and self.depth < 3:
                ends = self.inline_paths(e_, st)
                if ends is not None:
                    return ends
            self.exec_expr(s["e"], st)
            return [st]
        if k == "Decl":
            for v in s["vars"]:
                if "init" in v and v["init"] is not None:
                    p = self.ptr_off(v["init"], st) if v.get("t", "").rstrip().endswith(("*", "*const", "* const")) or "*" in v.get("t", "") else None
                    if p:
                        st.locals[v["id"]] = ("ptr",) + tuple(p)     # T* p = f.get() [+ k]: a name for (object, array member, offset)
                    else:
                        st.locals[v["id"]] = self.val(v["init"], st)
            return [st]
        if k == "If":
            t, f = self.cond_split(s["c"], st)
            out = self.exec_stmt(s["t"], t)
            if s.get("e"):
                out += self.exec_stmt(s["e"], f)
            else:
                out.append(f)
            return out
        if k == "Return":
            st.returned = True
            return [st]
        if k in ("For", "Omp", "While"):
            if not self.element_loop(s, st):
                self.havoc_loop(s, st)
            return [st]
        if k == "Null":
            return [st]
        self.havoc_loop(s, st)
        return [st]

    def run(self, mode):
        """mode: 'ctor' (this starts undefined), 'assign' (this starts old)"""
        st = State()
        for f, fd in self.fields.items():
            arrf = is_array_field(fd["t"])
            st.other[f] = Arr("other") if arrf else sp.Symbol("other_" + f)
            if mode == "assign":
                st.this[f] = Arr("old") if arrf else sp.Symbol("old_" + f)
            else:
                st.this[f] = Arr("null") if arrf else sp.Symbol("UNINIT_" + f)
        for p in self.fn["params"]:
            if p["id"] != self.other_id:
                st.locals[p["id"]] = sp.Symbol("param_" + p["name"])
        if "inits" in self.fn:
            for i in self.fn["inits"]:
                if "field" in i:
                    v = self.val(i["init"], st)
                    self.assign_field("this", i["field"], v, st,
                                      ir.locstr(i) + ("" if i["written"] else " (default member initialiser)"))
        body = self.fn["body"]
        return self.exec_block(body["s"], [st])


def subst_eqs(expr, eqs):
    if not isinstance(expr, sp.Basic):
        return expr
    for a, b in eqs:
        # orient old_* -> other_*
        if isinstance(a, sp.Symbol) and str(a).startswith("old_"):
            expr = expr.subs(a, b)
        elif isinstance(b, sp.Symbol) and str(b).startswith("old_"):
            expr = expr.subs(b, a)
    return expr


def same(a, b):
    try:
        if a == b:
            return True
        return sp.simplify(a - b) == 0
    except Exception:
        return False


def invariants(prog, cls, ck):
    """extent invariants of array fields from the value constructors: field -> expr over this_<scalar> symbols"""
    inv = {}
    short = cls["qn"].split("<")[0]
    for fn in prog.fns(cls["qn"] + "::" + short):
        if fn.get("special") not in ("ctor",):
            continue
        it = Interp(cls, fn, None, prog)
        ends = it.run("ctor")
        ck.analysed(fn)
        for st in ends:
            # map parameter/unknown symbols to final scalar fields
            back = {}
            for f, v in st.this.items():
                if isinstance(v, sp.Symbol) and not str(v).startswith("UNINIT_"):
                    back.setdefault(v, sp.Symbol("this_" + f))
            for f, v in st.this.items():
                if isinstance(v, Arr) and v.kind == "alloc" and v.extent is not None:
                    e = v.extent.subs(back) if isinstance(v.extent, sp.Basic) else v.extent
                    if all(str(s).startswith("this_") for s in e.free_symbols):
                        inv.setdefault(f, []).append((e, fn))
    out = {}
    for f, lst in inv.items():
        e0 = lst[0][0]
        for e, fn in lst[1:]:
            if not same(e, e0):
                ck.fail("R-C15-2", "%s::%s:ctor-extent" % (short, f), ir.locstr(fn),
                        "value constructors disagree on the extent of %s: %s vs %s" % (f, e0, e))
        out[f] = e0
    return out


def main(tier):
    ck = report.Check("C15", tier, level="other", technique="abstract interpretation of special members (field coverage, extents)")
    ck.rule("R-C15-1", "every data member equals the source's on every non-self path of each user-provided copy/move member", floor=40)
    ck.rule("R-C15-2", "allocation extent == copied range == class extent invariant (from value constructors)", floor=20)
    ck.rule("R-C15-3", "move resets every source scalar governing the extent of a moved-out array", floor=8)
    ck.rule("R-C15-4", "no member type can share storage between objects (no raw pointer / reference / shared_ptr member)", floor=20)
    prog = ir.load(units=[], witness=True)
    ck.units += prog.units
    n_members = 0
    for cname in CLASSES:
        cls = prog.cls(cname + "<double>")
        short = cname
        fields = cls["fields"]
        if not fields:
            raise ir.AnalysisBroken("class %s has no fields in the IR" % cname)
        for f in fields:
            key = "%s::%s" % (short, f["name"])
            if is_sharing_type(f["t"]):
                ck.fail("R-C15-4", key, ir.locstr(f), "member %s has type %s which can alias storage of another object" % (f["name"], f["t"]))
            else:
                ck.held("R-C15-4", key)
        inv = invariants(prog, cls, ck)
        arr_fields = [f["name"] for f in fields if is_array_field(f["t"])]
        for f in arr_fields:
            if f not in inv:
                raise ir.AnalysisBroken("no extent invariant derivable for %s::%s from its value constructors" % (short, f))
        specials = {}
        for fn in prog.fns(cls["qn"] + "::" + short) + prog.fns(cls["qn"] + "::operator="):
            sp_ = fn.get("special")
            if sp_ in SPECIALS:
                specials[sp_] = fn
        for m in cls["methods"]:
            if m.get("special") in SPECIALS and not m["user"] and not m["deleted"]:
                # compiler-generated: memberwise, holds by construction
                specials.setdefault(m["special"], None)
        for sname in SPECIALS:
            if sname not in specials:
                raise ir.AnalysisBroken("%s has no %s in the IR" % (short, sname))
            fn = specials[sname]
            if fn is None or fn.get("defaulted"):
                for f in fields:
                    ck.held("R-C15-1", "%s::%s:%s" % (short, sname, f["name"]), nontrivial=False)
                continue
            n_members += 1
            ck.analysed(fn)
            if len(fn["params"]) != 1:
                raise ir.AnalysisBroken("%s::%s has %d params" % (short, sname, len(fn["params"])))
            it = Interp(cls, fn, fn["params"][0], prog)
            ends = it.run("assign" if sname.endswith("assign") else "ctor")
            for msg, site in it.problems:
                ck.undecide("R-C15-2", "%s::%s" % (short, sname), "%s at %s" % (msg, site))
            paths = [st for st in ends if not st.self_path]
            if not paths:
                raise ir.AnalysisBroken("%s::%s: no non-self path" % (short, sname))
            is_move = sname.startswith("move")
            for f in fields:
                fname = f["name"]
                key = "%s::%s:%s" % (short, sname, fname)
                site = ir.locstr(fn)
                bad = None
                for st in paths:
                    v = st.this[fname]
                    if isinstance(v, Arr):
                        continue  # arrays judged by R-C15-2
                    want = sp.Symbol("other_" + fname)
                    got = subst_eqs(v, st.eqs)
                    if not same(got, want):
                        bad = (got, st)
                        break
                if fname in arr_fields:
                    continue
                if bad and isinstance(bad[0], sp.Basic) and any(re.match(r"^(unk|call|loop|size)\d+$", str(x)) for x in bad[0].free_symbols):
                    # the value went through something the idiom table does not know: nothing is known about it, in
                    # particular not that it is wrong
                    raise ir.AnalysisBroken("%s of %s: member %s receives a value computed by a construct outside the modelled copy idioms (%s); trace: %s" % (
                        sname, short, fname, bad[0], "; ".join(bad[1].trace[-4:])))
                if bad:
                    got, st = bad
                    how = str(got)
                    if how.startswith("old_"):
                        how = "keeps the destination's previous value"
                    elif how.startswith("UNINIT_"):
                        how = "is left uninitialised"
                    else:
                        how = "is set to %s" % how
                    ck.fail("R-C15-1", key, site,
                            "member %s %s instead of the source's value in %s of %s" % (fname, how, sname, short),
                            detail=st.trace)
                else:
                    ck.held("R-C15-1", key, sample={"member": fname, "special": sname, "final": "other." + fname})
            # arrays
            for fname in arr_fields:
                key = "%s::%s:%s" % (short, sname, fname)
                site = ir.locstr(fn)
                for pi, st in enumerate(paths):
                    v = st.this[fname]
                    scal = {sp.Symbol("this_" + g["name"]): subst_eqs(st.this[g["name"]], st.eqs)
                            for g in fields if not isinstance(st.this[g["name"]], Arr)}
                    want_ext = inv[fname].subs(scal)
                    src_ext = inv[fname].subs({sp.Symbol("this_" + g["name"]): sp.Symbol("other_" + g["name"]) for g in fields})
                    if is_move:
                        ck.instance("R-C15-1", key)
                        if v.kind == "moved" and v.src == fname:
                            ck.ok("R-C15-1", key)
                        else:
                            ck.violation("R-C15-1", key, site, "array member %s is not moved from the source's %s in %s (state: %s)" % (fname, fname, sname, v), detail=st.trace)
                        ck.instance("R-C15-2", key + ":extent")
                        if same(want_ext, src_ext):
                            ck.ok("R-C15-2", key + ":extent")
                        else:
                            ck.violation("R-C15-2", key + ":extent", site, "after %s the scalars imply extent %s for %s but the moved storage has %s" % (sname, want_ext, fname, src_ext), detail=st.trace)
                        continue
                    # copy
                    ck.instance("R-C15-2", key + ":path%d" % pi)
                    if v.kind == "alloc":
                        ext = subst_eqs(v.extent, st.eqs)
                    elif v.kind == "old":
                        ext = subst_eqs(inv[fname].subs({sp.Symbol("this_" + g["name"]): sp.Symbol("old_" + g["name"]) for g in fields}), st.eqs)
                    else:
                        ck.violation("R-C15-2", key, site, "array member %s is %s after %s (expected a deep copy)" % (fname, v.kind, sname), detail=st.trace)
                        continue
                    probs = []
                    if not same(ext, src_ext):
                        probs.append("storage extent %s differs from the source's extent %s on the path where %s" % (
                            ext, src_ext, "storage is reused" if v.kind == "old" else "storage is reallocated"))
                    if not same(ext, want_ext):
                        probs.append("storage extent %s disagrees with the extent %s the final size members imply" % (ext, want_ext))
                    full = [c for c in v.copies if c[0] == "other" and c[1] == fname]
                    if not full:
                        probs.append("no element copy from the source's %s" % fname)
                    else:
                        lo, hi = full[-1][2], subst_eqs(full[-1][3], st.eqs)
                        if not same(lo, 0) or not same(hi, src_ext):
                            probs.append("copied range [%s, %s) is not the whole source extent [0, %s)" % (lo, hi, src_ext))
                    wrong = [c for c in v.copies if not (c[0] == "other" and c[1] == fname)]
                    if wrong:
                        probs.append("elements copied from %s.%s" % (wrong[0][0], wrong[0][1]))
                    if probs:
                        ck.violation("R-C15-2", key, site, "%s of %s, member %s: %s" % (sname, short, fname, "; ".join(probs)), detail=st.trace)
                    else:
                        ck.ok("R-C15-2", key + ":path%d" % pi, sample={"member": fname, "special": sname, "extent": str(ext), "copied": "[0,%s)" % src_ext})
                if not is_move:
                    ck.held("R-C15-1", key)
            # R-C15-3 moved-from source
            if is_move:
                for st in paths:
                    for fname in arr_fields:
                        if st.other[fname].kind != "null":
                            continue
                        for s in inv[fname].free_symbols:
                            g = str(s)[len("this_"):]
                            key = "%s::%s:source.%s" % (short, sname, g)
                            ck.instance("R-C15-3", key)
                            ov = st.other[g]
                            if isinstance(ov, sp.Basic) and ov.is_number:
                                ck.ok("R-C15-3", key, sample={"source member": g, "reset to": str(ov)})
                            else:
                                ck.violation("R-C15-3", key, ir.locstr(fn), "%s moves %s out of the source but leaves the source's %s = %s, which still claims the released storage" % (sname, fname, g, ov), detail=st.trace)
    ck.extra["special_members_interpreted"] = n_members
    return ck.finish(
        "Every user-provided copy/move member of the six linear-algebra classes (explicitly instantiated for double in the "
        "witness unit) is interpreted abstractly over a symbolic object state; at the end of every non-self path each scalar "
        "member must equal the source's, each owning array must be a whole-extent deep copy (or the moved storage) whose extent "
        "agrees with the class's own extent invariant. Decides state transfer and independence by type; does not decide "
        "observational equality of later numerical results.",
        trusted_base=["clang 14 front end", "gmgir lowering", "sympy simplify on polynomial extents",
                      "idiom table: std::copy over [get(), get()+n), element loop, std::make_unique<T[]>(n), std::move"],
        assumptions=["std::unique_ptr/std::vector members have value semantics (standard library)"])


if __name__ == "__main__":
    report.run(main, "C15")
