"""C10 — each multigrid cycle is a consistent correction scheme.

R-C10-1: the term each of the six cycle functions leaves in the level-0 iterate equals the
correction-scheme recursion (oracle) for every (cycle, extrapolation, L, nu1, nu2) mode.
R-C10-2: no aliasing of operator arguments, no stale/scratch leaf in the result, problem
right-hand sides untouched, extrapolated variants entered only at depth 0, every operator applied
to vectors of its own level.
R-C10-3: started from the exact discrete solution (f := A u) the non-extrapolated cycle returns u.
R-C10-4: glue between the term analysis and the table analyses: Level::computeResidual / directSolveInPlace / smoothing /
         extrapolatedSmoothing forward their own parameters, all and in order, to the same-named method of the operator
         member; Level::initializeX constructs, per strategy branch, the class of that strategy into the right member with
         role-correct arguments; no call site in the library passes two type-compatible arguments swapped
         with respect to the callee's parameter names.
"""
import itertools

from gmg import drv, ir, report
from gmg.interp import Interp, ThrowEx
from gmg.oracle import Oracle
from gmg.terms import LC, has_kind, leaf, show, stale, subst

CYCLES = {
    (0, False): "GMGPolar::multigrid_V_Cycle",
    (1, False): "GMGPolar::multigrid_W_Cycle",
    (2, False): "GMGPolar::multigrid_F_Cycle",
    (0, True): "GMGPolar::implicitlyExtrapolatedMultigrid_V_Cycle",
    (1, True): "GMGPolar::implicitlyExtrapolatedMultigrid_W_Cycle",
    (2, True): "GMGPolar::implicitlyExtrapolatedMultigrid_F_Cycle",
}
KN = {0: "V", 1: "W", 2: "F"}
UNITS = ["src/GMGPolar/MultigridMethods/multigrid_V_Cycle.cpp", "src/GMGPolar/MultigridMethods/multigrid_W_Cycle.cpp",
         "src/GMGPolar/MultigridMethods/multigrid_F_Cycle.cpp",
         "src/GMGPolar/MultigridMethods/implicitly_extrapolated_multigrid_V_Cycle.cpp",
         "src/GMGPolar/MultigridMethods/implicitly_extrapolated_multigrid_W_Cycle.cpp",
         "src/GMGPolar/MultigridMethods/implicitly_extrapolated_multigrid_F_Cycle.cpp",
         "src/GMGPolar/level_interpolation.cpp", "src/GMGPolar/solver.cpp", "src/Level/level.cpp",
         "src/Interpolation/interpolation.cpp", "src/Interpolation/injection.cpp", "src/Interpolation/prolongation.cpp",
         "src/Interpolation/restriction.cpp", "src/Interpolation/extrapolated_prolongation.cpp",
         "src/Interpolation/extrapolated_restriction.cpp", "src/Interpolation/fmg_interpolation.cpp",
         "src/GMGPolar/build_rhs_f.cpp"]


def initial_bufs(L, ext, fmg_alloc=False):
    b = {}
    for l in range(L):
        for w in drv.WHICH:
            b[(l, w)] = {"alloc": True, "val": stale(l, w)}
        if l == 0:
            b[(l, "error_correction")]["alloc"] = False
        has_rhs = fmg_alloc or l == 0 or (l == 1 and ext)
        b[(l, "rhs")] = {"alloc": has_rhs, "val": leaf("f%d" % l) if has_rhs else stale(l, "rhs")}
    b[(0, "solution")]["val"] = leaf("u0")
    return b


def exact_rule(a):
    # S_l(U, A_l U) -> U  (C06: a sweep leaves the exact solution of its own system unchanged; linear => S(0,0)=0)
    if a[0] == "fn" and a[1] == "S":
        U, Fv = a[3], a[4]
        if Fv == U.lin("A", a[2]):
            return U
    return None


def plumbing_rules(ck):
    """R-C10-4: the operator symbols of the term analysis denote the operators the table analyses (C03-C08) interpret"""
    from gmg import plumbing
    ck.rule("R-C10-4", "Level's wrappers forward their parameters unchanged and in order to the operator member; its factories build the class of the selected strategy with role-correct arguments; no swapped type-compatible arguments at driver-layer call sites", floor=12)
    whole = ir.load()
    for qn in plumbing.WRAPPERS:
        ck.instance("R-C10-4", "forward " + qn)
        probs, fn = plumbing.check_forward(whole, qn)
        ck.analysed(fn)
        if probs:
            ck.violation("R-C10-4", "forward:%s" % qn.split("::")[1], ir.locstr(fn), "%s %s" % (qn, "; ".join(probs)))
        else:
            ck.ok("R-C10-4", "forward " + qn, sample={"wrapper": qn, "forwards to": "%s->%s(%s)" % (plumbing.WRAPPERS[qn] + (", ".join(p["name"] for p in fn["params"]),))})
    for qn in plumbing.FACTORIES:
        ck.instance("R-C10-4", "factory " + qn)
        probs, fn = plumbing.check_factory(whole, qn)
        ck.analysed(fn)
        if probs:
            ck.violation("R-C10-4", "factory:%s" % qn.split("::")[1], ir.locstr(fn), "%s: %s" % (qn, "; ".join(probs)))
        else:
            ck.ok("R-C10-4", "factory " + qn)
    # swapped arguments anywhere in the library
    n_sites = 0
    n_make_unique = [0]
    for qn, fl in whole.functions.items():
        for fn in fl:
            loc = ir.locstr(fn)
            if not loc.startswith(("src/", "include/")):
                continue
            for c in plumbing.calls(fn):
                name = c.get("callee") or c.get("ctor")
                if name and name.startswith("std::make_unique<"):
                    import re
                    mm = re.match(r"std::make_unique<\s*([A-Za-z_0-9:]+)", name)
                    if mm:
                        name = "%s::%s" % (mm.group(1), mm.group(1).rsplit("::", 1)[-1])
                        n_make_unique[0] += 1
                cands = [f for f in whole.fns(name) if len(f["params"]) == len(c["args"])] if name else []
                if len(cands) != 1 or len(c["args"]) < 2:
                    continue
                if not ir.locstr(cands[0]).startswith(("src/", "include/")) or ir.locstr(cands[0]).startswith("include/LinearAlgebra/"):
                    continue  # generic vector kernels are symmetric in some arguments (a swap there can be neutral); their meaning is C12's kernel rule
                n_sites += 1
                sw = plumbing.swapped_arguments(whole, c, cands[0])
                key = "roles %s -> %s at %s" % (qn, name, ir.locstr(c))
                ck.instance("R-C10-4", key, nontrivial=False)
                if sw:
                    i, j, pi, pj = sw[0]
                    ck.violation("R-C10-4", "swapped:%s:%s" % (qn.split("::")[-1], name.split("::")[-1]), ir.locstr(c),
                                 "%s passes `%s` for parameter `%s` and `%s` for parameter `%s` of %s (the types convert silently)" % (
                                     qn, ir.show(c["args"][i]), pi, ir.show(c["args"][j]), pj, name))
                else:
                    ck.ok("R-C10-4", key)
    if n_sites < 40:
        raise ir.AnalysisBroken("only %d driver-layer call sites with two or more arguments were resolved (>= 40 confirmed by hand)" % n_sites)
    ck.extra["call_sites_checked_for_swapped_arguments"] = n_sites
    ck.extra["of_which_through_make_unique"] = n_make_unique[0]


def main(tier):
    ck = report.Check("C10", tier, level="other", technique="static value-flow analysis (Herbrand terms) of the cycle functions against the correction-scheme recursion")
    ck.rule("R-C10-1", "exit term of the level-0 iterate == oracle recursion MG(0,u0,f)", floor=24)
    ck.rule("R-C10-2", "no aliasing, no stale/scratch leaf, rhs untouched, level discipline, extrapolated variants only at depth 0", floor=24)
    ck.rule("R-C10-3", "f := A u0 and S(u,Au)=u  =>  cycle returns u0 (non-extrapolated variants)", floor=9)
    prog = ir.load(units=UNITS, witness=False)
    ck.units += prog.units
    drv.check_signatures(prog)
    for qn in CYCLES.values():
        ck.analysed(prog.fn(qn))
    for qn in ("GMGPolar::prolongation", "GMGPolar::restriction", "GMGPolar::injection", "GMGPolar::extrapolatedProlongation",
               "GMGPolar::extrapolatedRestriction"):
        ck.analysed(prog.fn(qn))
    if tier == "quick":
        Ls = [2, 3, 4]
        nus = [(0, 0), (1, 1), (2, 1), (0, 2)]
    else:
        Ls = [2, 3, 4, 5]
        nus = list(itertools.product(range(3), range(3)))
    n_modes = 0
    sample_done = set()
    for (kind, ext), qn in CYCLES.items():
        fn = prog.fn(qn)
        for L in Ls:
            for nu1, nu2 in nus:
                for fgs, fmg in itertools.product([True, False] if ext else [True], [False, True]):
                    mode = {"L": L, "nu1": nu1, "nu2": nu2, "cycle": kind, "extrapolation": (3 if fgs else 1) if ext else 0,
                            "full_grid_smoothing": fgs, "FMG": fmg}
                    n_modes += 1
                    what = "%s ext=%s L=%d nu=(%d,%d) fgs=%s%s" % (KN[kind], ext, L, nu1, nu2, fgs, " FMG-layout" if fmg else "")
                    key = "%s:%s" % (qn.split("::")[1], what)
                    doms = []

                    def body(dom, it):
                        dom.make_state(bufs=initial_bufs(L, ext, fmg_alloc=fmg))
                        # which vectors exist on which level and which accessor hands out which member is read off
                        # Level's constructor and accessors (with and without the full-multigrid flag)
                        dom.derive_layout(mode["extrapolation"], fmg)
                        dom.gm.f["full_grid_smoothing_"].set(fgs)
                        it.call_function(fn, dom.gm, [0, drv.BufRef(0, "solution"), drv.BufRef(0, "rhs"), drv.BufRef(0, "residual")])

                    for dom in drv.run_paths(prog, mode, body):
                        doms.append(dom)
                    if len(doms) != 1:
                        raise ir.AnalysisBroken("cycle %s has %d value-dependent paths in mode %s" % (qn, len(doms), what))
                    dom = doms[0]
                    got = dom.bufs[(0, "solution")]["val"]
                    rhs = {0: leaf("f0"), 1: leaf("f1")}
                    orc = Oracle(L, nu1, nu2, ext, fgs, rhs)
                    want = orc.cycle(kind, 0, leaf("u0"), leaf("f0"), ext_top=ext)
                    # ---- R-C10-2
                    ck.instance("R-C10-2", key)
                    probs = []
                    if dom.throws:
                        probs.append("throws: %s at %s" % (dom.throws.what, dom.throws.site))
                    for ev in dom.events:
                        probs.append(repr(ev))
                    bad = has_kind(got, ("stale", "clob"))
                    if bad:
                        probs.append("result depends on %s" % ", ".join(sorted(set(show(a) for a in bad)))[:300])
                    if dom.bufs[(0, "rhs")]["val"] != leaf("f0"):
                        probs.append("level-0 right-hand side is overwritten: %s" % show(dom.bufs[(0, "rhs")]["val"])[:200])
                    if ext and dom.bufs[(1, "rhs")]["val"] != leaf("f1"):
                        probs.append("level-1 right-hand side is overwritten: %s" % show(dom.bufs[(1, "rhs")]["val"])[:200])
                    for cq, vals, site, stack in dom.cycle_calls:
                        if "implicitlyExtrapolated" in cq and vals[0] != 0:
                            probs.append("%s entered at depth %s (site %s)" % (cq, vals[0], site))
                        if not ext and "implicitlyExtrapolated" in cq:
                            probs.append("non-extrapolated cycle calls %s" % cq)
                    if probs:
                        ck.violation("R-C10-2", "%s:%s" % (qn.split("::")[1], probs[0].split(" at ")[0][:80]),
                                     ir.locstr(fn), "%s: %s" % (what, "; ".join(probs)[:1500]), detail=dom.oplog)
                    else:
                        ck.ok("R-C10-2", key)
                    # ---- R-C10-1
                    ck.instance("R-C10-1", key)
                    if got == want and not dom.throws:
                        smp = None
                        if (kind, ext) not in sample_done and L == 2 and (nu1, nu2) == (0, 0):
                            sample_done.add((kind, ext))
                            smp = {"mode": what, "term": show(got)}
                        ck.ok("R-C10-1", key, sample=smp)
                    else:
                        ck.violation("R-C10-1", "%s:term" % qn.split("::")[1], ir.locstr(fn),
                                     "%s: iterate after the cycle is\n      %s\n    but the correction scheme gives\n      %s" % (what, show(got)[:1200], show(want)[:1200]),
                                     detail=dom.oplog)
                    # ---- R-C10-3
                    if not ext and (nu1, nu2) in ((0, 0), (1, 1), (2, 1)):
                        ck.instance("R-C10-3", key)
                        z = subst(got, {"f0": leaf("u0").lin("A", 0)}, rules=(exact_rule,))
                        if z == leaf("u0"):
                            ck.ok("R-C10-3", key)
                        else:
                            ck.violation("R-C10-3", "%s:fixed-point" % qn.split("::")[1], ir.locstr(fn),
                                         "%s: started from the exact discrete solution the cycle returns %s" % (what, show(z)[:600]))
    plumbing_rules(ck)
    ck.extra["modes"] = n_modes
    ck.extra["mode_space"] = {"cycle functions": 6, "L": Ls, "(nu1,nu2)": nus, "full_grid_smoothing": "both for extrapolated variants"}
    return ck.finish(
        "Each of the six cycle functions is interpreted from /repo's source over Herbrand terms (vectors = exact linear "
        "combinations of operator symbols A,R,Rx,P,Px,Inj,Solve and uninterpreted smoothers S,Sx; recursion unrolled for the "
        "concrete level count; the level_interpolation wrappers are interpreted too). The exit term of the iterate is compared "
        "with the recursion of the property statement; with smoothing off and L=2 this is literally u0 + P Solve R (f - A u0). "
        "All work vectors start as STALE leaves, so any dependence on scratch contents shows up in the term. "
        "L<=5 realises every combination of the level predicates the code uses (l==0, l+1==L-1).",
        trusted_base=["clang 14 front end", "gmgir lowering", "operator in/out signature table (cross-checked against const-ness)",
                      "linearity of A, R, P, Inj, Solve as operator symbols"],
        assumptions=["the operator symbols mean what C03-C08 establish for them; numerical accuracy is not decided"],
        exhaustive=(tier == "thorough"))


if __name__ == "__main__":
    report.run(main, "C10")
