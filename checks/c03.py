"""C03 — one discrete operator: give, take, cached, uncached, any level agree.

R-C03-1: residual-give table == residual-take table on every row of every representative grid.
R-C03-2: Dirichlet rows are the identity; across-origin rows have exactly 7 entries incl. the antipodal column;
         interior rows 9 entries; every row reads its own rhs entry with weight 1.
R-C03-3: the give operator with the four cache-flag combinations yields the same table (coefficient provenance).
R-C03-4: a coarse LevelCache built from the finer level equals a fresh LevelCache on the coarse grid (all arrays,
         all flag combinations): caches sample the finer cache at the even indices.
R-C03-5: consistency: every non-Dirichlet row with i_r >= 1 sums to its mass term 0.25(h1+h2)(k1+k2)*beta*|detDF|
         (the artificial 7-point closure across the origin drops two mixed terms by design and is exempt).
"""
import itertools

from gmg import dag, ir, opsdom, report, symdom, tab_ops
from gmg.interp import Cell


def shapes(tier):
    if tier == "quick":
        return [(6, 8, 2, False), (6, 8, 3, True), (7, 4, 4, False), (5, 8, 0, True), (5, 4, 5, False), (7, 12, 3, True), (9, 4, 7, False)]
    out = []
    for nr, nt in ((5, 4), (6, 8), (7, 8), (9, 12)):
        for nsc in sorted(set([0, 1, 2, 3, nr - 1, nr])):
            for d in (False, True):
                out.append((nr, nt, nsc, d))
    return out


def main(tier):
    ck = report.Check("C03", tier, level="proof", technique="symbolic interpretation of the residual operators and coefficient caches into exact matrix tables; identities by polynomial identity testing on the extracted DAGs")
    ck.rule("R-C03-1", "residual give table == residual take table", floor=4)
    ck.rule("R-C03-2", "row structure: Dirichlet identity rows, 7-point across-origin rows with antipodal column, 9-point interior rows, own rhs weight 1", floor=4)
    ck.rule("R-C03-3", "give table independent of the cache flags (4 combinations)", floor=12)
    ck.rule("R-C03-4", "coarse LevelCache == fresh LevelCache on the coarse grid (all arrays, 4 flag combinations)", floor=8)
    ck.rule("R-C03-5", "row sums equal the mass term (consistency of the stencil)", floor=4)
    ck.rule("R-C03-7", "build_rhs_f: source term at (r_i, theta_j) on operator rows, boundary data on Dirichlet rows, every node written once", floor=4)
    ck.rule("R-C03-6", "rhs discretisation: factor * beta == row sum of the operator (i_r >= 1); Dirichlet rows untouched; cached == uncached", floor=4)
    ck.rule("R-C03-8", "single-thread code path (omp_get_max_threads() == 1) applies the same operator table as the parallel path (give, take)", floor=8)
    prog = tab_ops.load()
    ck.units += prog.units
    for qn in ("ResidualGive::computeResidual", "ResidualGive::applyCircleSection", "ResidualGive::applyRadialSection", "ResidualTake::computeResidual",
               "ResidualTake::applyCircleSection", "ResidualTake::applyRadialSection", "LevelCache::obtainValues", "compute_jacobian_elements"):
        ck.analysed(prog.fn(qn))
    for f in prog.fns("LevelCache::LevelCache"):
        ck.analysed(f)
    site_g = ir.locstr(prog.fn("ResidualGive::applyCircleSection"))
    site_t = ir.locstr(prog.fn("ResidualTake::applyCircleSection"))
    for (nr, nt, nsc, dirbc) in shapes(tier):
        S = tab_ops.Setting(prog, nr, nt, nsc, dirbc)
        sk = S.key()
        tables = {}
        for cc, cg in itertools.product((True, False), (True, False)):
            A, probs, regs = S.residual("ResidualGive", S.cache(cc, cg))
            tables[(cc, cg)] = A
            if probs:
                ck.fail("R-C03-2", "give:rhs-weight", site_g, "%s caches=(%s,%s): %s" % (sk, cc, cg, probs[0]))
        At, probs, regs = S.residual("ResidualTake", S.cache(True, True))
        if probs:
            ck.fail("R-C03-2", "take:rhs-weight", site_t, "%s: %s" % (sk, probs[0]))
        if S.dom.oob:
            ck.fail("R-C03-2", "out-of-range", S.dom.oob[0][3], "%s: access %s[%s] of length %s" % ((sk,) + S.dom.oob[0][:3]))
        n_oob_ops = len(S.dom.oob)
        Ag = tables[(True, True)]
        # ---- R-C03-8: the sequential branch of computeResidual
        S1 = tab_ops.Setting(prog, nr, nt, nsc, dirbc, threads=1)
        for cls, Apar, st in (("ResidualGive", Ag, site_g), ("ResidualTake", At, site_t)):
            key1 = "%s %s threads=1" % (cls, sk)
            ck.instance("R-C03-8", key1)
            A1, probs1, regs1 = S1.residual(cls, S1.cache(True, True))
            if probs1:
                ck.fail("R-C03-8", "%s:sequential:rhs-weight" % cls, st, "%s: %s" % (key1, probs1[0]))
            if S1.dom.oob:
                ck.fail("R-C03-8", "%s:sequential:out-of-range" % cls, S1.dom.oob[0][3], "%s: access %s[%s] of length %s" % ((key1,) + S1.dom.oob[0][:3]))
            d = tab_ops.diff_tables(A1, Apar)
            if d:
                i, c, a, b = d[0]
                ck.violation("R-C03-8", "%s:sequential-vs-parallel" % cls, ir.locstr(prog.fn(cls + "::computeResidual")),
                             "%s: row %s (r,theta=%s) column %s: the single-thread path has %s, the parallel path has %s" % (key1, i, S.rt(i), c, a, b))
            else:
                ck.ok("R-C03-8", key1, sample={"operator": cls, "shape": sk, "regions on the sequential path": len(regs1)})
        # ---- R-C03-1
        ck.instance("R-C03-1", sk)
        d = tab_ops.diff_tables(Ag, At)
        if d:
            i, c, a, b = d[0]
            ck.violation("R-C03-1", "give-vs-take", site_t, "%s: row %s (r,theta=%s) column %s (r,theta=%s): give has %s, take has %s" % (sk, i, S.rt(i), c, S.rt(c) if c is not None else None, a, b))
        else:
            ck.ok("R-C03-1", sk, sample={"shape": sk, "rows": len(Ag), "entries": sum(len(r) for r in Ag.values())})
        # ---- R-C03-3
        for fl in ((True, False), (False, True), (False, False)):
            ck.instance("R-C03-3", "%s caches=%s" % (sk, fl))
            d = tab_ops.diff_tables(Ag, tables[fl])
            if d:
                i, c, a, b = d[0]
                ck.violation("R-C03-3", "give:cache-%s-%s" % fl, "include/Level/level.h", "%s: with cacheDensityProfileCoefficients=%s cacheDomainGeometry=%s row %s (r,theta=%s) column %s differs from the fully cached operator: %s vs %s" % (
                    sk, fl[0], fl[1], i, S.rt(i), c, b, a))
            else:
                ck.ok("R-C03-3", sk)
        # ---- R-C03-2
        ck.instance("R-C03-2", sk)
        bad = []
        for i, row in Ag.items():
            r, t = S.rt(i)
            if S.dirichlet(i):
                if set(row) != {i} or not dag.equal(row[i], dag.ONE):
                    bad.append("Dirichlet row (%d,%d) is %s, expected the identity" % (r, t, {k: dag.show(v, 40) for k, v in row.items()}))
            elif r == 0:
                anti = S.index(0, t + nt // 2)
                want = {S.index(0, t), anti, S.index(0, t - 1), S.index(0, t + 1), S.index(1, t), S.index(1, t - 1), S.index(1, t + 1)}
                if set(row) != want:
                    bad.append("across-origin row (0,%d) has columns %s, expected the 7-point pattern %s" % (t, sorted(row), sorted(want)))
            else:
                want = {S.index(r + a, t + b) for a in (-1, 0, 1) for b in (-1, 0, 1)}
                if nt >= 3 and set(row) != want:
                    bad.append("row (%d,%d) has %d columns %s, expected the 9-point pattern" % (r, t, len(row), sorted(row)))
            if bad:
                break
        if bad:
            ck.violation("R-C03-2", "row-structure", site_g, "%s: %s" % (sk, bad[0]))
        else:
            ck.ok("R-C03-2", sk)
        # ---- R-C03-5
        ck.instance("R-C03-5", sk)
        bad = None
        g = S.grid
        fh, fk = g.f["radial_spacings_"].get(), g.f["angular_spacings_"].get()
        c = S.cache(True, True)
        beta, det = c.f["coeff_beta_"].get(), c.f["detDF_"].get()
        for i, row in Ag.items():
            if S.dirichlet(i):
                continue
            r, t = S.rt(i)
            if r == 0:
                continue  # the artificial 7-point closure across the origin drops two mixed terms by design: no row-sum identity
            h1 = fh.gen(r - 1) if r > 0 else dag.const(2) * g.f["radii_"].get().gen(0)
            h2 = fh.gen(r)
            k1, k2 = fk.gen((t - 1) % nt), fk.gen(t)
            mass = dag.const(1) / 4 * (h1 + h2) * (k1 + k2) * beta.sym[r] * dag.func("fabs", det.sym[i])
            s = dag.total(row.values())
            if not dag.equal(s, mass):
                bad = (r, t, dag.show(dag.sub(s, mass), 150))
                break
        if bad:
            ck.violation("R-C03-5", "row-sum", site_g, "%s: row (%d,%d): sum of the entries minus the mass term 0.25(h1+h2)(k1+k2) beta |detDF| is %s (a constant function is not mapped to beta*u)" % ((sk,) + bad))
        else:
            ck.ok("R-C03-5", sk)
        # ---- R-C03-6 rhs scaling
        ck.instance("R-C03-6", sk)
        from gmg.symdom import SArr
        from gmg.dag import Lin
        fn_d = prog.fn("GMGPolar::discretize_rhs_f")
        ck.analysed(fn_d)
        facs = {}
        bad = None
        for fl in ((True, True), (False, False), (True, False)):
            lvl = symdom.make_level(0, g, S.cache(*fl))
            gm = tab_ops.make_gmgpolar(S, [lvl])
            v = SArr("rhs_f", S.N, gen=lambda j: Lin.var(("f", j)))
            S.it.call_function(fn_d, gm, [Cell(lvl), Cell(v)])
            w = {}
            for i in range(S.N):
                val = v.sym.get(i)
                if val is None:
                    w[i] = dag.ONE  # untouched
                elif isinstance(val, Lin) and set(val.t) == {("f", i)}:
                    w[i] = val.t[("f", i)]
                else:
                    bad = "rhs_f[%d] becomes %s" % (i, val)
            facs[fl] = w
        if not bad:
            w0 = facs[(True, True)]
            for fl, w in facs.items():
                for i in range(S.N):
                    if not dag.equal(w[i], w0[i]):
                        bad = "node %s: scaling with caches %s is %s, fully cached %s" % (S.rt(i), fl, dag.show(w[i], 80), dag.show(w0[i], 80))
                        break
            for i, row in Ag.items():
                r, t = S.rt(i)
                if S.dirichlet(i):
                    if not dag.equal(w0[i], dag.ONE):
                        bad = "Dirichlet node %s: boundary data is scaled by %s" % (S.rt(i), dag.show(w0[i], 60))
                elif r >= 1:
                    if not dag.equal(dag.mul(w0[i], beta.sym[r]), dag.total(row.values())):
                        bad = "node %s: rhs factor * beta = %s but the operator's row sum is %s" % (S.rt(i), dag.show(dag.mul(w0[i], beta.sym[r]), 100), dag.show(dag.total(row.values()), 100))
                if bad:
                    break
        if bad:
            ck.violation("R-C03-6", "discretize_rhs_f", ir.locstr(fn_d), "%s: %s" % (sk, bad))
        else:
            ck.ok("R-C03-6", sk)
        # ---- R-C03-7 rhs build
        ck.instance("R-C03-7", sk)
        fn_b = prog.fn("GMGPolar::build_rhs_f")
        ck.analysed(fn_b)
        lvl = symdom.make_level(0, g, S.cache(True, True))
        gm = tab_ops.make_gmgpolar(S, [lvl])
        v = SArr("rhs_f", S.N)
        S.it.call_function(fn_b, gm, [Cell(lvl), Cell(v)])
        bad = None
        rr, aa = g.f["radii_"].get(), g.f["angles_"].get()
        for i in range(S.N):
            r, t = S.rt(i)
            args = (rr.gen(r), aa.gen(t), dag.func("sin", aa.gen(t)), dag.func("cos", aa.gen(t)))
            if r == nr - 1:
                want = dag.func("boundary.u_D", *args)
            elif r == 0 and dirbc:
                want = dag.func("boundary.u_D_Interior", *args)
            else:
                want = dag.func("source.rhs_f", *args)
            got = v.sym.get(i)
            if got is None or not dag.equal(dag.lift(got), want):
                bad = "node %s receives %s, expected %s" % (S.rt(i), dag.show(dag.lift(got), 80) if got is not None else None, dag.show(want, 80))
                break
        if not bad and len(v.writes) != S.N:
            bad = "%d writes for %d nodes" % (len(v.writes), S.N)
        if bad:
            ck.violation("R-C03-7", "build_rhs_f", ir.locstr(fn_b), "%s: %s" % (sk, bad))
        else:
            ck.ok("R-C03-7", sk)
        # ---- R-C03-4 coarse caches
        if (nr - 1) % 2 == 0 and nt % 2 == 0:
          # the coarse grid's circle/radial split is chosen independently of the finer grid's (automatic on the coarse grid,
          # possibly explicit on the finest): every pairing is admissible, in particular a coarse radial part that begins
          # inside the finer grid's circle part (2 nsc_coarse < nsc_fine) and the reverse
          cnr = (nr + 1) // 2
          for nsc_c in sorted(set(min(v, cnr) for v in (2, (nsc + 1) // 2, cnr))):
            cg_grid = symdom.coarse_of(g, nsc_c)
            for cc, cgf in itertools.product((True, False), (True, False)):
                key = "%s coarse nsc=%d caches=(%s,%s)" % (sk, nsc_c, cc, cgf)
                ck.instance("R-C03-4", key)
                lvl = symdom.make_level(0, g, S.cache(cc, cgf))
                coarse = opsdom.coarse_cache(prog, S.dom, lvl, cg_grid)
                fresh = opsdom.finest_cache(prog, S.dom, cg_grid, S.geom, S.coef, cc, cgf)
                probs = tab_ops.compare_caches(coarse, fresh)
                if probs:
                    nm = probs[0].split("[")[0].split(" ")[0]
                    ck.violation("R-C03-4", "coarse-cache:%s" % nm, "src/Level/levelCache.cpp", "%s: %s" % (key, probs[0]))
                else:
                    ck.ok("R-C03-4", key)
        # out-of-range accesses met while interpreting the rhs functions and the cache constructors of this shape
        if S.dom.oob[n_oob_ops:]:
            o = S.dom.oob[n_oob_ops]
            ck.fail("R-C03-7", "out-of-range:%s" % o[0], o[3], "%s: access %s[%s] of length %s in the rhs / cache functions" % ((sk,) + tuple(o[:3])))
    ck.extra["identity_tests"] = dag.N_TESTS[0]
    return ck.finish(
        "The residual operator in both strategies and the LevelCache constructors are interpreted from /repo's source with integers "
        "concrete and every floating-point value an exact rational-function DAG over grid spacings, coordinates and uninterpreted "
        "applications of the geometry/coefficient functions. On each representative grid (both boundary modes, circle/radial splits "
        "incl. all-circle and all-radial, odd/even sizes) the extracted matrices are compared entry by entry: give == take, all four "
        "cache-flag combinations agree, Dirichlet rows are the identity, across-origin rows are the documented 7-point stencil with "
        "the antipodal column, row sums equal the mass term, and a coarse cache equals a fresh evaluation at the coarse nodes.",
        trusted_base=["clang 14 front end", "gmgir lowering", "own IR interpreter", "identity testing by exact rational evaluation of the extracted DAGs at 4 pseudo-random points (error < 1e-17; non-zero = definite witness)"],
        assumptions=["geometry/coefficient functions are uninterpreted: agreement must hold for every geometry", "rounding-level agreement of computed vectors is not examined"])


if __name__ == "__main__":
    report.run(main, "C03")
