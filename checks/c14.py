"""C14 — tridiagonal line solvers: factorise-once typestate and post-build immutability
(necessary for 'repeated solves with the same object return identical results'; backward stability not decided).

R-C14-1: in both solve paths every write to the stored matrix (diagonals, corner, gamma_) is dominated by the
         test `!factorized_`, the guarded block sets factorized_ = true on every path through it before leaving,
         and nothing but that block and the constructors/special members writes factorized_.
R-C14-2: the mutable entry accessors are called only by the solver itself and by matrix-build functions that are
         reachable exclusively from smoother constructors — nothing edits L,D after the first solve.
R-C14-3: the substitution phase reads gamma_ / the stored matrix only (no recomputation from the caller's data) and
         DiagonalSolver::solveInPlace is const (cannot change the operator).
R-C14-4: solveInPlace (LDL^T, Sherman-Morrison for the cyclic case) interpreted from source on matrices whose entries are
         independent symbols, n = 2..6 (9), cyclic and not: A x == b holds identically (exact arithmetic, all values with
         non-vanishing pivots) and a second solve returns the identical solution; the work buffers arrive with arbitrary
         contents. Rounding/backward stability: not decided.
R-C14-5: every division denominator of the first solve (logged from the symbolic run) keeps one sign over named SPD sample
         matrices (each verified SPD by its leading minors): a sign change means a zero on the SPD cone, i.e. a breakdown.
"""
from gmg import ir, report, structq
from gmg.interp import ThrowEx
from gmg.structq import exprs_of_stmt, is_this_field, stmts_with_guards, writes_in_expr

CLS = "SymmetricTridiagonalSolver<double>"
SOLVES = ["solveSymmetricTridiagonal", "solveSymmetricCyclicTridiagonal"]
MUT_ACC = ["main_diagonal", "sub_diagonal", "cyclic_corner_element", "is_cyclic"]
STATE_FIELDS = ["gamma_", "cyclic_corner_element_", "main_diagonal_values_", "sub_diagonal_values_", "is_cyclic_", "matrix_dimension_"]
BUILD_ROOT_CLASSES = ("SmootherGive", "SmootherTake", "ExtrapolatedSmootherGive", "ExtrapolatedSmootherTake")


def pointer_aliases(fn):
    """local pointer variables of fn that name a stored-matrix array: `T* const diag = main_diagonal_values_.get();`
    (also `+ offset`, `&field[k]`): decl id -> member name"""
    out = {}

    def base_field(e):
        k = e.get("k")
        if k in ("Paren", "Cast", "ImplicitCast") and e.get("e") is not None:
            return base_field(e["e"])
        if k == "Call" and e.get("callee", "").endswith("::get") and e.get("this") is not None and is_this_field(e["this"]) and e["this"]["field"] in STATE_FIELDS:
            return e["this"]["field"]
        if k == "Bin" and e.get("op") in ("+", "-"):
            return base_field(e["a"])
        if k == "Un" and e.get("op") == "&":
            return matrix_write_target(e["e"])
        if k == "Ref" and e.get("id") in out:
            return out[e["id"]]
        return None

    for n in ir.walk(fn["body"]):
        if n.get("k") == "Decl":
            for v in n.get("vars", []):
                if v.get("init") is not None and "*" in (v.get("t") or ""):
                    f = base_field(v["init"])
                    if f:
                        out[v["id"]] = f
    return out


def matrix_write_target(t, aliases=None):
    """name of the stored-matrix component an assignment target denotes, or None"""
    k = t.get("k")
    if aliases and k == "Index" and t["base"].get("k") == "Ref" and t["base"].get("id") in aliases:
        return aliases[t["base"]["id"]]
    if aliases and k == "Un" and t.get("op") == "*":
        b = t["e"]
        while b.get("k") in ("Paren", "Cast", "ImplicitCast") and b.get("e") is not None:
            b = b["e"]
        if b.get("k") == "Ref" and b.get("id") in aliases:
            return aliases[b["id"]]
        if b.get("k") == "Bin" and b["a"].get("k") == "Ref" and b["a"].get("id") in aliases:
            return aliases[b["a"]["id"]]
    if k == "Call" and t.get("callee", "").startswith(CLS + "::") and t["callee"].split("::")[-1] in MUT_ACC[:3]:
        th = t.get("this")
        if th is not None and th.get("k") == "This":
            return t["callee"].split("::")[-1]
    if k == "Field" and is_this_field(t) and t["field"] in STATE_FIELDS:
        return t["field"]
    if k == "OpCall" and t.get("op") == "[]" and t["args"] and is_this_field(t["args"][0]) and t["args"][0]["field"] in STATE_FIELDS:
        return t["args"][0]["field"]
    return None


def is_not_factorized(cond, pol):
    """guard (cond, polarity) means 'factorized_ is false'"""
    if cond.get("k") == "Un" and cond.get("op") == "!" and is_this_field(cond["e"], "factorized_"):
        return pol is True
    if is_this_field(cond, "factorized_"):
        return pol is False
    return False


class FixedPoint(object):
    """dag.Point with prescribed atom values (everything else as in a pseudo-random point)"""

    def __new__(cls, values, seed="spd"):
        from gmg import dag
        p = dag.Point(seed)
        p.fixed = values
        orig = p.atom_value
        p.atom_value = lambda name, _o=orig, _v=values: _v[name] if name in _v else _o(name)
        return p


def spd_samples(n, cyclic):
    """named SPD matrices of the solver's pattern (exact rationals), verified by leading principal minors"""
    from fractions import Fraction as F
    out = []

    def mk(name, a, b, c):
        A = [[F(0)] * n for _ in range(n)]
        for i in range(n):
            A[i][i] += a[i]
        for i in range(n - 1):
            A[i][i + 1] += b[i]
            A[i + 1][i] += b[i]
        if cyclic:
            A[0][n - 1] += c
            A[n - 1][0] += c
        # leading principal minors by fraction-exact elimination
        M = [row[:] for row in A]
        ok = True
        for k in range(n):
            if M[k][k] <= 0:
                ok = False
                break
            for i in range(k + 1, n):
                f = M[i][k] / M[k][k]
                for j in range(k, n):
                    M[i][j] -= f * M[k][j]
        if ok:
            out.append((name, a, b, c))
    bs = [F((-1) ** i * (i + 1), 7) for i in range(n - 1)]
    for sgn, nm in ((1, "+"), (-1, "-")):
        c = F(sgn, 3) if cyclic else F(0)
        a = [abs(bs[i - 1]) if i > 0 else F(0) for i in range(n)]
        a = [a[i] + (abs(bs[i]) if i < n - 1 else 0) + (abs(c) if i in (0, n - 1) else 0) + 1 for i in range(n)]
        mk("diagonally dominant, corner %s1/3" % nm, a, bs, c)
    if cyclic:
        small = [F(1, 10)] * (n - 1)
        for sgn, nm in ((1, "+"), (-1, "-")):
            mk("corner %s10 exceeding a_0 = 1 (a_n-1 = 400)" % nm, [F(1)] + [F(50)] * (n - 2) + [F(400)] if n > 1 else [F(1)], small if n > 2 else [F(0)] * (n - 1), F(10 * sgn))
            mk("corner %s10 exceeding a_n-1 = 1 (a_0 = 400)" % nm, [F(400)] + [F(50)] * (n - 2) + [F(1)], small if n > 2 else [F(0)] * (n - 1), F(10 * sgn))
            mk("corner %s1 equal scale, zero sub-diagonals" % nm, [F(2)] * n, [F(0)] * (n - 1), F(sgn))
            mk("corner %s3/2 with a_0 = 1, a_n-1 = 3, zero sub-diagonals" % nm, [F(1)] + [F(5)] * (n - 2) + [F(3)], [F(0)] * (n - 1), F(3 * sgn, 2))
    scaled = [F(10) ** (2 * i - n) for i in range(n)]
    mk("rows scaled 1e-n..1e+n", scaled, [F(1, 4) * min(scaled[i], scaled[i + 1]) for i in range(n - 1)], F(1, 8) * min(scaled[0], scaled[-1]) if cyclic else F(0))
    return out


def spd_sign_changes(n, cyclic, A, a, b, c, denoms):
    """denominators (in order of occurrence) that take both signs over the SPD samples"""
    from gmg import dag
    samples = spd_samples(n, cyclic)
    if len(samples) < 2:
        raise ir.AnalysisBroken("fewer than two SPD sample matrices for n=%d cyclic=%s" % (n, cyclic))
    signs = {}
    flips = []
    for name, av, bv, cv in samples:
        vals = {"a_%d" % i: av[i] for i in range(n)}
        vals.update({"b_%d" % i: bv[i] for i in range(n - 1)})
        vals["c"] = cv
        pt = FixedPoint(vals)
        for k, d in enumerate(denoms):
            try:
                v = pt.value(d)
            except ZeroDivisionError:
                flips.append((k, (name, 0), (name, 0), d))
                continue
            if v == 0:
                flips.append((k, (name, 1), (name, -1), d))
                continue
            if k in signs and (signs[k][1] > 0) != (v > 0):
                flips.append((k, signs[k], (name, v), d))
            signs.setdefault(k, (name, v))
    flips.sort(key=lambda f: f[0])
    return flips


def make_tri_domain(prog, force=None):
    """OpsDomain + forked value-dependent comparisons (tolerance tests inside the solver)"""
    from gmg import forkdom, opsdom

    class TriDomain(opsdom.OpsDomain, forkdom.ValueTests):
        def abs_binop(self, op, a, b, e, fr):
            r = self.value_test(op, a, b, e)
            if r is not None:
                return r
            return opsdom.OpsDomain.abs_binop(self, op, a, b, e, fr)

        def call(self, e, fr):
            r = self.value_call(e, fr)
            if r is not NotImplemented:
                return r
            return opsdom.OpsDomain.call(self, e, fr)

        def global_var(self, e, fr):
            if e.get("qn") in ("std::cerr", "std::cout", "std::clog"):
                return "console"
            return opsdom.OpsDomain.global_var(self, e, fr)
    d = TriDomain(prog, record=False)
    d.init_value_tests(force)
    return d


def algebraic_solves(ck, prog, tier):
    """interpret solveInPlace from source on a symbolic SPD-shaped matrix (entries are independent atoms) in the exact
    rational-function domain: the returned x must satisfy A x = b identically, and a second solve with the same object must
    return the identical table. Decides algebraic exactness for all values (non-vanishing pivots) for n = 2..N; rounding is not examined."""
    from gmg import dag, opsdom, symdom
    from gmg.dag import Lin
    from gmg.interp import Cell, Interp
    from gmg.symdom import SArr
    ck.rule("R-C14-5", "no division denominator of the solve changes sign over SPD sample matrices (diagonally dominant, corner of either sign exceeding a_0 or a_n-1, zero sub-diagonals, widely scaled rows): no breakdown on SPD input", floor=8)
    ck.rule("R-C14-4", "solveInPlace interpreted on symbolic matrices: A x == b identically (n=2..N, cyclic and not); repeated solve identical; DiagonalSolver likewise", floor=8)
    ns = range(2, 7) if tier == "quick" else range(2, 10)
    solve = prog.fn(CLS + "::solveInPlace")
    ctor = [f for f in prog.fns(CLS + "::SymmetricTridiagonalSolver") if f.get("special") == "ctor"][0]
    # generic symbols, plus the special values the property names and a generic symbol never takes: zero sub-diagonals, a
    # zero corner, both (exact constants, so that `== 0.0` fast paths are really taken)
    variants = [("", False, False)]
    for cyclic in (False, True):
      for (vname, zero_sub, zero_corner) in ([("", False, False), (" zero sub-diagonals", True, False)] + ([(" zero corner", False, True), (" zero corner and sub-diagonals", True, True)] if cyclic else [])):
        for n in (ns if not vname else [k_ for k_ in ns if k_ in (2, 3, 5)]):
            key = "n=%d cyclic=%s%s" % (n, cyclic, vname)
            ck.instance("R-C14-4", key)
            from gmg.conc import PtrInto
            from gmg import forkdom
            a = [dag.atom("a_%d" % i) for i in range(n)]
            b = [dag.ZERO if zero_sub else dag.atom("b_%d" % i) for i in range(n - 1)]
            c = dag.ZERO if zero_corner else dag.atom("c")
            # the matrix as the class documents it: symmetric tridiagonal + corner (0,n-1),(n-1,0) when cyclic
            A = {}
            for i in range(n):
                A[(i, i)] = a[i]
            for i in range(n - 1):
                A[(i, i + 1)] = dag.add(A.get((i, i + 1), dag.ZERO), b[i])
                A[(i + 1, i)] = dag.add(A.get((i + 1, i), dag.ZERO), b[i])
            if cyclic:
                A[(0, n - 1)] = dag.add(A.get((0, n - 1), dag.ZERO), c)
                A[(n - 1, 0)] = dag.add(A.get((n - 1, 0), dag.ZERO), c)

            def run_solves(force):
                """two successive solves with one solver object; returns (problem or None, aborted, value tests met, denominators)"""
                dom = make_tri_domain(prog, force)
                it = Interp(prog, dom)
                o = dom.new_object(CLS, None, None)
                it.call_function(ctor, o, [n])
                o.f["is_cyclic_"].set(cyclic)
                md, sd = o.f["main_diagonal_values_"].get(), o.f["sub_diagonal_values_"].get()
                for i in range(n):
                    md.sym[i] = a[i]
                for i in range(n - 1):
                    sd.sym[i] = b[i]
                if cyclic:
                    o.f["cyclic_corner_element_"].set(c)
                results = []
                bad = None
                denoms = []
                orig_div = dag.div

                def logging_div(a_, b_, _d=denoms, _o=orig_div):
                    _d.append(dag.lift(b_))
                    return _o(a_, b_)
                for rep in range(2):
                    x = SArr("x", n, gen=lambda j: dag.atom("rhs_%d" % j))
                    # work buffers arrive with arbitrary contents (callers reuse them across lines and solvers): a read of an
                    # element the solve has not written itself makes the result depend on these atoms, and A x == b fails
                    t1 = SArr("t1", n, gen=lambda j, rep=rep: dag.atom("stale_work1_%d_%d" % (rep, j)))
                    t2 = SArr("t2", n, gen=lambda j, rep=rep: dag.atom("stale_work2_%d_%d" % (rep, j)))
                    try:
                        if rep == 0:
                            dag.div = logging_div
                        it.call_function(solve, o, [PtrInto(x, 0), PtrInto(t1, 0), PtrInto(t2, 0)])
                    except ir.AnalysisBroken:
                        raise   # a limit of the analysis is not a finding about the code
                    except ZeroDivisionError as e:
                        return "solve #%d: %s (a quantity that is identically zero for this matrix): the result is inf/NaN" % (rep + 1, e), False, dom, denoms
                    except (forkdom.Aborts, ThrowEx) as e:
                        return "the solver rejects the matrix: %s" % (getattr(e, "what", e),), True, dom, denoms
                    finally:
                        dag.div = orig_div
                    sol = [dag.lift(x.sym.get(i, dag.atom("rhs_%d" % i))) for i in range(n)]
                    results.append(sol)
                    if dom.oob:
                        return "solve #%d: out-of-range access %s[%s] (length %s) at %s" % ((rep + 1,) + tuple(dom.oob[0])), False, dom, denoms
                    try:
                        for i in range(n):
                            lhs = dag.total(dag.mul(A[(i, j)], sol[j]) for j in range(n) if (i, j) in A)
                            if not dag.equal(lhs, dag.atom("rhs_%d" % i)):
                                return "solve #%d: row %d of A x - b does not vanish (A = tridiag(a,b)%s)" % (rep + 1, i, " + corner c" if cyclic else ""), False, dom, denoms
                    except ZeroDivisionError:
                        return "solve #%d divides by a quantity that is identically zero for this matrix: the result is inf/NaN" % (rep + 1), False, dom, denoms
                try:
                    if any(not dag.equal(p_, q_) for p_, q_ in zip(results[0], results[1])):
                        return "the second solve with the same object returns a different solution", False, dom, denoms
                except ZeroDivisionError:
                    return "a solve divides by a quantity that is identically zero for this matrix: the result is inf/NaN", False, dom, denoms
                return None, False, dom, denoms
            bad, aborted, dom0, denoms = run_solves(None)
            if aborted:
                bad = "with generic (non-vanishing) symbols " + bad
            if not bad:
                # value-dependent tests inside the solver (a tolerance on an entry): flipped one at a time; a flipped run may
                # reject the matrix, but if it carries on the solution must still be exact
                for kf in range(dom0.n_value_tests):
                    bad2, aborted2, d2, _ = run_solves(kf)
                    if bad2 and not aborted2:
                        bad = "when the value test at %s takes its other outcome the solve carries on and: %s" % (d2.flipped_site, bad2)
                        break
            if not bad and not vname:
                # ---- R-C14-5: no denominator of the first solve (factorisation + substitution) changes sign over SPD inputs
                ck.instance("R-C14-5", key)
                flips = spd_sign_changes(n, cyclic, A, a, b, c, denoms)
                if flips:
                    k_, (nm1, v1), (nm2, v2), expr = flips[0]
                    ck.violation("R-C14-5", "solve:%s:denominator" % ("cyclic" if cyclic else "tridiagonal"), ir.locstr(solve),
                                 "%s: division #%d of the solve has the denominator %s, which is %s on the SPD matrix '%s' and %s on the SPD matrix '%s': it vanishes on some SPD matrix in between, where the solve breaks down" % (
                                     key, k_ + 1, dag.show(expr, 80), "positive" if v1 > 0 else "negative", nm1, "positive" if v2 > 0 else "negative", nm2))
                else:
                    ck.ok("R-C14-5", key, sample={"n": n, "cyclic": cyclic, "denominators": len(denoms)} if n == 3 else None)
            if bad:
                ck.violation("R-C14-4", "solve:%s" % ("cyclic" if cyclic else "tridiagonal"), ir.locstr(solve), "%s: %s" % (key, bad))
            else:
                ck.ok("R-C14-4", key, sample={"n": n, "cyclic": cyclic, "checked": "A x == b for symbolic a_i, b_i%s; two successive solves" % (", c" if cyclic else "")} if n == 3 else None)
    # DiagonalSolver
    dcls = "DiagonalSolver<double>"
    dsolve = prog.fn(dcls + "::solveInPlace")
    dctor = [f for f in prog.fns(dcls + "::DiagonalSolver") if f.get("special") == "ctor"][0]
    for n in (1, 3, 5):
        key = "diagonal n=%d" % n
        ck.instance("R-C14-4", key)
        dom = opsdom.OpsDomain(prog, record=False)
        it = Interp(prog, dom)
        o = dom.new_object(dcls, None, None)
        it.call_function(dctor, o, [n])
        dv = o.f["diagonal_values_"].get()
        for i in range(n):
            dv.sym[i] = dag.atom("d_%d" % i)
        x = SArr("x", n, gen=lambda j: dag.atom("rhs_%d" % j))
        from gmg.conc import PtrInto
        it.call_function(dsolve, o, [PtrInto(x, 0)])
        ok = all(dag.equal(dag.mul(dag.atom("d_%d" % i), dag.lift(x.sym[i])), dag.atom("rhs_%d" % i)) for i in range(n))
        if ok:
            ck.ok("R-C14-4", key)
        else:
            ck.violation("R-C14-4", "solve:diagonal", ir.locstr(dsolve), "%s: D x != b" % key)


def main(tier):
    ck = report.Check("C14", tier, level="other", technique="static typestate/dominance rule on the factorisation flag; who-may-call over the whole-program call graph; symbolic interpretation of the solves with sign analysis of the extracted denominators at SPD sample matrices")
    ck.rule("R-C14-1", "stored-matrix writes dominated by !factorized_; guarded block ends with factorized_=true on every path", floor=9)
    ck.rule("R-C14-2", "mutable accessors called only from the solver and from build functions reachable only from smoother constructors", floor=20)
    ck.rule("R-C14-3", "factorized_ written only by the guarded block and constructors/special members; DiagonalSolver::solveInPlace is const", floor=3)
    prog = ir.load()
    ck.units += prog.units
    cls = prog.cls(CLS)
    if "factorized_" not in [f["name"] for f in cls["fields"]]:
        raise ir.AnalysisBroken("anchor vanished: %s::factorized_" % CLS)
    # ---------------- R-C14-1
    import copy as _copy

    def expanded(fn, depth=0, seen=()):
        """the function body with calls of helpers of the same class (statement-level calls on *this of non-accessor methods
        that are defined in the program) replaced by the helper's own body: the typestate rule then sees a factorisation that
        was moved into a private helper exactly where it is called.  A `return` of the helper ends the helper, not the
        caller's block."""
        body = _copy.deepcopy(fn["body"])

        def rewrite(st):
            k = st.get("k")
            if k == "Block":
                st["s"] = [rewrite(x) for x in st["s"]]
                return st
            for key_ in ("t", "e", "body"):
                if isinstance(st.get(key_), dict) and st[key_].get("k") in ("Block", "If", "For", "While", "Expr", "Omp", "DoWhile"):
                    st[key_] = rewrite(st[key_])
            if k == "Expr" and st["e"].get("k") == "Call" and depth < 3:
                c = st["e"]
                q = c.get("callee") or ""
                th = c.get("this")
                if q.startswith(CLS + "::") and q.split("::")[-1] not in MUT_ACC and q not in seen and th is not None and th.get("k") == "This":
                    cands = [f for f in prog.fns(q) if len(f["params"]) == len(c["args"]) and f.get("body") is not None]
                    if len(cands) == 1:
                        inner = expanded(cands[0], depth + 1, seen + (q,))
                        for n_ in ir.walk(inner):
                            if n_.get("k") == "Return":
                                n_.clear()
                                n_["k"] = "Null"
                        return inner
            return st
        return rewrite(body)

    for name in SOLVES:
        fn0 = prog.fn(CLS + "::" + name)
        ck.analysed(fn0)
        fn = dict(fn0)
        fn["body"] = expanded(fn0)
        guarded_ifs = {}
        n_writes = 0
        aliases = pointer_aliases(fn)
        for s, guards in stmts_with_guards(fn["body"]):
            for e in exprs_of_stmt(s):
                for tgt, node in writes_in_expr(e):
                    comp = matrix_write_target(tgt, aliases)
                    if comp is None:
                        continue
                    n_writes += 1
                    key = "%s:%s" % (name, comp)
                    ck.instance("R-C14-1", key + "@%d" % n_writes)
                    g = [gd for gd in guards if is_not_factorized(gd[0], gd[1])]
                    if not g:
                        ck.violation("R-C14-1", key + ":unguarded", ir.locstr(node),
                                     "%s modifies the stored %s outside the `!factorized_` block: a second solve with the same object would re-apply it" % (name, comp))
                    else:
                        guarded_ifs[id(g[0][2])] = g[0][2]
                        ck.ok("R-C14-1", key)
        if n_writes == 0:
            raise ir.AnalysisBroken("%s: no stored-matrix write found (in-place factorisation vanished?)" % name)
        for ifn in guarded_ifs.values():
            key = "%s:flag-set" % name
            ck.instance("R-C14-1", key)
            blk = ifn["t"]

            def flat(b):
                out = []
                for x in (b["s"] if b["k"] == "Block" else [b]):
                    out += flat(x) if x.get("k") == "Block" else [x]
                return out
            stm = flat(blk)      # nested blocks (an inlined helper) are part of the same straight-line sequence
            # no early exit inside the block; last top-level statement sets factorized_ = true
            early = [n for n in ir.walk(blk) if n.get("k") in ("Return", "Throw", "Goto")]
            top_break = [n for n in stm if n.get("k") in ("Break", "Continue")]
            sets = []
            for i, s in enumerate(stm):
                if s.get("k") == "Expr" and s["e"].get("k") == "Assign" and is_this_field(s["e"]["a"], "factorized_") and s["e"]["b"].get("k") == "Bool" and s["e"]["b"]["v"] is True:
                    sets.append(i)
            if early or top_break:
                ck.violation("R-C14-1", key + ":early-exit", ir.locstr((early + top_break)[0]), "%s: the factorisation block can be left before factorized_ is set" % name)
            elif not sets:
                ck.violation("R-C14-1", key + ":missing", ir.locstr(ifn), "%s factorises in place but never sets factorized_ = true: every later solve factorises the factors again" % name)
            else:
                # nothing after the flag that writes the matrix
                after = stm[sets[-1] + 1:]
                later = [1 for s in after for e in exprs_of_stmt(s) for tgt, _ in writes_in_expr(e) if matrix_write_target(tgt, aliases)]
                if later:
                    ck.violation("R-C14-1", key + ":write-after-flag", ir.locstr(ifn), "%s writes the stored matrix after setting factorized_" % name)
                else:
                    ck.ok("R-C14-1", key, sample={"function": name, "guard": ir.show(ifn["c"]), "block statements": len(stm)})
    # ---------------- R-C14-3 : who writes factorized_
    writers = 0
    cg0 = structq.CallGraph(prog)

    def only_from_solves(qn, depth=0, seen=()):
        """a helper that only the two solve functions call (a factorisation moved into a private function): R-C14-1 examines
        its body at the place of the call"""
        callers = cg0.callers.get(qn, set())
        if not callers or depth > 3:
            return False
        for c in callers:
            if c in seen:
                continue
            if c.startswith(CLS + "::") and c.split("::")[-1] in SOLVES:
                continue
            if c.startswith(CLS + "::") and only_from_solves(c, depth + 1, seen + (qn,)):
                continue
            return False
        return True

    def only_from_special_members(qn, depth=0, seen=()):
        """a helper of the class that every call chain reaches from constructors / copy / move members only (e.g. a private
        copyFrom shared by copy constructor and copy assignment) transfers the flag together with the factors it describes"""
        callers = cg0.callers.get(qn, set())
        if not callers or depth > 4:
            return False
        for c in callers:
            if c in seen:
                continue
            fl = prog.functions.get(c, [])
            if c.startswith(CLS + "::") and fl and all(f.get("special") for f in fl):
                continue
            if c.startswith(CLS + "::") and only_from_special_members(c, depth + 1, seen + (qn,)):
                continue
            return False
        return True
    for qn, fns in prog.functions.items():
        if not qn.startswith(CLS + "::"):
            continue
        for fn in fns:
            for s, guards in stmts_with_guards(fn["body"]):
                for e in exprs_of_stmt(s):
                    for tgt, node in writes_in_expr(e):
                        if is_this_field(tgt, "factorized_"):
                            writers += 1
                            short = qn.split("::")[-1]
                            ck.instance("R-C14-3", "%s:factorized_" % short)
                            if fn.get("special") or short in SOLVES or only_from_special_members(qn) or only_from_solves(qn):
                                ck.ok("R-C14-3", short)
                            else:
                                ck.violation("R-C14-3", "%s:writes-flag" % short, ir.locstr(node), "%s writes factorized_ outside the factorisation block / constructors" % qn)
    ds = [f for f in prog.fns("DiagonalSolver<double>::solveInPlace")]
    ck.instance("R-C14-3", "DiagonalSolver::solveInPlace const")
    if ds and all(f.get("constm") for f in ds):
        ck.ok("R-C14-3", "DiagonalSolver")
    else:
        ck.violation("R-C14-3", "DiagonalSolver:solveInPlace-nonconst", "include/LinearAlgebra/diagonalSolver.h", "DiagonalSolver::solveInPlace is no longer const: a solve may change the operator")
    # ---------------- R-C14-2 : who may call the mutable accessors
    cg = structq.CallGraph(prog)
    ctor_roots = set()
    for c in BUILD_ROOT_CLASSES:
        ctor_roots.add("%s::%s" % (c, c))
    for acc in MUT_ACC:
        qn = "%s::%s" % (CLS, acc)
        if qn not in prog.functions:
            raise ir.AnalysisBroken("anchor vanished: %s" % qn)
        for caller in sorted(cg.callers.get(qn, ())):
            key = "%s<-%s" % (acc, caller)
            ck.instance("R-C14-2", key)
            if caller.startswith(CLS + "::") or caller.startswith("operator<<"):
                ck.ok("R-C14-2", key)
                continue
            # does the caller EDIT through the non-const overload?  (const overloads cannot edit; a non-const call whose
            # result is only read - printed, compared, copied into a double - leaves the matrix alone and is not reported)
            uses_mut = False
            for f in prog.fns(caller):
                mut_calls = [c for c in structq.calls_in(f) if structq.callee_of(c) == qn and not c.get("constm", False)]
                if not mut_calls:
                    continue
                ids = set(id(c) for c in mut_calls)
                strip = lambda t: strip(t["e"]) if t.get("k") in ("Paren", "Cast", "ImplicitCast") and t.get("e") else t
                for tgt, node in writes_in_expr(f["body"]):
                    if id(strip(tgt)) in ids:
                        uses_mut = True
                for n_ in ir.walk(f["body"]):
                    # a mutable alias (reference/pointer bound to the accessor's result) or the result handed to a callee
                    if n_.get("k") == "Decl":
                        for v in n_["vars"]:
                            if v.get("init") is not None and id(strip(v["init"])) in ids and v["t"].rstrip().endswith("&") and not v["t"].strip().startswith("const"):
                                uses_mut = True
                    if n_.get("k") == "Un" and n_.get("op") == "&" and id(strip(n_["e"])) in ids:
                        uses_mut = True
                    if n_.get("k") in ("Call", "Construct") and id(n_) not in ids:
                        cal = prog.fns(structq.callee_of(n_))
                        for i_, a in enumerate(n_.get("args", [])):
                            if id(strip(a)) in ids:
                                pt = cal[0]["params"][i_]["t"] if len(cal) == 1 and i_ < len(cal[0]["params"]) else "?"
                                if pt == "?" or (pt.rstrip().endswith("&") and not pt.strip().startswith("const")) or pt.rstrip().endswith("*"):
                                    uses_mut = True
            if not uses_mut:
                ck.ok("R-C14-2", key)
                continue
            anc = cg.ancestors(caller)
            roots = [a for a in anc | {caller} if not cg.callers.get(a)]
            bad_roots = [r for r in roots if r not in ctor_roots]
            if bad_roots:
                ck.violation("R-C14-2", "%s:%s" % (acc, caller), cg.sites.get((caller, qn), ["?"])[0],
                             "%s calls the mutable accessor %s() and is reachable from %s, which is not a smoother constructor: the matrix can be edited after it was factorised" % (caller, acc, ", ".join(bad_roots[:4])))
            else:
                ck.ok("R-C14-2", key, sample={"accessor": acc, "caller": caller, "reachable only from": sorted(roots)} if acc == "main_diagonal" else None)
    # ---------------- R-C14-4: exact-arithmetic correctness of the solves on symbolic matrices (small n)
    algebraic_solves(ck, prog, tier)
    return ck.finish(
        "Structural typestate rule: the line solver has two states (holds A / holds L,D) distinguished by factorized_. In both "
        "solve paths every write of stored matrix data must lie inside the `!factorized_` block, which must set the flag before it "
        "can be left; nothing else may write the flag; the mutable accessors may only be reached from build code that runs in "
        "smoother constructors (whole-program call graph over the 80 library units). Together: after the first solve the object is "
        "immutable, so repeated solves see the same factors. Backward stability of LDL^T/Sherman-Morrison is numerical and not decided.",
        trusted_base=["clang 14 front end", "gmgir lowering", "call graph: direct calls + overriders of virtual methods"],
        assumptions=["task-based smoother variants are private and uncalled (reported by C11)"])


if __name__ == "__main__":
    report.run(main, "C14")
