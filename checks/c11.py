"""C11 — no data race in any parallel region, for any thread count or schedule (EFF, DESIGN 3.3).

R-C11-1: in every OpenMP region reachable from the public API, interpreted from source on a family of grid shapes, no two
         accesses to the same array element (or solver object) with at least one write come from different units of work
         (iterations of worksharing loops, or replicated code) of the same barrier group.  Iterations are treated as mutually
         unordered, so the verdict holds for every thread count >= 2 and every schedule.
R-C11-2: every scalar that lives outside a region and is written inside it is written by one unit only or named in a
         reduction clause; scratch vectors of line solves are allocated inside the region.
R-C11-3: coverage: every parallel region of the library is either interpreted, or lies in a function no code calls
         (listed), or is outside the model (-> analysis broken, never a pass).
"""
import itertools

from gmg import eff_runs, ir, opsdom, report, structq, tab_smoother

UNREACHABLE_OK = {
    # function -> reason (verified on every run: no caller in the whole-program call graph)
    "CulhamGeometry::my_sum": "helper with a parallel reduction that no function calls",
}


def shapes(tier):
    if tier == "quick":
        # nsc mod 2,3,4 ; ntheta mod 3,4 ; minimal sizes
        return [(7, 8, 3, False), (9, 8, 4, True), (7, 12, 2, False), (11, 16, 5, False), (9, 4, 6, True), (5, 4, 2, False), (7, 20, 3, True)]
    out = []
    for nr in (5, 7, 9, 11, 13):
        for nt in (4, 8, 12, 16, 20, 24):
            for nsc in range(2, nr - 2):
                out.append((nr, nt, nsc, (nr + nt + nsc) % 2 == 0))
    return out


def main(tier):
    ck = report.Check("C11", tier, level="other", technique="static effect analysis: index-skeleton interpretation of every parallel region with OpenMP happens-before (barrier groups, nowait), all iteration pairs unordered")
    ck.rule("R-C11-1", "no definite race (same element, >=1 write, same barrier group, different units of work)", floor=100)
    ck.rule("R-C11-2", "shared scalars written in a region: single writer or reduction clause", floor=20)
    ck.rule("R-C11-3", "every parallel region of the library is interpreted or provably unreachable", floor=20)
    prog = eff_runs.load()
    ck.units += prog.units
    seen_fns = {}
    n_regions = 0
    visited = {}
    for i_shp, shp in enumerate(shapes(tier)):
        nr, nt, nsc, dirbc = shp
        sk = "nr=%d ntheta=%d nsc=%d DirBC=%s" % shp
        # the give operators under the other cache-flag combinations: both caches off on every shape; the two mixed
        # combinations on every fourth shape of the thorough family (they select between code the other two already run)
        gf = ((False, False),) if (tier == "quick" or i_shp % 4) else ((False, False), (True, False), (False, True))
        regs, notes, S = eff_runs.run_shape(prog, nr, nt, nsc, dirbc, give_flags=gf)
        for kind, o in notes:
            if kind == "oob":
                ck.fail("R-C11-1", "out-of-range:%s" % o[0][0], o[0][3], "%s: access %s[%s] beyond length %s" % ((sk,) + o[0][:3]))
        visited.update(getattr(S.dom, "visited", {}))
        if S.dom.unknown_omp:
            raise ir.AnalysisBroken("OpenMP construct outside the model: %r" % (S.dom.unknown_omp[0],))
        for label, r in regs:
            n_regions += 1
            seen_fns.setdefault(r.fn, set()).add(r.site)
            key = "%s @%s %s" % (label, r.site, sk)
            ck.instance("R-C11-1", key, nontrivial=(r.site not in seen_fns.get("__done__", set())))
            rc = opsdom.races(r)
            if rc:
                c = rc[0]
                ck.violation("R-C11-1", "%s:%s" % (r.fn.split("(")[0], c["array"].split("#")[0]), r.site,
                             "%s: %s element %s is %s at %s (unit %s) and %s at %s (unit %s) in the same barrier group %s of the region at %s: no barrier orders them" % (
                                 sk, c["array"], c["index"], "written" if c["a"]["write"] else "read", c["a"]["site"], c["a"]["unit"],
                                 "written" if c["b"]["write"] else "read", c["b"]["site"], c["b"]["unit"], c["group"], r.site), detail=rc)
            else:
                ck.ok("R-C11-1", key, sample={"region": r.site, "function": r.fn, "shape": sk, "effects": len(r.effects), "worksharing loops": len(r.loops)} if n_regions % 37 == 1 else None)
            # shared scalars
            ck.instance("R-C11-2", key, nontrivial=bool(r.shared_writes))
            by = {}
            for name, site, group, cur in r.shared_writes:
                by.setdefault((name, group), set()).add((cur, site))
            bad = None
            for (name, group), ws in by.items():
                units = set(u for u, s in ws)
                base = name.split("#")[0]
                if base in r.reductions or any(base == red.split(".")[-1] for red in r.reductions):
                    continue
                if None in units or len(units) > 1:
                    bad = (name.split("#")[0], sorted(s for u, s in ws)[0], len(units))
                    break
            if bad:
                ck.violation("R-C11-2", "%s:%s" % (r.fn.split("(")[0], bad[0]), bad[1],
                             "%s: the variable `%s` lives outside the parallel region at %s and is written by %d units of work without a reduction clause" % (sk, bad[0], r.site, bad[2]))
            else:
                ck.ok("R-C11-2", key)
    # vector kernels, Vector copies, driver-level loops (interpreted on the whole-library program)
    whole = ir.load()
    kregs, found = eff_runs.run_kernels(whole)
    kregs += eff_runs.run_driver_loops(whole)
    for label, r in kregs:
        seen_fns.setdefault(r.fn, set()).add(r.site)
        key = "%s @%s" % (label, r.site)
        ck.instance("R-C11-1", key)
        rc = opsdom.races(r)
        if rc:
            ck.violation("R-C11-1", "%s:%s" % (label, rc[0]["array"]), r.site, "vector kernel %s: element %s of %s accessed by two iterations" % (label, rc[0]["index"], rc[0]["array"]))
        else:
            ck.ok("R-C11-1", key)
        ck.instance("R-C11-2", key)
        by = {}
        for name, site, group, cur in r.shared_writes:
            by.setdefault(name, set()).add(cur)
        bad = [n.split("#")[0] for n, us in by.items() if (len(us) > 1 or None in us) and n.split("#")[0] not in r.reductions]
        if bad:
            ck.violation("R-C11-2", "%s:%s" % (label, bad[0]), r.site, "vector kernel %s accumulates into `%s` from several iterations without a reduction clause" % (label, bad[0]))
        else:
            ck.ok("R-C11-2", key, sample={"kernel": label, "reductions": r.reductions})
    # ---------------- predicate census: the cut-off premise of the shape family
    ck.rule("R-C11-4", "predicate census: comparisons in the interpreted code use literals 0..8 / the 10 000 threshold, moduli 2,3,4 (cut-off premise of the shape family)", floor=1)
    n_atoms, bad_atoms = eff_runs.predicate_census(visited)
    ck.instance("R-C11-4", "census over %d interpreted functions, %d literal atoms" % (len(visited), n_atoms))
    if bad_atoms:
        a = bad_atoms[0]
        ck.broke("cut-off premise violated: the condition `%s` in %s (%s) compares with a literal outside the census; the shape family no longer covers every case" % a)
    else:
        ck.ok("R-C11-4", "census", sample={"functions": len(visited), "literal atoms": n_atoms})
    ck.extra["interpreted_functions"] = len(visited)
    for qn, f in visited.items():
        if not qn.startswith(("std::", "__gnu")):
            ck.analysed(f)
    # ---------------- coverage census over the whole library
    cg = structq.CallGraph(whole)
    total = 0
    for qn, fns in whole.functions.items():
        for f in fns:
            sites = [ir.locstr(n) for n in ir.walk(f["body"]) if n.get("k") == "Omp" and n.get("dir", "").startswith("parallel")]
            tasks = [n.get("dir") for n in ir.walk(f["body"]) if n.get("k") == "Omp" and n.get("dir") in ("task", "taskloop", "taskwait", "taskgroup", "sections", "section")]
            if not sites and not tasks:
                continue
            total += 1
            key = "region coverage %s" % qn
            ck.instance("R-C11-3", key, nontrivial=True)
            covered = qn in seen_fns or qn.split("<")[0] in [k.split("<")[0] for k in seen_fns]
            callers = cg.callers.get(qn, set())
            if covered and not tasks:
                ck.ok("R-C11-3", key)
            elif not callers and (qn in UNREACHABLE_OK or "TaskLoop" in qn or "TaskDependencies" in qn):
                ck.ok("R-C11-3", key, sample={"function": qn, "status": "unreachable: no caller", "reason": UNREACHABLE_OK.get(qn, "task-based smoother variant, private and never called")})
            elif not callers and (qn.split("::")[-1] in ("main",) or qn.startswith("SparseMatrixCOO<double>::")):
                ck.ok("R-C11-3", key, sample={"function": qn, "status": "unreachable: no caller in this configuration (COO matrices are used with MUMPS only)"})
            else:
                ck.broke("parallel region(s) in %s (%s) are reachable (callers: %s) but were not interpreted by the effect analysis%s" % (
                    qn, ", ".join(sites[:2]), ", ".join(sorted(callers))[:120] or "none/unknown", "; uses OpenMP tasks, outside the model" if tasks else ""))
    ck.extra["regions_interpreted"] = n_regions
    ck.extra["functions_with_regions"] = total
    return ck.finish(
        "Every function with an OpenMP parallel region that the library can reach (residual give/take, smoother and extrapolated "
        "smoother build+sweep give/take, direct-solver assembly give/take, both LevelCache constructors, nine transfer functions, "
        "vector kernels) is interpreted from source on a family of grid shapes with integers concrete and doubles symbolic; every "
        "array element access and solver-object access is logged with its barrier group and unit of work. Two accesses to one "
        "element from different units of the same group with at least one write are a race for every team size >= 2 and every "
        "schedule, because iterations are assumed mutually unordered and nowait merges groups. Line solves use a footprint "
        "summary. A census over all library units makes sure no region is silently skipped.",
        trusted_base=["clang 14 front end (OpenMP directive and clause parsing)", "gmgir lowering", "own IR interpreter", "OpenMP 4.5 barrier semantics as modelled",
                      "line-solver footprint summary", "shape family as a cut-off (predicates on indices compare only with 0,1,2,nsc+-1,nr-1..3, parities and residues mod 3/4)"],
        assumptions=["`if` clauses are taken as true (the serial alternative has no concurrency)", "distinct vector arguments are distinct objects (established for the driver by C10)"],
        exhaustive=False)


if __name__ == "__main__":
    report.run(main, "C11")
