"""C05 — the interior operator is symmetric (positive definiteness is numerical and not decided).

R-C05-1: A[p,q] == A[q,p] for all non-Dirichlet nodes p,q, for the give and the take residual operator.
R-C05-3: every diagonal entry of a non-Dirichlet row is positive at the test points for positive spacings/coefficients,
         also with beta == 0 (the stiffness part alone), for take and for give under all four cache-flag combinations
         (necessary for definiteness; decided on the exact tables, not on floating-point output).
R-C05-4: the same two conditions for the operator of level 1, assembled from the LevelCache that the second constructor
         derives from the finer level's cache (the object setup() really uses on every coarser level), all cache flags.
R-C05-2: the line blocks A_sc that the smoothers and the extrapolated smoothers assemble and factorise (read back from the
         solver objects / CSR containers the builders filled, as C06 and C07 do) are symmetric on non-Dirichlet unknowns and
         have positive diagonals, for give and take.  (That A_sc + A_ortho is the operator is C06's and C07's business.)
"""
from gmg import dag, ir, opsdom, report, symdom, tab_ops, tab_smoother


def shapes(tier):
    if tier == "quick":
        return [(6, 8, 2, False), (6, 8, 3, True), (7, 4, 4, False), (5, 8, 0, True), (7, 12, 3, False)]
    return [(nr, nt, nsc, d) for nr, nt in ((5, 4), (6, 8), (7, 8), (9, 12)) for nsc in (0, 2, 3, nr) for d in (False, True)]


def block_shapes(tier):
    # smoothing levels as in C06/C07: ntheta % 4 == 0, nr odd, at least 3 smoother circles and 3 nodes per radial line
    if tier == "quick":
        return [(7, 8, 3, False), (7, 8, 3, True), (9, 8, 4, False)]
    return [(7, 8, 3, False), (7, 8, 3, True), (9, 8, 4, False), (9, 8, 4, True), (7, 12, 3, False), (9, 12, 4, True), (11, 8, 5, False)]


def line_blocks(ck, tier):
    ck.rule("R-C05-2", "the line blocks the (extrapolated) smoothers factorise are symmetric on non-Dirichlet unknowns with positive diagonal (give and take)", floor=8)
    prog = tab_smoother.load()
    for u in prog.units:
        if u not in ck.units:
            ck.units.append(u)
    kinds = [("SmootherGive", "Smoother", "smoothing", False), ("SmootherTake", "Smoother", "smoothing", False),
             ("ExtrapolatedSmootherGive", "ExtrapolatedSmoother", "extrapolatedSmoothing", True),
             ("ExtrapolatedSmootherTake", "ExtrapolatedSmoother", "extrapolatedSmoothing", True)]
    for cls, base, fn, ext in kinds:
        ck.analysed(prog.fn(cls + "::buildAscMatrices"))
    for (nr, nt, nsc, dirbc) in block_shapes(tier):
        S = tab_ops.Setting(prog, nr, nt, nsc, dirbc)
        for cls, base, fn, ext in kinds:
            sw = tab_smoother.Sweep(S, cls, base, fn, threads=1, extrapolated=ext)
            key = "%s %s" % (cls, S.key())
            ck.instance("R-C05-2", key)
            bad = None
            npairs = 0
            for p, row in sw.Asc.items():
                if S.dirichlet(p):
                    continue
                d = row.get(p)
                if d is None or dag.sign_at_points(d) != {1}:
                    bad = "diagonal entry of node %s is %s, not positive" % (S.rt(p), dag.show(d, 100) if d is not None else None)
                    break
                for q, a in row.items():
                    if q is None or q == p or S.dirichlet(q):
                        continue
                    npairs += 1
                    b = sw.Asc.get(q, {}).get(p, dag.ZERO)
                    if not dag.equal(a, b):
                        bad = "A_sc[%s,%s] = %s but A_sc[%s,%s] = %s" % (S.rt(p), S.rt(q), dag.show(a, 100), S.rt(q), S.rt(p), dag.show(b, 100))
                        break
                if bad:
                    break
            if bad:
                ck.violation("R-C05-2", "%s:block" % cls, ir.locstr(prog.fn(cls + "::buildAscMatrices")), "%s: %s" % (key, bad))
            else:
                ck.ok("R-C05-2", key, sample={"smoother": cls, "shape": S.key(), "off-diagonal pairs compared": npairs} if cls == "SmootherGive" else None)


def main(tier):
    ck = report.Check("C05", tier, level="proof", technique="symbolic interpretation of the residual operators into exact matrix tables; symmetry by polynomial identity testing of A[p,q]-A[q,p]")
    ck.rule("R-C05-1", "A[p,q] == A[q,p] on non-Dirichlet unknowns (give and take)", floor=6)
    ck.rule("R-C05-3", "diagonal entries of non-Dirichlet rows are positive for positive spacings and coefficients", floor=6)
    ck.rule("R-C05-4", "the operator of level 1, assembled from the LevelCache that is derived from the finer level's, is symmetric with positive diagonal (give under all cache flags, take)", floor=10)
    prog = tab_ops.load()
    ck.units += prog.units
    for qn in ("ResidualGive::applyCircleSection", "ResidualGive::applyRadialSection", "ResidualTake::applyCircleSection", "ResidualTake::applyRadialSection"):
        ck.analysed(prog.fn(qn))
    for (nr, nt, nsc, dirbc) in shapes(tier):
        S = tab_ops.Setting(prog, nr, nt, nsc, dirbc)
        sk = S.key()
        for cls in ("ResidualGive", "ResidualTake"):
            A, probs, regs = S.residual(cls, S.cache(True, True))
            site = ir.locstr(prog.fn(cls + "::applyCircleSection"))
            key = "%s %s" % (cls, sk)
            ck.instance("R-C05-1", key)
            bad = None
            npairs = 0
            for p, row in A.items():
                if S.dirichlet(p):
                    continue
                for q, a in row.items():
                    if q is None or S.dirichlet(q) or q == p:
                        continue
                    npairs += 1
                    b = A.get(q, {}).get(p, dag.ZERO)
                    if not dag.equal(a, b):
                        bad = (S.rt(p), S.rt(q), dag.show(a, 120), dag.show(b, 120))
                        break
                if bad:
                    break
            if bad:
                ck.violation("R-C05-1", "%s:asymmetric" % cls, site, "%s: A[%s,%s] = %s but A[%s,%s] = %s" % (key, bad[0], bad[1], bad[2], bad[1], bad[0], bad[3]))
            else:
                ck.ok("R-C05-1", key, sample={"operator": cls, "shape": sk, "off-diagonal pairs compared": npairs})
            ck.instance("R-C05-3", key)
            neg = None
            variants = [("", A)]
            if cls == "ResidualGive":
                # the give operator exists under every cache-flag combination; definiteness is claimed for all of them
                for fl in ((True, False), (False, True), (False, False)):
                    variants.append((" caches=(%s,%s)" % fl, S.residual(cls, S.cache(*fl))[0]))
            for vname, Av in variants:
                for p, row in Av.items():
                    if S.dirichlet(p):
                        continue
                    d = row.get(p)
                    if d is None or dag.sign_at_points(d) != {1}:
                        neg = (S.rt(p), (dag.show(d, 120) if d is not None else None) + vname)
                        break
                    # beta >= 0 includes beta == 0 (Poisson-type profiles): the stiffness part alone must keep the diagonal positive
                    d0 = dag.subst(d, {}, funcs={"coefficients.beta": lambda args: dag.ZERO})
                    if dag.sign_at_points(d0) != {1}:
                        neg = (S.rt(p), "with beta == 0 the diagonal is %s%s" % (dag.show(d0, 100), vname))
                        break
                if neg:
                    break
            if neg:
                ck.violation("R-C05-3", "%s:diagonal" % cls, site, "%s: diagonal entry of row %s is %s, not positive" % (key, neg[0], neg[1]))
            else:
                ck.ok("R-C05-3", key)
    # ---------------- R-C05-4: the operator of a coarser level, assembled from the cache that setup() derives from the finer one
    lv_shapes = [(9, 8, 4, False), (9, 8, 3, True), (7, 12, 3, False)] if tier == "quick" else [(9, 8, 4, False), (9, 8, 3, True), (7, 12, 3, False), (7, 8, 0, True), (9, 12, 9, False), (11, 8, 5, True)]
    for (nr, nt, nsc, dirbc) in lv_shapes:
        S = tab_ops.Setting(prog, nr, nt, nsc, dirbc)
        cgrid = symdom.coarse_of(S.grid, min((nsc + 1) // 2, (nr + 1) // 2))
        C = tab_ops.Setting.__new__(tab_ops.Setting)
        C.__dict__.update(S.__dict__)
        C.shape = tuple(cgrid.shape)
        C.grid = cgrid
        for cls, flagsets in (("ResidualGive", [(True, True), (True, False), (False, True), (False, False)]), ("ResidualTake", [(True, True)])):
            site = "src/Level/levelCache.cpp"
            for fl in flagsets:
                key = "%s level 1 of %s caches=(%s,%s)" % (cls, S.key(), fl[0], fl[1])
                ck.instance("R-C05-4", key)
                lvl = symdom.make_level(0, S.grid, S.cache(*fl))
                ccache = opsdom.coarse_cache(prog, S.dom, lvl, cgrid)
                A, probs, regs = S.residual(cls, ccache, grid=cgrid)
                bad = None
                for p_, row in A.items():
                    if C.dirichlet(p_):
                        continue
                    d = row.get(p_)
                    if d is None or dag.sign_at_points(d) != {1}:
                        bad = "diagonal entry of row %s is %s, not positive" % (C.rt(p_), dag.show(d, 120) if d is not None else None)
                        break
                    d0 = dag.subst(d, {}, funcs={"coefficients.beta": lambda args: dag.ZERO})
                    if dag.sign_at_points(d0) != {1}:
                        bad = "with beta == 0 the diagonal entry of row %s is %s, not positive" % (C.rt(p_), dag.show(d0, 100))
                        break
                    for q, a in row.items():
                        if q is None or q == p_ or C.dirichlet(q):
                            continue
                        if not dag.equal(a, A.get(q, {}).get(p_, dag.ZERO)):
                            bad = "A[%s,%s] = %s but A[%s,%s] = %s" % (C.rt(p_), C.rt(q), dag.show(a, 100), C.rt(q), C.rt(p_), dag.show(A.get(q, {}).get(p_, dag.ZERO), 100))
                            break
                    if bad:
                        break
                if probs and not bad:
                    bad = probs[0]
                if bad:
                    ck.violation("R-C05-4", "%s:coarse-level" % cls, site, "%s: %s" % (key, bad))
                else:
                    ck.ok("R-C05-4", key)
    line_blocks(ck, tier)
    return ck.finish(
        "The residual operator (both strategies) is interpreted from source into an exact matrix over rational-function DAGs on "
        "representative grids (non-uniform spacings, antipodally paired angles, non-orthogonal geometry: all four Jacobian entries are "
        "independent uninterpreted functions, so the mixed art terms are present). Symmetry is decided entry pair by entry pair on "
        "the non-Dirichlet unknowns, including the across-origin coupling. Positive definiteness depends on the values arr*att > art^2/4 "
        "of the geometry and is not decided; positivity of the diagonal is a necessary condition checked on the tables.",
        trusted_base=["clang 14 front end", "gmgir lowering", "own IR interpreter", "identity testing by exact rational evaluation at 4 pseudo-random points"],
        assumptions=["admissible grids: angular spacing pattern has period ntheta/2 (antipodal partners)", "definiteness not decided"])


if __name__ == "__main__":
    report.run(main, "C05")
