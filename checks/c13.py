"""C13 — a solver object can be reused.

R-C13-1: in a second solve() on the same object (all work vectors and every member the first solve wrote now
         hold history, marked STALE) no branch condition depends on history.
R-C13-2: the second solve's outputs (solution term, iteration count, reduction factor, error figures and
         every statistics accessor) contain no STALE leaf.
R-C13-3: setup() re-defines every setup-owned member the solve phase reads (levels_, number_of_levels_,
         threads_per_level_, interpolation_, full_grid_smoothing_), clears levels_ before rebuilding it, and
         solve() leaves setup-owned configuration as it found it or re-derives it on entry.
R-C13-5: nothing reachable from setup() or solve() writes an option member (a member a public setter assigns): options
         must survive a setup() unchanged, or a second setup() for another problem size inherits derived values.
R-C13-6: the functions that the value-flow analysis replaces by an operator symbol (computeExactError, extrapolatedResidual,
         build_rhs_f, discretize_rhs_f, the transfer operators, the operators' apply methods) write no member of their own
         object: a value kept from one call to the next would be history that the summaries cannot see.
Timings (t_*) accumulate by design until resetTimings() and are excluded.
"""
import itertools

from gmg import drv, ir, report, solve_runs as sr
from gmg.terms import has_kind, show

EXT = {0: "NONE", 1: "IMPLICIT", 2: "FULL_GRID", 3: "COMBINED"}
SETUP_OWNED = ["levels_", "number_of_levels_", "threads_per_level_", "interpolation_", "full_grid_smoothing_"]


def modes(tier):
    tols = [(True, True), (True, False), (False, True), (False, False)]
    mis = [0, 1, 2] if tier == "quick" else [0, 1, 2, 3]
    Ls = [2] if tier == "quick" else [2, 3]
    for ext, fmg, (a, r), ex, mi, L in itertools.product(range(4), (False, True), tols, (False, True), mis, Ls):
        if tier == "quick" and ext == 2 and (fmg or not a):
            continue
        yield {"L": L, "FMG": fmg, "FMG_iterations": 1, "FMG_cycle": 0, "extrapolation": ext, "cycle": 0, "nu1": 1, "nu2": 1,
               "max_iterations": mi, "abs_tol": a, "rel_tol": r, "exact": ex, "norm": 0}


def first_stale(v):
    txt = sr.describe(v)
    return txt[:200]


def main(tier):
    ck = report.Check("C13", tier, level="other", technique="static value-flow analysis of setup();solve();solve(): history is marked STALE and must not reach a branch or an output")
    ck.rule("R-C13-1", "no branch of a repeated solve() depends on history", floor=50)
    ck.rule("R-C13-2", "outputs and statistics of a repeated solve() contain no history leaf", floor=50)
    ck.rule("R-C13-3", "setup() re-defines all setup-owned members and clears levels_ first", floor=8)
    prog = sr.load()
    ck.units += prog.units
    for qn in ["GMGPolar::solve", "GMGPolar::setup", "GMGPolar::initializeSolution"] + sr.ACCESSORS:
        ck.analysed(prog.fn(qn))
    solve_fn = prog.fn("GMGPolar::solve")
    n_paths = 0
    n_modes = 0
    for mode in modes(tier):
        n_modes += 1
        what = "ext=%s FMG=%s abs=%s rel=%s exact=%s maxit=%d L=%d" % (EXT[mode["extrapolation"]], mode["FMG"], mode["abs_tol"], mode["rel_tol"],
                                                                    mode["exact"], mode["max_iterations"], mode["L"])
        outs = [(o, "") for o in sr.scenario_reuse(prog, mode)]
        if not (mode["abs_tol"] and mode["rel_tol"]):
            # the tolerance options were changed between the two solves: the first solve ran with both criteria enabled
            # (the history-richest case), the second runs with this mode's
            outs += [(o, " first-solve-tolerances=(abs,rel)") for o in sr.scenario_reuse(prog, mode, first_tols=(True, True))]
        for pi, (o, tag_) in enumerate(outs):
            n_paths += 1
            pk = "%s%s path%d" % (what, tag_, pi)
            # tolerate genuine C20 events here (they are C20's business) but not as a pass: they poison outputs -> R-C13-2 below
            ck.instance("R-C13-1", pk)
            bads = {}
            for site, cond, outc, fnq in o.choice_log:
                if sr.scalar_has_stale(cond):
                    names = sorted(set(n for n in ("residual_norms_", "exact_errors_", "full_grid_smoothing_", "mean_residual_reduction_factor_", "number_of_iterations_") if n in show(cond)))
                    bads.setdefault("+".join(names) or "work-vector", (site, cond, fnq))
            if bads:
                for nm, (site, cond, fnq) in bads.items():
                    ck.violation("R-C13-1", "solve:history-branch:%s" % nm, site,
                                 "%s: in a second solve() the branch at %s (in %s) is decided by data left by the previous solve: %s" % (pk, site, fnq, show(cond)[:300]))
            else:
                ck.ok("R-C13-1", pk)
            ck.instance("R-C13-2", pk)
            probs = []
            if o.throws:
                probs.append(("throws", "second solve throws %s at %s" % (o.throws.what, o.throws.site)))
            if o.solution is not None and has_kind(o.solution, ("stale", "clob")):
                atoms = sorted(set(show(a) for a in has_kind(o.solution, ("stale", "clob"))))
                probs.append(("solution", "returned solution depends on %s" % ", ".join(atoms)[:200]))
            if sr.scalar_has_stale(o.iterations):
                probs.append(("numberOfIterations", "iteration count is %s" % first_stale(o.iterations)))
            for name, v in o.accessors.items():
                if sr.scalar_has_stale(v):
                    probs.append((name, "%s() reports %s" % (name, first_stale(v))))
            if probs:
                for tag, msg in probs:
                    ck.violation("R-C13-2", "second-solve:%s" % tag, ir.locstr(solve_fn), "%s: %s" % (pk, msg))
            else:
                ck.ok("R-C13-2", pk, sample={"mode": what, "iterations": sr.describe(o.iterations)} if n_paths % 53 == 1 else None)
    # ---- R-C13-3: setup() ownership
    gm_fields = set(f["name"] for f in prog.cls("GMGPolar")["fields"])
    for m_ in SETUP_OWNED:
        if m_ not in gm_fields:
            raise ir.AnalysisBroken("anchor vanished: GMGPolar::%s (a member this rule names; renamed or removed)" % m_)
    setup_writes_all = [None]
    for ext, fmg, L in itertools.product(range(4), (False, True), (2, 3)):
        mode = {"L": L, "FMG": fmg, "extrapolation": ext, "max_iterations": 0}
        what = "setup ext=%s FMG=%s L=%d" % (EXT[ext], fmg, L)
        doms = list(drv.run_paths(prog, mode, lambda d, it: sr.run_setup(d, it)))
        for dom in doms:
            ck.instance("R-C13-3", what)
            probs = []
            if dom.throws:
                probs.append("setup throws %s" % dom.throws.what)
            setup_writes_all[0] = set(dom.field_writes) if setup_writes_all[0] is None else (setup_writes_all[0] & set(dom.field_writes))
            missing = [m for m in SETUP_OWNED if m not in dom.field_writes]
            if missing:
                probs.append("setup() does not re-define %s" % ", ".join(missing))
            for ev in dom.events:
                if ev.kind in ("level-order", "levels-not-cleared"):
                    probs.append(repr(ev))
            if len([k for k in dom.bufs if k[1] == "solution"]) != L:
                probs.append("setup built %d levels, chooseNumberOfLevels reported %d" % (len([k for k in dom.bufs if k[1] == "solution"]), L))
            if probs:
                ck.violation("R-C13-3", "setup:%s" % probs[0][:50], "src/GMGPolar/setup.cpp", "%s: %s" % (what, "; ".join(probs)))
            else:
                ck.ok("R-C13-3", what)
    # ---- R-C13-4: options changed, setup() and solve() again on the same object (the convergence_order loop pattern)
    ck.rule("R-C13-4", "after an option change, setup();solve() depends on nothing the earlier setup/solve left (levels, right-hand sides, members all STALE)", floor=20)
    def mk(ext, fmg, L):
        return {"L": L, "FMG": fmg, "FMG_iterations": 1, "FMG_cycle": 0, "extrapolation": ext, "cycle": 0, "nu1": 1, "nu2": 1,
                "max_iterations": 1, "abs_tol": True, "rel_tol": True, "exact": True, "norm": 0}
    As = [(0, False), (3, True), (1, False)]
    Bs = [(0, False), (3, True), (1, True), (2, False)] if tier != "quick" else [(0, False), (3, True), (1, True)]
    for (ea, fa), (eb, fb), (la, lb) in itertools.product(As, Bs, ((2, 3), (3, 2), (2, 2))):
        what = "A(ext=%s FMG=%s L=%d) -> B(ext=%s FMG=%s L=%d)" % (EXT[ea], fa, la, EXT[eb], fb, lb)
        outs = sr.scenario_resetup(prog, mk(ea, fa, la), mk(eb, fb, lb))
        for pi, o in enumerate(outs):
            pk = "%s path%d" % (what, pi)
            ck.instance("R-C13-4", pk, nontrivial=(pi == 0))
            probs = []
            if o.throws:
                probs.append("throws %s at %s" % (o.throws.what, o.throws.site))
            for ev in o.events:
                if ev.kind in ("levels-not-cleared", "level-order", "unallocated", "uninitialised-operator", "oob-level", "wrong-level"):
                    probs.append(repr(ev))
            for site, cond, outc, fnq in o.choice_log:
                if sr.scalar_has_stale(cond):
                    probs.append("branch at %s (in %s) decided by data of the earlier run: %s" % (site, fnq, show(cond)[:200]))
                    break
            if o.solution is not None and has_kind(o.solution, ("stale", "clob")):
                probs.append("solution depends on %s" % ", ".join(sorted(set(show(a) for a in has_kind(o.solution, ("stale", "clob")))))[:200])
            for name, v in list(o.accessors.items()) + [("numberOfIterations", o.iterations)]:
                if sr.scalar_has_stale(v):
                    probs.append("%s reports %s" % (name, sr.describe(v)[:120]))
            if probs:
                ck.violation("R-C13-4", "resetup:%s" % probs[0].split(" ")[0][:40], "src/GMGPolar/setup.cpp", "%s: %s" % (pk, probs[0]))
            else:
                ck.ok("R-C13-4", pk)
    # ---- R-C13-5: options belong to the user: nothing reachable from setup() or solve() writes a member that a setter sets
    ck.rule("R-C13-5", "no function reachable from setup() or solve() writes an option member (a member assigned from the argument of a public one-argument setter): a derived value written back would outlive the problem it was derived for", floor=20)
    from gmg import structq
    whole = ir.load()
    setters = {}
    for qn, fl in whole.functions.items():
        if not qn.startswith("GMGPolar::"):
            continue
        for f in fl:
            if len(f["params"]) != 1 or f.get("special"):
                continue
            pid_ = f["params"][0]["id"]
            for n in ir.walk(f["body"]):
                tgt = rhs = None
                if n.get("k") == "Assign":
                    tgt, rhs = n["a"], n["b"]
                elif n.get("k") == "OpCall" and n.get("op") == "=" and len(n.get("args", [])) == 2:
                    tgt, rhs = n["args"][0], n["args"][1]
                if tgt is not None and structq.is_this_field(tgt) and any(x.get("k") == "Ref" and x.get("id") == pid_ for x in ir.walk(rhs)):
                    setters.setdefault(tgt["field"], set()).add(qn)
    cg = structq.CallGraph(whole)
    writes = {}
    for root in ("GMGPolar::setup", "GMGPolar::solve"):
        # reachability over (name, number of arguments): a getter and a setter of one name are different functions
        seen, st = set(), [(root, 0)]
        while st:
            q, na = st.pop()
            if (q, na) in seen:
                continue
            seen.add((q, na))
            for f in whole.fns(q):
                if len(f["params"]) != na:
                    continue
                for c in structq.calls_in(f["body"]):
                    cq = structq.callee_of(c)
                    if cq.startswith("GMGPolar::"):
                        st.append((cq, len(c.get("args", []))))
        for q, na in sorted(seen):
            for f in whole.fns(q):
                if len(f["params"]) != na:
                    continue
                for n in ir.walk(f["body"]):
                    tgt = None
                    if n.get("k") == "Assign":
                        tgt = n["a"]
                    elif n.get("k") == "OpCall" and n.get("op") in ("=", "+=", "-=", "*=", "/=") and n.get("args"):
                        tgt = n["args"][0]
                    elif n.get("k") == "Un" and n.get("op") in ("++", "--"):
                        tgt = n["e"]
                    if tgt is not None and structq.is_this_field(tgt) and tgt["field"] in setters:
                        writes.setdefault(tgt["field"], []).append((root.split("::")[1], q, ir.locstr(n)))
    for m_ in sorted(setters):
        ck.instance("R-C13-5", m_)
        if m_ in writes:
            root, q, loc = writes[m_][0]
            ck.violation("R-C13-5", "option-written:%s" % m_, loc, "%s (reachable from %s()) assigns the option member %s, which the user sets through %s: a later setup() on the same object sees the written-back value instead of the option" % (
                q, root, m_, ", ".join(sorted(setters[m_]))))
        else:
            ck.ok("R-C13-5", m_, sample={"option member": m_, "setters": sorted(setters[m_])} if m_ == "ntheta_exp_" else None)
    # ---- R-C13-6: the functions the value-flow analysis replaces by an operator symbol keep no state of their own
    ck.rule("R-C13-6", "a function that the driver analysis summarises by its operator signature writes no member of its own object (a value kept from one call to the next is history the summaries cannot see)", floor=10)

    def cls_of(q):
        return q.rsplit("::", 1)[0]

    def strip(t):
        while True:
            k = t.get("k")
            if k in ("Index", "Paren", "Cast", "ImplicitCast") and (t.get("e") or t.get("a")) is not None:
                t = t.get("e") or t.get("a")
            elif k == "OpCall" and t.get("op") in ("[]", "*") and t.get("args"):
                t = t["args"][0]
            elif k == "Un" and t.get("op") == "*":
                t = t["e"]
            else:
                return t

    def member_effects(entry):
        """members of the entry's own object written / read in the entry and in the methods of the same class it reaches"""
        c = cls_of(entry)
        seen, st = set(), [entry]
        while st:
            q = st.pop()
            if q in seen:
                continue
            seen.add(q)
            st.extend(x for x in cg.callees.get(q, ()) if cls_of(x) == c)
        wr, rd = {}, {}
        for q in sorted(seen):
            for f in whole.fns(q):
                targets = set()
                for n in ir.walk(f["body"]):
                    tgt = None
                    k = n.get("k")
                    if k == "Assign":
                        tgt = n["a"]
                    elif k == "OpCall" and n.get("op") in ("=", "+=", "-=", "*=", "/=") and n.get("args"):
                        tgt = n["args"][0]
                    elif k == "Un" and n.get("op") in ("++", "--"):
                        tgt = n["e"]
                    elif k == "Call" and n.get("this") is not None and structq.is_this_field(n["this"]):
                        cf = whole.fns(n.get("callee") or "")
                        if cf and not cf[0].get("constm") and not cf[0].get("static"):
                            tgt = n["this"]
                    if tgt is not None:
                        t = strip(tgt)
                        if structq.is_this_field(t):
                            wr.setdefault(t["field"], []).append((q, ir.locstr(n)))
                            if k == "Assign" or (k == "OpCall" and n.get("op") == "="):
                                targets.add(id(t))
                            if (k == "Assign" and n.get("op") != "=") or (k == "OpCall" and n.get("op") != "=") or k == "Un":
                                # `m += e`, `++m`: the read of m inside its own update flows back into m only (a timer,
                                # a call counter); it is a read that matters only if e itself mentions m again
                                targets.add(id(t))
                            elif k == "Assign" and n.get("op") == "=":
                                # `m = m + e`: same
                                rhs_ = n["b"]
                                while rhs_.get("k") in ("Paren", "Cast", "ImplicitCast") and rhs_.get("e") is not None:
                                    rhs_ = rhs_["e"]
                                if rhs_.get("k") == "Bin" and rhs_.get("op") in ("+", "-"):
                                    for side in (rhs_["a"], rhs_["b"]):
                                        s_ = strip(side)
                                        if structq.is_this_field(s_) and s_["field"] == t["field"]:
                                            targets.add(id(s_))
                for n in ir.walk(f["body"]):
                    if structq.is_this_field(n) and id(n) not in targets:
                        rd.setdefault(n["field"], []).append((q, ir.locstr(n)))
        return wr, rd, seen

    # positive control: the matcher must see solve()'s own bookkeeping writes, or it sees nothing at all
    wr0, _, _ = member_effects("GMGPolar::solve")
    if "number_of_iterations_" not in wr0:
        raise ir.AnalysisBroken("R-C13-6 matcher does not find solve()'s write of number_of_iterations_: the member-write query no longer sees the code")
    entries = [q for q in drv.SIGS if q.startswith(("GMGPolar::", "Interpolation::"))]
    for base in ("Residual::computeResidual", "Smoother::smoothing", "ExtrapolatedSmoother::extrapolatedSmoothing", "DirectSolver::solveInPlace"):
        ovs = sorted(cg.overriders.get(base, ()))
        if not ovs:
            raise ir.AnalysisBroken("anchor vanished: no override of %s" % base)
        entries += [o for o in ovs if "MUMPS" not in o and "Task" not in o]
    for e in entries:
        if not whole.fns(e):
            raise ir.AnalysisBroken("anchor vanished: %s" % e)
        ck.instance("R-C13-6", e)
        wr, rd, seen = member_effects(e)
        if not wr:
            ck.ok("R-C13-6", e, sample={"function": e, "methods of its class reached": len(seen), "members written": 0} if e == "GMGPolar::computeExactError" else None)
            continue
        m_ = (sorted(m2 for m2 in wr if m2 in rd) or sorted(wr))[0]
        q, loc = wr[m_][0]
        carried = m_ in rd
        if e.startswith("GMGPolar::"):
            if carried and m_ in (setup_writes_all[0] or set()):
                ck.ok("R-C13-6", e)     # a cache that every setup() re-establishes cannot carry values into another problem
            elif carried:
                ck.violation("R-C13-6", "%s:%s" % (e, m_), loc, "%s writes the member %s at %s and reads it at %s, and setup() does not re-establish it: what one call leaves there decides a later call, also after setup() for another problem (the driver analysis treats %s as a pure function of its arguments)" % (
                    q, m_, loc, rd[m_][0][1], e))
            else:
                # written (accumulated) but never read by the function or by anything it reaches in its class: a statistic
                # (timer, call counter) that cannot influence what the function computes
                ck.ok("R-C13-6", e)
        else:
            carried_any = [m2 for m2 in wr if m2 in rd]
            if carried_any:
                raise ir.AnalysisBroken("%s writes and reads the member %s of its operator object (%s): the operator keeps state between applications, which the one-application analyses of C03/C04/C06/C07/C08 do not model" % (q, carried_any[0], wr[carried_any[0]][0][1]))
            ck.ok("R-C13-6", e)      # write-only statistics of the operator object
    # ---- R-C13-7: what the driver analysis calls an 'out' parameter really is one.  The operator signature table says which
    # vector a summarised function overwrites completely; the value-flow then forgets that vector's previous contents.  If the
    # function reads the parameter (or updates it with +=), whatever an earlier solve left there flows into the result.
    ck.rule("R-C13-7", "a parameter that the operator signature table calls 'out' is only ever the target of plain assignments in the summarised function (never read, never updated in place)", floor=8)
    for qn_, roles in sorted(drv.SIGS.items()):
        for f_ in [f for f in whole.fns(qn_) if len(f["params"]) == len(roles)]:
            for p_, role in zip(f_["params"], roles):
                if role != "out":
                    continue
                key = "%s(%s)" % (qn_, p_["name"])
                ck.instance("R-C13-7", key)
                plain_targets, bad = set(), None
                aliases = set()     # `double& dst = result[i];`: a name for one element, not a read of it

                def elem_of_param(t):
                    while t.get("k") in ("Paren", "Cast", "ImplicitCast") and t.get("e") is not None:
                        t = t["e"]
                    if t.get("k") == "Ref" and t.get("id") in aliases:
                        return True
                    if t.get("k") == "Index" and t["base"].get("k") == "Ref" and t["base"].get("id") == p_["id"]:
                        return True
                    if t.get("k") == "OpCall" and t.get("op") == "[]" and t.get("args") and t["args"][0].get("k") == "Ref" and t["args"][0].get("id") == p_["id"]:
                        return True
                    return False
                for n in ir.walk(f_["body"]):
                    if n.get("k") == "Decl":
                        for v_ in n.get("vars", []):
                            t_ = (v_.get("t") or "").rstrip()
                            if t_.endswith("&") and not t_.startswith("const ") and v_.get("init") is not None and elem_of_param(v_["init"]):
                                aliases.add(v_["id"])
                                plain_targets.add(id(v_["init"]))
                for n in ir.walk(f_["body"]):
                    if n.get("k") == "Assign" and elem_of_param(n["a"]):
                        if n.get("op") == "=":
                            plain_targets.add(id(n["a"]))
                        else:
                            bad = bad or ("updated in place with `%s` at %s" % (n.get("op"), ir.locstr(n)))
                    elif n.get("k") == "Un" and n.get("op") in ("++", "--") and elem_of_param(n["e"]):
                        bad = bad or ("updated in place with `%s` at %s" % (n.get("op"), ir.locstr(n)))
                if not bad:
                    for n in ir.walk(f_["body"]):
                        if elem_of_param(n) and id(n) not in plain_targets:
                            bad = "read at %s" % ir.locstr(n)
                            break
                if bad:
                    ck.violation("R-C13-7", "%s:%s" % (qn_, p_["name"]), ir.locstr(f_), "%s: the parameter `%s`, which the driver analysis treats as completely overwritten, is %s: its previous contents (what an earlier solve or cycle left there) flow into the result" % (qn_, p_["name"], bad))
                else:
                    ck.ok("R-C13-7", key)
    ck.extra["modes"] = n_modes
    ck.extra["paths"] = n_paths
    return ck.finish(
        "setup(); solve(); solve() is interpreted from /repo's source per mode. After the first solve every work vector and every "
        "GMGPolar member that solve() wrote in that mode is replaced by a STALE marker (lists keep their length with STALE entries). "
        "The second solve must then be a function of problem data only: no branch condition and no output (solution term, "
        "iteration count, reduction factor, error figures through the public accessors) may contain a STALE marker. This is the "
        "'history' quantifier of the property made finite: any dependence on earlier solves has to flow through one of those members.",
        trusted_base=["clang 14 front end", "gmgir lowering", "operator signature table", "classification of members by who writes them (derived per mode from the interpretation)"],
        assumptions=["timing members accumulate by design and are excluded", "changing options between solves without setup() is outside the documented use"])


if __name__ == "__main__":
    report.run(main, "C13")
