"""C20 — every option combination is rejected cleanly or runs without UB (decided part).

R-C20-1 (DRV): on every mode path of setup()+solve() and of the statistics accessors, every scalar that is read has
         been assigned, every list access is in range, no null input-function pointer is dereferenced, no disabled
         tolerance is unwrapped, every vector/operator used is allocated/initialised by setup() in that mode.
R-C20-4 (DRV): on every such path the statistics accessors equal their defining terms (iteration count, reduction factor
         as (last/first residual norm)^(1/k), error figures of the iterate the last stop test examined).
R-C20-2 (STRUCT): option tables — for every enum-typed option the parser's validity test admits exactly the
         enumerators, every library switch on it names every enumerator or has a throwing default, every
         static_cast to the enum is dominated by the test.
R-C20-3 (STRUCT): mandated rejections dominate first use (take-without-caches, level-count minimum).
Not decided: memory safety of the numerical kernels, assertion failures in debug builds.
"""
import itertools

from gmg import drv, ir, report, solve_runs as sr
from gmg.terms import show

EXT = {0: "NONE", 1: "IMPLICIT", 2: "FULL_GRID", 3: "COMBINED"}
UB_KINDS = ("nan", "undef-read", "oob-list", "null-deref", "bad-optional", "unallocated", "uninitialised-operator", "oob-level")


def modes(tier):
    tols = [(True, True), (True, False), (False, True), (False, False)]
    exts = [0, 1, 3] if tier == "quick" else [0, 1, 2, 3]
    mis = [0, 1, 2]
    seen = set()
    for ext, fmg, (a, r), ex, mi, vb, pv in itertools.product(exts, (False, True), tols, (False, True), mis, (0, 1), (False, True)):
        if tier == "quick" and (vb and pv):
            continue
        for L, cyc, nu in (((2, 0, (1, 1)),) if tier == "quick" else ((2, 0, (1, 1)), (3, 1, (0, 0)), (3, 2, (1, 0)))):
            yield {"L": L, "FMG": fmg, "FMG_iterations": 1, "FMG_cycle": cyc, "extrapolation": ext, "cycle": cyc, "nu1": nu[0], "nu2": nu[1],
                   "max_iterations": mi, "abs_tol": a, "rel_tol": r, "exact": ex, "norm": 0, "verbose": vb, "paraview": pv}


def statistic_problems(mode, o):
    """compare the four accessors with what the property calls 'a well-defined function of that solve'"""
    from fractions import Fraction
    from gmg.terms import fn as tfn
    S = drv.S
    probs = []
    cc = o.converged_calls
    its = o.iterations
    tol = mode["abs_tol"] or mode["rel_tol"]
    acc = {k.split("::")[-1]: v for k, v in o.accessors.items()}
    stopped = bool(cc) and cc[-1]["result"] is True
    if not isinstance(its, int) or isinstance(its, bool):
        return ["numberOfIterations: the iteration count is %s, not a number determined by this path" % sr.describe(its)[:80]]
    want_its = (len(cc) - 1) if stopped else mode["max_iterations"]
    if its != want_its:
        probs.append("numberOfIterations: %d cycles were applied but number_of_iterations_ is %d" % (want_its, its))
    if acc.get("numberOfIterations") != its:
        probs.append("numberOfIterations: the accessor returns %s, the member holds %d" % (sr.describe(acc.get("numberOfIterations"))[:60], its))
    rho = acc.get("meanResidualReductionFactor")
    if its == 0 or not tol:
        if rho != Fraction(1) and rho != 1:
            probs.append("meanResidualReductionFactor: no reduction was measured on this path (iterations=%d, tolerances %s) but the accessor returns %s" % (its, "enabled" if tol else "disabled", sr.describe(rho)[:120]))
    else:
        n0 = cc[0]["args"][0]
        cands = [cc[-1]["args"][0]]
        ok = any(sr.scalar_equal(rho, S("pow", S("/", nk, n0), Fraction(1, its))) for nk in cands)
        if not ok:
            probs.append("meanResidualReductionFactor: expected (||r_k|| / ||r_0||)^(1/%d) with the first and the last residual norm measured in this solve, got %s" % (its, sr.describe(rho)[:300]))
    for name, head in (("exactErrorWeightedEuclidean", "errW"), ("exactErrorInfinity", "errInf")):
        v = acc.get(name)
        if isinstance(v, drv.OptVal) if hasattr(drv, "OptVal") else False:
            v = v.value if v.has else None
        n_err = len(o.exact_errors)
        if not mode["exact"] or n_err == 0:
            if v is not None and not (isinstance(v, tuple) and v and v[0] == "nullopt"):
                probs.append("%s: no error was measured on this path (exact solution %s, %d measurements) but the accessor returns %s" % (name, "given" if mode["exact"] else "absent", n_err, sr.describe(v)[:100]))
            continue
        if not (isinstance(v, tuple) and len(v) == 3 and v[0] == "s" and v[1] == head):
            probs.append("%s: expected the %s norm of the error of an iterate, got %s" % (name, "weighted Euclidean" if head == "errW" else "maximum", sr.describe(v)[:200]))
            continue
        arg = v[2]
        if stopped or (tol and cc):
            U = cc[-1]["solution"]
            if arg is not tfn("Err", 0, U):
                probs.append("%s: the figure is the error of %s, not of the iterate the last stop test examined (%s)" % (name, sr.describe(arg)[:160], "the returned solution" if stopped else "the last measured iterate"))
        if stopped and cc[-1]["solution"] is not o.solution:
            probs.append("%s: the stop test accepted an iterate that is not the returned solution" % name)
    return probs


def main(tier):
    ck = report.Check("C20", tier, level="other", technique="static definedness and value-flow analysis (scalar terms) of setup()+solve()+accessors per option mode against statistic oracles; structural option-table rules")
    ck.rule("R-C20-4", "statistics after solve(): iteration count == cycles applied; reduction factor == (||r_k||/||r_0||)^(1/k) of this solve's residual norms (1 when nothing was measured); error figures == weighted-l2 / max norm of the error of an iterate of this solve, the returned one whenever a tolerance stopped the loop; absent without exact solution", floor=100)
    ck.rule("R-C20-1", "every read on every mode path of setup()+solve()+accessors is defined (no uninitialised scalar, empty-list access, null input function, disabled optional, unallocated vector)", floor=100)
    prog = sr.load()
    ck.units += prog.units
    for qn in ["GMGPolar::solve", "GMGPolar::setup", "GMGPolar::initializeSolution", "GMGPolar::converged"] + sr.ACCESSORS:
        ck.analysed(prog.fn(qn))
    n_modes = n_paths = 0
    for mode in modes(tier):
        n_modes += 1
        what = "ext=%s FMG=%s abs=%s rel=%s exact=%s maxit=%d verbose=%d paraview=%s L=%d" % (
            EXT[mode["extrapolation"]], mode["FMG"], mode["abs_tol"], mode["rel_tol"], mode["exact"], mode["max_iterations"], mode["verbose"], mode["paraview"], mode["L"])
        outs = sr.scenario_fresh(prog, mode, with_accessors=True)
        for pi, o in enumerate(outs):
            n_paths += 1
            pk = "%s path%d" % (what, pi)
            ck.instance("R-C20-1", pk)
            evs = [ev for ev in o.dom.events if ev.kind in UB_KINDS]
            if o.throws:
                evs.append(drv.Event("throws", o.throws.site, "setup()/solve() throws '%s' in a mode that is not a mandated rejection" % o.throws.what, "GMGPolar::solve"))
            if evs:
                seen = set()
                for ev in evs:
                    var = ev.msg.split("'")[1] if "'" in ev.msg else ""
                    key = "%s:%s:%s" % (ev.kind, ev.fn.split("::")[-1], var)
                    if key in seen:
                        continue
                    seen.add(key)
                    ck.violation("R-C20-1", key, ev.site, "%s: %s (in %s)" % (pk, ev.msg, ev.fn))
            else:
                ck.ok("R-C20-1", pk, sample={"mode": what, "accessors": {k: sr.describe(v)[:60] for k, v in o.accessors.items()}} if n_paths % 101 == 1 else None)
            # ---- R-C20-4: what each statistic is a function of
            if not o.throws:
                ck.instance("R-C20-4", pk)
                sp = statistic_problems(mode, o)
                if sp:
                    ck.violation("R-C20-4", "statistic:%s" % sp[0].split(":")[0], ir.locstr(prog.fn("GMGPolar::solve")), "%s: %s" % (pk, "; ".join(sp)[:900]))
                else:
                    ck.ok("R-C20-4", pk)
    ck.extra["modes"] = n_modes
    ck.extra["paths"] = n_paths
    try:
        from gmg import struct_options
        struct_options.check(ck, tier)
    except ImportError:
        ck.note("R-C20-2/3 (option tables, mandated rejections) not built yet")
    return ck.finish(
        "setup()+solve() and the four statistics accessors are interpreted from /repo's source for the option cross product "
        "{extrapolation} x {FMG} x {abs/rel tolerance enabled or disabled} x {exact solution present} x {0,1,2 iterations} x {verbose} x "
        "{paraview}, every stop-test outcome explored. Locals without initialiser and members without in-class initialiser start "
        "UNDEF; reading UNDEF, indexing a list beyond what this path pushed, dereferencing a null input function or unwrapping a "
        "disabled tolerance is reported with the path. This is a definedness analysis of the driver only; memory safety of the "
        "numerical kernels is outside it.",
        trusted_base=["clang 14 front end", "gmgir lowering", "operator signature table"],
        assumptions=["NDEBUG build (assert compiled out), as shipped"])


if __name__ == "__main__":
    report.run(main, "C20")
