"""C20 — every option combination is rejected cleanly or runs without UB (decided part).

R-C20-1 (DRV): on every mode path of setup()+solve() and of the statistics accessors, every scalar that is read has
         been assigned, every list access is in range, no null input-function pointer is dereferenced, no disabled
         tolerance is unwrapped, every vector/operator used is allocated/initialised by setup() in that mode.
R-C20-4 (DRV): on every such path the statistics accessors equal their defining terms (iteration count, reduction factor
         as (last/first residual norm)^(1/k), error figures of the iterate the last stop test examined).
R-C20-5 (TAB): the meaning of those error figures: computeExactError interpreted as an exact table (error = exact - solution
         at the node's own coordinates, every node once, weighted l2 and max norm of that vector).
R-C20-2 (STRUCT): option tables — for every enum-typed option the parser's validity test admits exactly the
         enumerators, every library switch on it names every enumerator or has a throwing default, every
         static_cast to the enum is dominated by the test.
R-C20-3 (STRUCT): mandated rejections dominate first use (take-without-caches, level-count minimum).
Not decided: memory safety of the numerical kernels, assertion failures in debug builds.
"""
import itertools

from gmg import drv, ir, report, solve_runs as sr
from gmg.terms import show

EXT = {0: "NONE", 1: "IMPLICIT", 2: "FULL_GRID", 3: "COMBINED"}
UB_KINDS = ("nan", "undef-read", "oob-list", "null-deref", "bad-optional", "unallocated", "uninitialised-operator", "oob-level")


def modes(tier):
    tols = [(True, True), (True, False), (False, True), (False, False)]
    exts = [0, 1, 3] if tier == "quick" else [0, 1, 2, 3]
    mis = [0, 1, 2]
    seen = set()
    for ext, fmg, (a, r), ex, mi, vb, pv in itertools.product(exts, (False, True), tols, (False, True), mis, (0, 1), (False, True)):
        if tier == "quick" and (vb and pv):
            continue
        for L, cyc, nu in (((2, 0, (1, 1)),) if tier == "quick" else ((2, 0, (1, 1)), (3, 1, (0, 0)), (3, 2, (1, 0)))):
            yield {"L": L, "FMG": fmg, "FMG_iterations": 1, "FMG_cycle": cyc, "extrapolation": ext, "cycle": cyc, "nu1": nu[0], "nu2": nu[1],
                   "max_iterations": mi, "abs_tol": a, "rel_tol": r, "exact": ex, "norm": 0, "verbose": vb, "paraview": pv}


def exact_error_table(ck, tier):
    """R-C20-5: the meaning of the error symbols of R-C20-4 - computeExactError interpreted as an exact table"""
    from gmg import dag, opsdom, symdom, tab_ops
    from gmg.conc import strip_targs
    from gmg.interp import Cell
    from gmg.symdom import PairObj, SArr
    ck.rule("R-C20-5", "computeExactError: error[node] = exact(r_i, theta_j, sin, cos) - solution[node] at every node, each written once, in range; returns (sqrt(l2_norm_squared(error))/sqrt(N), infinity_norm(error))", floor=3)
    oprog = tab_ops.load()
    fn = oprog.fn("GMGPolar::computeExactError")
    ck.analysed(fn)

    class ErrDomain(opsdom.OpsDomain):
        def call(self, e, fr):
            base = strip_targs(e.get("callee") or "")
            if base in ("l2_norm_squared", "infinity_norm", "l1_norm", "dot_product") and len(e["args"]) == 1:
                a = self.interp.rvalue(e["args"][0], fr)
                return dag.func(base, dag.atom("vector:%s" % a.name.split("#")[0]))
            if base == "std::make_pair" and len(e["args"]) == 2:
                a, b = self.interp.rvalue(e["args"][0], fr), self.interp.rvalue(e["args"][1], fr)
                return PairObj(first=Cell(a), second=Cell(b))
            return opsdom.OpsDomain.call(self, e, fr)
    shapes = [(6, 8, 2, False), (5, 4, 0, True), (7, 12, 7, False)] if tier == "quick" else [(6, 8, 2, False), (5, 4, 0, True), (7, 12, 7, False), (5, 4, 5, True), (9, 8, 3, True), (2, 4, 2, False)]
    for (nr, nt, nsc, dirbc) in shapes:
        S = tab_ops.Setting(oprog, nr, nt, nsc, dirbc)
        S.dom.__class__ = ErrDomain
        sk = S.key()
        ck.instance("R-C20-5", sk)
        lvl = symdom.make_level(0, S.grid, S.cache(True, True))
        gm = tab_ops.make_gmgpolar(S, [lvl])
        N = S.N
        sol = SArr("solution", N, gen=lambda j: dag.atom("u_%d" % j))
        err = SArr("error", N)
        r = S.it.call_function(fn, gm, [Cell(lvl), Cell(sol), Cell(err)])
        probs = []
        if S.dom.oob:
            probs.append("out-of-range access %s[%s] (length %s) at %s" % tuple(S.dom.oob[0]))
        rr, aa = S.grid.f["radii_"].get(), S.grid.f["angles_"].get()
        for i in range(N):
            ri, ti = S.rt(i)
            want = dag.sub(dag.func("exact.exact_solution", rr.gen(ri), aa.gen(ti), dag.func("sin", aa.gen(ti)), dag.func("cos", aa.gen(ti))), dag.atom("u_%d" % i))
            got = err.sym.get(i)
            if got is None or not dag.equal(dag.lift(got), want):
                probs.append("error at node %s is %s, expected exact(r_%d, theta_%d) - solution there" % (S.rt(i), dag.show(dag.lift(got), 80) if got is not None else "never written", ri, ti))
                break
        if sorted(err.writes) != list(range(N)):
            probs.append("%d writes for %d nodes (every node exactly once)" % (len(err.writes), N))
        if not isinstance(r, dict) or "first" not in r:
            probs.append("does not return a pair")
        else:
            first, second = dag.lift(r["first"].get()), dag.lift(r["second"].get())
            w1 = dag.div(dag.func("sqrt", dag.func("l2_norm_squared", dag.atom("vector:error"))), dag.func("sqrt", dag.const(N)))
            if not dag.equal(first, w1):
                probs.append("the first figure is %s, expected sqrt(l2_norm_squared(error))/sqrt(%d)" % (dag.show(first, 80), N))
            if second is not dag.func("infinity_norm", dag.atom("vector:error")):
                probs.append("the second figure is %s, expected infinity_norm(error)" % dag.show(second, 80))
        if probs:
            ck.violation("R-C20-5", "computeExactError:%s" % probs[0].split(" ")[0], ir.locstr(fn), "%s: %s" % (sk, "; ".join(probs[:3])))
        else:
            ck.ok("R-C20-5", sk, sample={"shape": sk, "error[0]": dag.show(dag.lift(err.sym[0]), 80)})


def statistic_problems(mode, o):
    """compare the four accessors with what the property calls 'a well-defined function of that solve'"""
    from fractions import Fraction
    from gmg.terms import fn as tfn
    S = drv.S
    probs = []
    cc = o.converged_calls
    its = o.iterations
    tol = mode["abs_tol"] or mode["rel_tol"]
    acc = {k.split("::")[-1]: v for k, v in o.accessors.items()}
    stopped = bool(cc) and cc[-1]["result"] is True
    if not isinstance(its, int) or isinstance(its, bool):
        return ["numberOfIterations: the iteration count is %s, not a number determined by this path" % sr.describe(its)[:80]]
    want_its = (len(cc) - 1) if stopped else mode["max_iterations"]
    if its != want_its:
        probs.append("numberOfIterations: %d cycles were applied but number_of_iterations_ is %d" % (want_its, its))
    if acc.get("numberOfIterations") != its:
        probs.append("numberOfIterations: the accessor returns %s, the member holds %d" % (sr.describe(acc.get("numberOfIterations"))[:60], its))
    rho = acc.get("meanResidualReductionFactor")
    if its == 0 or not tol:
        if rho != Fraction(1) and rho != 1:
            probs.append("meanResidualReductionFactor: no reduction was measured on this path (iterations=%d, tolerances %s) but the accessor returns %s" % (its, "enabled" if tol else "disabled", sr.describe(rho)[:120]))
    else:
        n0 = cc[0]["args"][0]
        cands = [cc[-1]["args"][0]]
        ok = any(sr.scalar_equal(rho, S("pow", S("/", nk, n0), Fraction(1, its))) for nk in cands)
        if not ok:
            probs.append("meanResidualReductionFactor: expected (||r_k|| / ||r_0||)^(1/%d) with the first and the last residual norm measured in this solve, got %s" % (its, sr.describe(rho)[:300]))
    for name, head in (("exactErrorWeightedEuclidean", "errW"), ("exactErrorInfinity", "errInf")):
        v = acc.get(name)
        if isinstance(v, drv.OptVal) if hasattr(drv, "OptVal") else False:
            v = v.value if v.has else None
        n_err = len(o.exact_errors)
        if not mode["exact"] or n_err == 0:
            if v is not None and not (isinstance(v, tuple) and v and v[0] == "nullopt"):
                probs.append("%s: no error was measured on this path (exact solution %s, %d measurements) but the accessor returns %s" % (name, "given" if mode["exact"] else "absent", n_err, sr.describe(v)[:100]))
            continue
        if not (isinstance(v, tuple) and len(v) == 3 and v[0] == "s" and v[1] == head):
            probs.append("%s: expected the %s norm of the error of an iterate, got %s" % (name, "weighted Euclidean" if head == "errW" else "maximum", sr.describe(v)[:200]))
            continue
        arg = v[2]
        if stopped or (tol and cc):
            U = cc[-1]["solution"]
            if arg is not tfn("Err", 0, U):
                probs.append("%s: the figure is the error of %s, not of the iterate the last stop test examined (%s)" % (name, sr.describe(arg)[:160], "the returned solution" if stopped else "the last measured iterate"))
        if stopped and cc[-1]["solution"] is not o.solution:
            probs.append("%s: the stop test accepted an iterate that is not the returned solution" % name)
    return probs


def main(tier):
    ck = report.Check("C20", tier, level="other", technique="static definedness and value-flow analysis (scalar terms) of setup()+solve()+accessors per option mode against statistic oracles; structural option-table rules")
    ck.rule("R-C20-4", "statistics after solve(): iteration count == cycles applied; reduction factor == (||r_k||/||r_0||)^(1/k) of this solve's residual norms (1 when nothing was measured); error figures == weighted-l2 / max norm of the error of an iterate of this solve, the returned one whenever a tolerance stopped the loop; absent without exact solution", floor=100)
    ck.rule("R-C20-1", "every read on every mode path of setup()+solve()+accessors is defined (no uninitialised scalar, empty-list access, null input function, disabled optional, unallocated vector)", floor=100)
    prog = sr.load()
    ck.units += prog.units
    for qn in ["GMGPolar::solve", "GMGPolar::setup", "GMGPolar::initializeSolution", "GMGPolar::converged"] + sr.ACCESSORS:
        ck.analysed(prog.fn(qn))
    n_modes = n_paths = 0
    for mode in modes(tier):
        n_modes += 1
        what = "ext=%s FMG=%s abs=%s rel=%s exact=%s maxit=%d verbose=%d paraview=%s L=%d" % (
            EXT[mode["extrapolation"]], mode["FMG"], mode["abs_tol"], mode["rel_tol"], mode["exact"], mode["max_iterations"], mode["verbose"], mode["paraview"], mode["L"])
        outs = sr.scenario_fresh(prog, mode, with_accessors=True)
        for pi, o in enumerate(outs):
            n_paths += 1
            pk = "%s path%d" % (what, pi)
            ck.instance("R-C20-1", pk)
            evs = [ev for ev in o.dom.events if ev.kind in UB_KINDS]
            if o.throws:
                evs.append(drv.Event("throws", o.throws.site, "setup()/solve() throws '%s' in a mode that is not a mandated rejection" % o.throws.what, "GMGPolar::solve"))
            if evs:
                seen = set()
                for ev in evs:
                    var = ev.msg.split("'")[1] if "'" in ev.msg else ""
                    key = "%s:%s:%s" % (ev.kind, ev.fn.split("::")[-1], var)
                    if key in seen:
                        continue
                    seen.add(key)
                    ck.violation("R-C20-1", key, ev.site, "%s: %s (in %s)" % (pk, ev.msg, ev.fn))
            else:
                ck.ok("R-C20-1", pk, sample={"mode": what, "accessors": {k: sr.describe(v)[:60] for k, v in o.accessors.items()}} if n_paths % 101 == 1 else None)
            # ---- R-C20-4: what each statistic is a function of
            if not o.throws:
                ck.instance("R-C20-4", pk)
                sp = statistic_problems(mode, o)
                if sp:
                    ck.violation("R-C20-4", "statistic:%s" % sp[0].split(":")[0], ir.locstr(prog.fn("GMGPolar::solve")), "%s: %s" % (pk, "; ".join(sp)[:900]))
                else:
                    ck.ok("R-C20-4", pk)
    # ---- R-C20-6: enum options set through the setters to integers that are no enumerator (the command line rejects them, the
    # programming interface does not): either an exception, or a run on which every read is defined
    ck.rule("R-C20-6", "an enum option that holds an integer outside its enumerators (set through the API) is rejected with an exception or runs with every read defined", floor=12)
    bad_values = {"extrapolation": (4, 7, -1), "cycle": (3, -1), "FMG_cycle": (3, -1), "norm": (3, -1)}
    for opt, vals in bad_values.items():
        for v, fmg, L in itertools.product(vals, (False, True), (2, 3)):
            if tier == "quick" and L == 3 and opt != "extrapolation":
                continue
            mode = {"L": L, "FMG": fmg, "FMG_iterations": 1, "FMG_cycle": 0, "extrapolation": 0, "cycle": 0, "nu1": 1, "nu2": 1,
                    "max_iterations": 1, "abs_tol": True, "rel_tol": True, "exact": False, "norm": 0, "verbose": 0, "paraview": False}
            mode[opt] = v
            what = "%s=%d FMG=%s L=%d" % (opt, v, fmg, L)
            ck.instance("R-C20-6", what)
            try:
                outs = sr.scenario_fresh(prog, mode, with_accessors=True)
            except ir.AnalysisBroken as ex:
                ck.undecide("R-C20-6", what, "outside the driver model: %s" % str(ex)[:120])
                continue
            bad = None
            for o in outs:
                if o.throws:
                    continue        # rejected cleanly
                evs = [ev for ev in o.dom.events if ev.kind in UB_KINDS]
                if evs:
                    bad = evs[0]
                    break
            if bad:
                ck.violation("R-C20-6", "invalid-enum:%s:%s" % (opt, bad.kind), bad.site, "%s: not rejected, and %s (in %s)" % (what, bad.msg, bad.fn))
            else:
                ck.ok("R-C20-6", what, sample={"mode": what, "outcome": "rejected: %s" % outs[0].throws.what[:60] if outs and outs[0].throws else "runs, every read defined"} if (opt, v, fmg, L) == ("extrapolation", 7, False, 2) else None)
    exact_error_table(ck, tier)
    ck.extra["modes"] = n_modes
    ck.extra["paths"] = n_paths
    try:
        from gmg import struct_options
        struct_options.check(ck, tier)
    except ImportError:
        ck.note("R-C20-2/3 (option tables, mandated rejections) not built yet")
    return ck.finish(
        "setup()+solve() and the four statistics accessors are interpreted from /repo's source for the option cross product "
        "{extrapolation} x {FMG} x {abs/rel tolerance enabled or disabled} x {exact solution present} x {0,1,2 iterations} x {verbose} x "
        "{paraview}, every stop-test outcome explored. Locals without initialiser and members without in-class initialiser start "
        "UNDEF; reading UNDEF, indexing a list beyond what this path pushed, dereferencing a null input function or unwrapping a "
        "disabled tolerance is reported with the path. This is a definedness analysis of the driver only; memory safety of the "
        "numerical kernels is outside it.",
        trusted_base=["clang 14 front end", "gmgir lowering", "operator signature table"],
        assumptions=["NDEBUG build (assert compiled out), as shipped"])


if __name__ == "__main__":
    report.run(main, "C20")
