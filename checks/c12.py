"""C12 — results are reproducible and thread-count independent (decided part: schedule-independence of vector outputs).

R-C12-1: in every parallel region (interpreted as in C11) each output element is written, within one barrier group, by at most
         one unit of work, and barrier groups are totally ordered by the program text: the sequence of updates applied to an
         element is a function of the code path, not of timing or of the thread count.
R-C12-2: nothing timing-dependent can flow into a vector or coefficient table: floating-point reductions are produced only by
         the scalar kernels, with a static schedule, and their call sites store the results in scalars (stop test), never in
         an array element.  (A dynamic schedule, an atomic or a critical section on a loop whose iterations write disjoint
         elements changes no result and is not reported; several updates of one element in one barrier group are R-C12-1's,
         atomic or not.  omp_get_thread_num() is outside the model: undecided, not a violation.)
R-C12-4: no scalar is carried from one iteration of a worksharing loop to a later one (a running counter, a "previous"
         value): iterations are handed to threads in chunks, so such a value depends on thread count and schedule even when
         the variable is thread-private and there is no data race.
R-C12-3: the element-wise vector kernels compute their mathematical definition element by element (exact tables).
Not decided: the size of the re-association difference of the scalar reductions between thread counts; rounding.
"""
from gmg import dag, eff_runs, ir, opsdom, report, structq, symdom
from gmg.interp import Cell, Interp
from gmg.symdom import SArr


def main(tier):
    ck = report.Check("C12", tier, level="other", technique="static effect analysis (one writer per element per barrier group, fixed group order) + structural taint rules on OpenMP clauses and reduction results")
    ck.rule("R-C12-1", "each element written by at most one unit per barrier group; groups ordered by program text", floor=60)
    ck.rule("R-C12-2", "floating-point reductions only in the scalar kernels, statically scheduled, results stay scalar", floor=10)
    ck.rule("R-C12-4", "no loop-carried scalar in a worksharing loop (a value read in an iteration that an earlier iteration wrote, outside a reduction)", floor=60)
    ck.rule("R-C12-3", "element-wise and reduction kernels equal their definition (exact values); no out-of-range access", floor=3)
    prog = eff_runs.load()
    ck.units += prog.units
    shapes = [(7, 8, 3, False), (9, 8, 4, True), (7, 12, 2, False)] if tier == "quick" else [(7, 8, 3, False), (9, 8, 4, True), (7, 12, 2, False), (11, 16, 5, False), (9, 4, 6, True), (13, 20, 4, True)]
    n = 0
    for shp in shapes:
        sk = "nr=%d ntheta=%d nsc=%d DirBC=%s" % shp
        regs, notes, S = eff_runs.run_shape(prog, *shp, give_flags=((False, False),) if tier == "quick" else ((False, False), (True, False), (False, True)))
        for qn, f in getattr(S.dom, "visited", {}).items():
            if not qn.startswith(("std::", "__gnu")):
                ck.analysed(f)
        for label, r in regs:
            n += 1
            key = "%s @%s %s" % (label, r.site, sk)
            ck.instance("R-C12-1", key)
            bad = None
            by = {}
            for (aid, name, idx, w, site, group, cur) in r.effects:
                if w:
                    by.setdefault((aid, name, idx, group), set()).add(cur)
            for (aid, name, idx, group), units in by.items():
                if len(units) > 1 or None in units:
                    bad = (name, idx, group, len(units))
                    break
            if bad is None:
                # floating-point scalars accumulated under atomic / in a critical section by several units of work
                byp = {}
                for name, site, group, cur, is_int, prot in getattr(r, "protected_scalar_writes", []):
                    if not is_int:
                        byp.setdefault((name, group), set()).add(cur)
                for (name, group), units in byp.items():
                    if len(units) > 1 or None in units:
                        bad = (name, "(scalar, updated under atomic/critical)", group, len(units))
                        break
            dyn = getattr(r, "schedule", None)
            # R-C12-4: a scalar that one iteration of a worksharing loop reads after an EARLIER iteration wrote it: iterations are
            # handed to threads in chunks, so the value depends on the thread count and the schedule (running counters, "previous"
            # values); reduction variables are combined by the runtime and are exempt
            ck.instance("R-C12-4", key, nontrivial=bool(r.loops))
            if r.carried:
                nm, at, lp = r.carried[0]
                ck.violation("R-C12-4", "%s:%s" % (r.fn.split("(")[0], nm), at, "%s: the variable `%s` is read at %s in an iteration of the worksharing loop at %s after an earlier iteration wrote it: its value depends on which iterations the executing thread was given" % (sk, nm, at, lp))
            else:
                ck.ok("R-C12-4", key)
            if bad:
                ck.violation("R-C12-1", "%s:%s" % (r.fn.split("(")[0], bad[0].split("#")[0]), r.site,
                             "%s: element %s of %s is written by %d units of work in barrier group %s: the order of the updates depends on the schedule" % (sk, bad[1], bad[0], bad[3], bad[2]))
            else:
                # a non-static schedule changes which thread runs an iteration, not what the iteration writes: with one writer per
                # element and group it cannot change a vector output (it matters only together with a reduction: R-C12-2)
                ck.ok("R-C12-1", key, sample={"region": r.site, "elements written": len(by)} if n % 29 == 1 else None)
    # ---------------- structural rules over the whole library
    whole = ir.load()
    # R-C12-1 on the parallel loops that live in the driver (rhs build/discretisation, exact error, extrapolated residual) and
    # in Vector's copies: the same one-writer rule
    for label, r in eff_runs.run_driver_loops(whole):
        key = "%s @%s" % (label, r.site)
        ck.instance("R-C12-1", key)
        by = {}
        for (aid, name, idx, w, site, group, cur) in r.effects:
            if w:
                by.setdefault((aid, name, idx, group), set()).add(cur)
        bad = None
        for (aid, name, idx, group), units in by.items():
            if len(units) > 1 or None in units:
                bad = (name, idx, group, units)
                break
        if bad:
            why = ("by every thread of the team (replicated code%s)" % (": the parallel construct at %s is nested in the region, so each thread of the outer team executes all of it" % r.nested_sites[0] if getattr(r, "nested_sites", None) else "")) if None in bad[3] else "by %d units of work" % len(bad[3])
            ck.violation("R-C12-1", "%s:%s" % (label, bad[0].split("#")[0]), r.site, "%s: element %s of %s is written %s in barrier group %s: the result depends on the thread count and the schedule" % (label, bad[1], bad[0], why, bad[2]))
        else:
            ck.ok("R-C12-1", key)
        if r.carried:
            nm, at, lp = r.carried[0]
            ck.fail("R-C12-4", "%s:%s" % (label, nm), at, "%s: the variable `%s` is read at %s in an iteration of the worksharing loop at %s after an earlier iteration wrote it" % (label, nm, at, lp))
    RED_OK = ("dot_product", "l1_norm", "l2_norm_squared", "infinity_norm")
    n_omp = 0
    red_fns = set()
    for qn, fns in whole.functions.items():
        for f in fns:
            for node in ir.walk(f["body"]):
                if node.get("k") == "Omp":
                    n_omp += 1
                    key = "%s @%s" % (qn, ir.locstr(node))
                    ck.instance("R-C12-2", key, nontrivial=(n_omp <= 40))
                    probs = []
                    # atomic/critical/ordered by themselves do not make a result timing dependent; what does is several units of
                    # work updating one floating-point location in one barrier group, which R-C12-1 reports whether or not the
                    # updates are atomic.  A non-static schedule matters only where partial results are formed per thread.
                    has_red = any(c.get("ck") == "reduction" for c in node.get("clauses", []))
                    for c in node.get("clauses", []):
                        if c.get("ck") == "schedule" and c.get("kind") not in ("static",) and has_red:
                            probs.append("schedule(%s) on a reduction: the grouping of the partial sums changes from run to run at a fixed thread count" % c.get("kind"))
                        if c.get("ck") == "reduction":
                            red_fns.add(qn)
                            base = qn.split("<")[0].split("::")[-1]
                            if base not in RED_OK and not (qn == "CulhamGeometry::my_sum"):
                                probs.append("floating-point reduction outside the scalar vector kernels")
                    if probs:
                        ck.violation("R-C12-2", "%s:%s" % (qn.split("(")[0], probs[0].split("(")[0].replace(" ", "-")), ir.locstr(node), "%s: %s" % (qn, "; ".join(probs)))
                    else:
                        ck.ok("R-C12-2", key)
                if node.get("k") == "Call" and node.get("callee", "").startswith("omp_get_thread_num"):
                    ck.undecide("R-C12-2", "%s @%s" % (qn, ir.locstr(node)), "%s reads omp_get_thread_num(): units of work are not threads in this analysis, a thread-id dependent value cannot be decided" % qn)
    # the declared reduction operator is the operation the loop body applies to the reduction variable (otherwise the
    # per-thread partial results are combined with the wrong operation as soon as the loop really runs in parallel)
    def body_ops(body, vid):
        """set of combining operations the body applies to variable vid: '+', '*', '-', 'max', 'min', or '?<text>'"""
        ops = set()
        for s_, guards in structq.stmts_with_guards(body):
            for e_ in structq.exprs_of_stmt(s_):
                for n_ in ir.walk(e_):
                    tgt = None
                    if n_.get("k") == "Assign" and n_["a"].get("k") == "Ref" and n_["a"].get("id") == vid:
                        op = n_.get("op")
                        if op in ("+=", "-=", "*="):
                            ops.add(op[0] if op != "-=" else "+")
                            continue
                        rhs = n_["b"]
                        while rhs.get("k") in ("Paren", "Cast") and rhs.get("e"):
                            rhs = rhs["e"]
                        if rhs.get("k") == "Call" and conc_strip(rhs.get("callee", "")) in ("std::max", "std::min", "std::fmax", "std::fmin", "fmax", "fmin"):
                            ops.add("max" if "max" in rhs["callee"] else "min")
                            continue
                        if rhs.get("k") == "Bin" and rhs.get("op") in ("+", "*") and any(x.get("k") == "Ref" and x.get("id") == vid for x in (rhs["a"], rhs["b"])):
                            ops.add(rhs["op"])
                            continue
                        # plain assignment under a guard comparing a candidate with the variable: a running max/min
                        got = None
                        for cond, pol, _ in guards:
                            c_ = cond
                            while c_.get("k") == "Paren":
                                c_ = c_["e"]
                            if c_.get("k") == "Bin" and c_.get("op") in (">", ">=", "<", "<="):
                                a_is = c_["a"].get("k") == "Ref" and c_["a"].get("id") == vid
                                b_is = c_["b"].get("k") == "Ref" and c_["b"].get("id") == vid
                                if a_is or b_is:
                                    greater = c_["op"] in (">", ">=")
                                    # (cand > var) true  -> max ; (var > cand) true -> min
                                    is_max = (greater and b_is) or (not greater and a_is)
                                    if pol is False:
                                        is_max = not is_max
                                    got = "max" if is_max else "min"
                        ops.add(got or "?plain assignment")
        return ops

    from gmg.conc import strip_targs as conc_strip
    OPNAME = {"operator+": "+", "+": "+", "operator*": "*", "*": "*", "operator-": "+", "-": "+", "max": "max", "min": "min"}
    for qn, fns in whole.functions.items():
        for f in fns:
            for node in ir.walk(f["body"]):
                if node.get("k") != "Omp":
                    continue
                for c in node.get("clauses", []):
                    if c.get("ck") != "reduction":
                        continue
                    for v in c.get("vars", []):
                        key = "reduction(%s:%s) in %s" % (c.get("op"), v.get("name"), qn)
                        ck.instance("R-C12-2", key)
                        want = OPNAME.get(c.get("op"))
                        ops = body_ops(node["body"], v.get("id")) if node.get("body") is not None else set()
                        if want is None:
                            ck.undecide("R-C12-2", key, "reduction operator %s outside the rule's vocabulary" % c.get("op"))
                        elif ops != {want}:
                            ck.violation("R-C12-2", "%s:reduction-operator" % qn.split("<")[0], ir.locstr(node),
                                         "%s declares reduction(%s : %s) but the loop body combines %s with %s: the per-thread partial results are merged with the wrong operation whenever the loop runs in parallel" % (
                                             qn, c.get("op"), v.get("name"), v.get("name"), sorted(ops) or "nothing"))
                        else:
                            ck.ok("R-C12-2", key, sample={"kernel": qn, "clause": "reduction(%s : %s)" % (c.get("op"), v.get("name")), "body applies": want})
    # call sites of reduction kernels: result must stay scalar
    cg = structq.CallGraph(whole)
    for rf in sorted(red_fns):
        if rf == "CulhamGeometry::my_sum":
            ck.instance("R-C12-2", "my_sum unreachable")
            if cg.callers.get(rf):
                ck.violation("R-C12-2", "my_sum:called", ir.locstr(whole.fns(rf)[0]), "CulhamGeometry::my_sum (parallel floating-point reduction) is now called by %s: Culham tables become schedule dependent" % sorted(cg.callers[rf]))
            else:
                ck.ok("R-C12-2", "my_sum unreachable")
            continue
        for caller in sorted(cg.callers.get(rf, ())):
            for f in whole.fns(caller):
                for s, guards in structq.stmts_with_guards(f["body"]):
                    for e in structq.exprs_of_stmt(s):
                        if not any(structq.callee_of(c) == rf for c in structq.calls_in(e)):
                            continue
                        key = "%s result in %s @%s" % (rf, caller, ir.locstr(s))
                        ck.instance("R-C12-2", key)
                        bad = False
                        for tgt, node in structq.writes_in_expr(e):
                            if tgt.get("k") in ("Index",) or (tgt.get("k") == "OpCall" and tgt.get("op") == "[]"):
                                if any(structq.callee_of(c) == rf for c in structq.calls_in(node)):
                                    bad = True
                        if bad:
                            ck.violation("R-C12-2", "%s:reduction-into-vector" % caller, ir.locstr(s), "%s stores the result of the parallel reduction %s into an array element" % (caller, rf))
                        else:
                            ck.ok("R-C12-2", key)
    # ---------------- R-C12-3 element-wise kernels
    dom = opsdom.OpsDomain(whole, threads=2)
    it = Interp(whole, dom)
    N = 7
    A = lambda: SArr("a", N, gen=lambda j: dag.atom("a_%d" % j))
    B = lambda: SArr("b", N, gen=lambda j: dag.atom("b_%d" % j))
    s1, s2 = dag.atom("s1"), dag.atom("s2")
    specs = [("assign<double>", 2, lambda a, b: [Cell(a), s1], lambda j: s1),
             ("add<double>", 2, lambda a, b: [Cell(a), Cell(b)], lambda j: dag.atom("a_%d" % j) + dag.atom("b_%d" % j)),
             ("subtract<double>", 2, lambda a, b: [Cell(a), Cell(b)], lambda j: dag.atom("a_%d" % j) - dag.atom("b_%d" % j)),
             ("multiply<double>", 2, lambda a, b: [Cell(a), s1], lambda j: dag.atom("a_%d" % j) * s1),
             ("linear_combination<double>", 4, lambda a, b: [Cell(a), s1, Cell(b), s2], lambda j: s1 * dag.atom("a_%d" % j) + s2 * dag.atom("b_%d" % j))]
    for nm, npar, mk, want in specs:
        fns = [f for f in whole.fns(nm) if len(f["params"]) == npar]
        if not fns:
            ck.note("vector kernel %s is not instantiated in the library build (only the unit tests use it): outside what the build covers" % nm)
            continue
        ck.instance("R-C12-3", nm)
        a, b = A(), B()
        n_oob = len(dom.oob)
        it.call_function(fns[0], None, mk(a, b))
        bad = [j for j in range(N) if not dag.equal(a.sym.get(j, dag.atom("a_%d" % j)), want(j))]
        if dom.oob[n_oob:]:
            ck.violation("R-C12-3", nm.split("<")[0], ir.locstr(fns[0]), "%s: out-of-range access %s[%s] (length %s) at %s" % ((nm,) + tuple(dom.oob[n_oob])))
        elif bad or len(set(a.writes)) != N:
            ck.violation("R-C12-3", nm.split("<")[0], ir.locstr(fns[0]), "%s: element %s is %s, expected %s" % (nm, bad[:1], dag.show(a.sym.get(bad[0])) if bad else None, dag.show(want(bad[0])) if bad else None))
        else:
            ck.ok("R-C12-3", nm, sample={"kernel": nm, "element 0": dag.show(a.sym[0])})
    # the scalar reduction kernels against their definitions (exact values; the order of the partial sums is not decided)
    from fractions import Fraction
    red_specs = [
        ("l2_norm_squared<double>", 1, lambda a, b: [Cell(a)], lambda: dag.total(dag.atom("a_%d" % j) * dag.atom("a_%d" % j) for j in range(N)), "sum of squares"),
        ("dot_product<double>", 2, lambda a, b: [Cell(a), Cell(b)], lambda: dag.total(dag.atom("a_%d" % j) * dag.atom("b_%d" % j) for j in range(N)), "sum of products"),
        ("l1_norm<double>", 1, lambda a, b: [Cell(a)], lambda: dag.total(dag.func("fabs", dag.atom("a_%d" % j)) for j in range(N)), "sum of absolute values"),
    ]
    for nm, npar, mk, want, what in red_specs:
        fns = [f for f in whole.fns(nm) if len(f["params"]) == npar]
        if not fns:
            ck.note("vector kernel %s is not instantiated in the library build: outside what the build covers" % nm)
            continue
        ck.instance("R-C12-3", nm)
        a, b = A(), B()
        n_oob = len(dom.oob)
        try:
            got = it.call_function(fns[0], None, mk(a, b))
        except ir.AnalysisBroken as ex:
            ck.undecide("R-C12-3", nm, "kernel outside the value model: %s" % ex)
            continue
        probs = []
        if dom.oob[n_oob:]:
            probs.append("out-of-range access %s[%s] (length %s) at %s" % dom.oob[n_oob])
        if not isinstance(got, dag.Node) or not dag.equal(got, want()):
            probs.append("returns %s, not the %s" % (dag.show(got, 120) if isinstance(got, dag.Node) else got, what))
        if probs:
            ck.violation("R-C12-3", nm.split("<")[0], ir.locstr(fns[0]), "%s: %s" % (nm, "; ".join(probs)))
        else:
            ck.ok("R-C12-3", nm, sample={"kernel": nm, "value": what})
    # a floating-point scalar accumulated under atomic / in a critical section inside a kernel: race free, but the order of the
    # additions is the schedule's at a fixed thread count (a reduction clause with a static schedule fixes it)
    for r in dom.regions:
        byp = {}
        for name, site, group, cur, is_int, prot in getattr(r, "protected_scalar_writes", []):
            if not is_int:
                byp.setdefault((name, group), set()).add((cur, site))
        for (name, group), ws in byp.items():
            if len(set(u for u, _ in ws)) > 1:
                ck.fail("R-C12-2", "%s:atomic-accumulation" % r.fn.split("(")[0].split("<")[0], sorted(x for _, x in ws)[0],
                        "%s: the floating-point variable `%s` is updated under atomic/critical by %d units of work of the region at %s: the order of the additions, hence the rounded result, changes from run to run" % (
                            r.fn, name.split("#")[0], len(set(u for u, _ in ws)), r.site))
    # infinity norm: max |x_i| on constant vectors whose extreme entry sits first, last, in the middle, and is negative
    fns = [f for f in whole.fns("infinity_norm<double>") if len(f["params"]) == 1]
    if fns:
        for vec in ([9, -1, 2, 3, -4, 5, 6], [1, 2, 3, -4, 5, 6, -11], [1, 2, -13, 4, 5, 6, 7], [Fraction(1, 2), Fraction(-3, 4), Fraction(1, 4), 0, 0, 0, 0]):
            key = "infinity_norm<double> %s" % (vec,)
            ck.instance("R-C12-3", key)
            a = SArr("a", len(vec), gen=lambda j, v=vec: dag.const(v[j]))
            n_oob = len(dom.oob)
            try:
                got = it.call_function(fns[0], None, [Cell(a)])
            except ir.AnalysisBroken as ex:
                ck.undecide("R-C12-3", key, "kernel outside the value model: %s" % ex)
                continue
            want_v = max(abs(Fraction(v)) for v in vec)
            g = dag.lift(got) if isinstance(got, (dag.Node, int, Fraction)) else None
            if dom.oob[n_oob:] or g is None or g.op != "c" or g.a != want_v:
                ck.violation("R-C12-3", "infinity_norm", ir.locstr(fns[0]), "%s returns %s, expected %s%s" % (key, dag.show(g) if g is not None else got, want_v,
                             "; out-of-range access %s[%s] (length %s) at %s" % dom.oob[n_oob] if dom.oob[n_oob:] else ""))
            else:
                ck.ok("R-C12-3", key)
    ck.extra["omp_directives"] = n_omp
    return ck.finish(
        "Schedule-independence of every vector output is decided from the same effect logs as C11: within a barrier group an element "
        "has at most one writing unit of work, and groups are ordered by the program text, so each element receives the same sequence "
        "of floating-point updates whatever the thread count or timing. Structural rules exclude every construct whose result depends on "
        "timing (dynamic schedules, atomics, critical sections, thread ids) and confine floating-point reductions to the scalar kernels, "
        "whose results the library stores in scalars only. What differs between thread counts is therefore at most the association inside "
        "those scalar reductions; its size is a numerical matter and not decided.",
        trusted_base=["as C11"],
        assumptions=["static scheduling is the OpenMP default for loops without a schedule clause in the implementations the project targets; "
                     "a different default still cannot change vector outputs because of the one-writer rule"])


if __name__ == "__main__":
    report.run(main, "C12")
