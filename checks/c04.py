"""C04 — the coarse-grid direct solve inverts exactly the operator the residual applies (structural part).

R-C04-1: assembled solver matrix table == residual operator table, for the give and the take strategy (hence all four agree
         with C03).  The LU arithmetic itself is numerical and not decided (C16 not applicable).
R-C04-2: CSR slot discipline: every slot of every row receives exactly one column index (all writers of a slot agree), no
         column appears twice in a row, row pointers/nnz/stencil sizes agree, no out-of-range slot.
R-C04-3: the solver object factorises the matrix it assembled and solveInPlace hands the caller's vector to that factorisation.
"""
import itertools

from gmg import dag, ir, opsdom, report, structq, tab_ops
from gmg.interp import Cell


def shapes(tier):
    if tier == "quick":
        return [(5, 4, 2, False), (6, 8, 3, True), (7, 8, 2, False), (5, 8, 0, True), (5, 4, 0, False), (5, 4, 5, False), (7, 12, 3, False)]
    return [(nr, nt, nsc, d) for nr, nt in ((5, 4), (6, 8), (7, 8), (9, 12)) for nsc in sorted(set((0, 2, 3, nr - 1, nr))) for d in (False, True)]


def main(tier):
    ck = report.Check("C04", tier, level="proof", technique="symbolic interpretation of the direct-solver matrix assembly into exact CSR tables, compared with the residual operator table by identity testing; structural rules for the solve path")
    ck.rule("R-C04-1", "assembled matrix table == residual operator table (give, take)", floor=8)
    ck.rule("R-C04-2", "CSR slot discipline (one column per slot, no duplicate column, sizes agree)", floor=8)
    ck.rule("R-C04-3", "the constructor factorises exactly the matrix it assembled; solveInPlace(x) hands x, whole and unmodified, to that factorisation", floor=8)
    prog = tab_ops.load()
    ck.units += prog.units
    for cls in ("DirectSolverGiveCustomLU", "DirectSolverTakeCustomLU"):
        for m in ("buildSolverMatrix", "buildSolverMatrixCircleSection", "buildSolverMatrixRadialSection", "getStencil", "getStencilSize", "solveInPlace"):
            ck.analysed(prog.fn("%s::%s" % (cls, m)))
    # variants: the parallel and the sequential assembly path with both caches; for give also the other three cache-flag
    # combinations (take is rejected without both caches)
    VARIANTS = [(2, (True, True)), (1, (True, True)), (2, (True, False)), (2, (False, True)), (2, (False, False))]
    for (nr, nt, nsc, dirbc), (threads, flags) in itertools.product(shapes(tier), VARIANTS):
        S = tab_ops.Setting(prog, nr, nt, nsc, dirbc, threads=threads)
        sk = S.key() + (" threads=1 (sequential assembly path)" if threads == 1 else "") + ("" if flags == (True, True) else " caches=(%s,%s)" % flags)
        for cls, rcls in (("DirectSolverGiveCustomLU", "ResidualGive"), ("DirectSolverTakeCustomLU", "ResidualTake")):
            if flags != (True, True) and cls != "DirectSolverGiveCustomLU":
                continue
            key = "%s %s" % (cls, sk)
            site = ir.locstr(prog.fn(cls + "::buildSolverMatrix"))
            n_oob = len(S.dom.oob)
            # the full constructor: base-class initialisers, buildSolverMatrix(), and the (summarised) factorisation
            obj = opsdom.operator(prog, S.dom, cls, S.grid, S.cache(*flags), S.geom, S.coef, dirbc, threads)
            M = obj.f["solver_matrix_"].get()
            T, probs = opsdom.csr_table(M)
            ck.instance("R-C04-2", key)
            cols = M.f["column_indices_"].get()
            for slot, vals in getattr(cols, "wlog", {}).items():
                if len(vals) > 1:
                    probs.append("CSR slot %d receives different column indices %s from different writers" % (slot, sorted(vals)))
                    break
            nnz = M.f["nnz_"].get()
            unwritten = [k for k in range(nnz) if k not in getattr(cols, "wlog", {})]
            if unwritten:
                probs.append("%d CSR slots never receive a column index (first: %d)" % (len(unwritten), unwritten[0]))
            if len(S.dom.oob) > n_oob:
                o = S.dom.oob[n_oob]
                probs.append("out-of-range access %s[%s] (length %s) at %s" % o)
            if M.f["rows_"].get() != S.N or M.f["columns_"].get() != S.N:
                probs.append("matrix is %s x %s for %d unknowns" % (M.f["rows_"].get(), M.f["columns_"].get(), S.N))
            if probs:
                ck.violation("R-C04-2", "%s:%s" % (cls, probs[0].split(" ")[0] + "-" + probs[0].split(" ")[1]), site, "%s: %s" % (key, probs[0]))
            else:
                ck.ok("R-C04-2", key, sample={"solver": cls, "shape": sk, "nnz": nnz})
            ck.instance("R-C04-1", key)
            A, rp, regs = S.residual(rcls, S.cache(True, True))
            # explicit zeros in the matrix are fine: compare as functions
            Tz = {i: {c: v for c, v in row.items() if not dag.is_zero(v)} for i, row in T.items()}
            d = tab_ops.diff_tables(Tz, A)
            if d:
                i, c, a, b = d[0]
                ck.violation("R-C04-1", "%s:differs-from-residual" % cls, site, "%s: row %s (r,theta=%s) column %s (r,theta=%s): the solver matrix has %s, the residual operator applies %s" % (
                    key, i, S.rt(i), c, S.rt(c) if c is not None else None, a, b))
            else:
                ck.ok("R-C04-1", key)
            # ---- R-C04-3 (semantic): what is factorised is what was assembled; the solve goes through that factorisation
            ck.instance("R-C04-3", key)
            p3 = []
            lu = obj.f["lu_solver_"].get() if "lu_solver_" in obj.f else None
            ft = lu.f["__factorised_table"].get() if lu is not None and hasattr(lu, "f") and "__factorised_table" in lu.f else None
            if ft is None:
                p3.append("the constructor does not build lu_solver_ from a matrix")
            else:
                dd = [(r, c) for r in set(T) | set(ft[1]) for c in set(T.get(r, {})) | set(ft[1].get(r, {}))
                      if not dag.equal(dag.lift(T.get(r, {}).get(c, dag.ZERO)), dag.lift(ft[1].get(r, {}).get(c, dag.ZERO)))]
                if dd:
                    p3.append("the LU was factorised (at %s) from a matrix that differs from solver_matrix_ as assembled, first at entry %s: factorisation before the assembly, or of another matrix" % (ft[3], dd[0]))
            from gmg.symdom import SArr
            from gmg.dag import Lin
            xv = SArr("x", S.N, gen=lambda j: Lin.var(("b", j)))
            n_calls = len(S.dom.solver_calls)
            S.it.call_function(prog.fn(cls + "::solveInPlace"), obj, [Cell(xv)])
            calls = S.dom.solver_calls[n_calls:]
            if len(calls) != 1 or calls[0]["solver"] is not lu or calls[0]["arr"] is not xv or calls[0]["off"] != 0 or calls[0]["n"] != S.N:
                p3.append("solveInPlace(x) does not hand exactly x[0..%d) to the factorisation built by the constructor (%d solver calls%s)" % (
                    S.N, len(calls), "" if not calls else ", range [%d,%d) of %s" % (calls[0]["off"], calls[0]["off"] + calls[0]["n"], calls[0]["arr"].name)))
            else:
                rows = calls[0]["rows"]
                for j in range(S.N):
                    v = rows[j]
                    if not (isinstance(v, Lin) and set(v.t) == {("b", j)} and dag.equal(v.t[("b", j)], dag.ONE) and dag.is_zero(v.c)):
                        p3.append("the right-hand side reaches the solver modified at entry %d" % j)
                        break
            if p3:
                ck.violation("R-C04-3", "%s:solve-path" % cls, ir.locstr(prog.fn(cls + "::solveInPlace")), "%s: %s" % (key, "; ".join(p3)))
            else:
                ck.ok("R-C04-3", key)
    return ck.finish(
        "buildSolverMatrix (both strategies, including the stencil offset maps, getStencilSize and the SparseMatrixCSR constructor it "
        "uses) is interpreted from source on representative grids down to the smallest admissible ones; the resulting CSR object is "
        "read back as an exact table and compared entry by entry with the residual operator's table (C03). Slot discipline is checked "
        "on the recorded writes of the column-index array. That LU without pivoting then solves the system accurately is numerical "
        "and not decided.",
        trusted_base=["clang 14 front end", "gmgir lowering", "own IR interpreter", "identity testing by exact rational evaluation at 4 pseudo-random points"],
        assumptions=["accuracy of the sparse LU is outside (C16 not applicable)"])


if __name__ == "__main__":
    report.run(main, "C04")
