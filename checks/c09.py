"""C09 — FMG: nested iteration from the coarsest level (DRV part) and interpolation weights (TAB part).

R-C09-2: in every FMG mode the level-0 iterate after initializeSolution() equals the nested-iteration
         oracle (coarsest direct solve, then per level: interpolate, k cycles) and contains no stale leaf.
R-C09-3: f_l = D_l(Inj^l f_raw) on every level the mode reads; allocation/initialisation tables agree with
         what the start-up reads (no unallocated vector, no uninitialised operator).
R-C09-4: the same on a previously used solver object (setup(); solve(); solve()): every work vector and every member
         the first solve wrote is history; the second start vector must be the same term and no branch of the
         start-up may read history.
R-C09-1: FMG interpolation weight tables (see tab_transfer) — copy at coarse nodes, sum 1, cubic exactness.
"""
import itertools
import sys

from gmg import drv, ir, report, solve_runs as sr
from gmg.oracle import Oracle, setup_rhs
from gmg.terms import LC, has_kind, show

KN = {0: "V", 1: "W", 2: "F"}
EXT = {0: "NONE", 1: "IMPLICIT", 2: "FULL_GRID", 3: "COMBINED"}


def fmg_modes(tier):
    if tier == "quick":
        Ls, ks, nus, exts, kinds = [2, 3, 4], [0, 1, 2], [(1, 1)], [0, 1, 3], [0, 1, 2]
    else:
        Ls, ks, nus, exts, kinds = [2, 3, 4, 5], [0, 1, 2, 3], [(1, 1), (0, 0), (2, 1)], [0, 1, 2, 3], [0, 1, 2]
    for L, k, (n1, n2), ext, kind in itertools.product(Ls, ks, nus, exts, kinds):
        if k == 0 and kind != 0:
            continue
        if L == 5 and (k > 1 or (n1, n2) != (1, 1)):
            continue  # W/F-cycle terms on 5 levels grow exponentially with k; L=5 adds no new level predicate beyond L=4
        if k == 3 and L > 3:
            continue
        yield {"L": L, "FMG": True, "FMG_iterations": k, "FMG_cycle": kind, "extrapolation": ext, "cycle": 0, "nu1": n1, "nu2": n2,
               "max_iterations": 0, "abs_tol": True, "rel_tol": True, "exact": False}


def reuse_modes(tier):
    if tier == "quick":
        Ls, ks, exts, kinds = [2, 3], [1], [0, 1, 2, 3], [0, 2]
    else:
        Ls, ks, exts, kinds = [2, 3, 4], [0, 1, 2], [0, 1, 2, 3], [0, 1, 2]
    for L, k, ext, kind in itertools.product(Ls, ks, exts, kinds):
        if k == 0 and kind != 0:
            continue
        yield {"L": L, "FMG": True, "FMG_iterations": k, "FMG_cycle": kind, "extrapolation": ext, "cycle": 0, "nu1": 1, "nu2": 1,
               "max_iterations": 0, "abs_tol": True, "rel_tol": True, "exact": False, "norm": 0}


def main(tier):
    ck = report.Check("C09", tier, level="other", technique="static value-flow analysis (Herbrand terms) of setup()+initializeSolution() against the nested-iteration recursion; CAS moment conditions on extracted weight tables")
    ck.rule("R-C09-2", "level-0 iterate after FMG start-up == nested-iteration oracle, no stale leaf", floor=20)
    ck.rule("R-C09-3", "per-level rhs == D_l(Inj^l f_raw); every vector/operator the start-up uses is allocated/initialised by setup()", floor=20)
    prog = sr.load()
    ck.units += prog.units
    for qn in ("GMGPolar::setup", "GMGPolar::initializeSolution", "GMGPolar::FMGInterpolation", "Level::Level"):
        for f in prog.fns(qn):
            ck.analysed(f)
    n = 0
    sampled = 0
    for mode in fmg_modes(tier):
        n += 1
        what = "L=%d k=%d fmg_cycle=%s ext=%s nu=(%d,%d)" % (mode["L"], mode["FMG_iterations"], KN[mode["FMG_cycle"]], EXT[mode["extrapolation"]], mode["nu1"], mode["nu2"])
        outs = sr.scenario_fresh(prog, mode, with_accessors=False, only_init=True)
        if not outs:
            raise ir.AnalysisBroken("no path through setup()/initializeSolution in mode %s" % what)
        # usually one path; a branch on something the driver model does not know (an option added later) gives several, and
        # every one of them must produce the same start vector
        for o in outs:
          dom = o.dom
          L = mode["L"]
          ext = mode["extrapolation"] != 0
          fgs = mode["extrapolation"] in (0, 2, 3)
          want_rhs = setup_rhs(L, True, ext)
          # ---- R-C09-3
          ck.instance("R-C09-3", what)
          probs = []
          for l in range(L):
              b = dom.rhs_after_setup.get((l, "rhs"))
              if b is None or not b["alloc"]:
                  probs.append("level %d has no right-hand side vector although FMG reads it" % l)
              elif b["val"] is not want_rhs[l]:
                  probs.append("rhs of level %d after setup is %s, expected %s" % (l, show(b["val"])[:200], show(want_rhs[l])[:200]))
          for ev in o.events:
              if ev.kind in ("unallocated", "uninitialised-operator", "oob-level", "wrong-level", "alias", "level-order"):
                  probs.append(repr(ev))
          if o.throws:
              probs.append("throws %s at %s" % (o.throws.what, o.throws.site))
          if probs:
              ck.violation("R-C09-3", "setup-rhs:%s" % probs[0][:60], "src/GMGPolar/setup.cpp", "%s: %s" % (what, "; ".join(probs)[:1200]))
          else:
              ck.ok("R-C09-3", what)
          # ---- R-C09-2
          ck.instance("R-C09-2", what)
          orc = Oracle(L, mode["nu1"], mode["nu2"], ext, fgs, want_rhs)
          want = orc.fmg(mode["FMG_cycle"], mode["FMG_iterations"])
          got = o.solution
          if got is want and not o.throws:
              smp = None
              if sampled < 3 and mode["FMG_iterations"] == 0:
                  sampled += 1
                  smp = {"mode": what, "start vector": show(got)[:300]}
              ck.ok("R-C09-2", what, sample=smp)
          else:
              bad = has_kind(got, ("stale", "clob")) if got is not None else []
              fn = prog.fn("GMGPolar::initializeSolution")
              ck.violation("R-C09-2", "initializeSolution:start-vector", ir.locstr(fn),
                           "%s: the finest-level start vector is\n      %s\n    but nested iteration from the coarsest level gives\n      %s%s" % (
                               what, show(got)[:500] if got is not None else None, show(want)[:500],
                               ("\n    (depends on history: %s)" % ", ".join(sorted(set(show(a) for a in bad)))) if bad else ""),
                           detail=dom.oplog[-40:])
    ck.extra["modes"] = n
    # ---- R-C09-4: the same start vector on a previously used solver object
    ck.rule("R-C09-4", "setup(); solve(); solve(): the FMG start vector of the second solve is the same nested-iteration term, no start-up branch depends on history", floor=8)
    for fn in prog.fns("GMGPolar::solve"):
        ck.analysed(fn)
    for mode in reuse_modes(tier):
        what = "reused solver: L=%d k=%d fmg_cycle=%s ext=%s" % (mode["L"], mode["FMG_iterations"], KN[mode["FMG_cycle"]], EXT[mode["extrapolation"]])
        ck.instance("R-C09-4", what)
        L = mode["L"]
        ext = mode["extrapolation"] != 0
        fgs = mode["extrapolation"] in (0, 2, 3)
        want = Oracle(L, mode["nu1"], mode["nu2"], ext, fgs, setup_rhs(L, True, ext)).fmg(mode["FMG_cycle"], mode["FMG_iterations"])
        probs = []
        site = ir.locstr(prog.fn("GMGPolar::initializeSolution"))
        for o in sr.scenario_reuse(prog, mode):
            for st, cond, outc, fnq in o.choice_log:
                if sr.scalar_has_stale(cond):
                    probs.append("the branch at %s (in %s) of the second solve's start-up is decided by data left by the previous solve: %s" % (st, fnq, show(cond)[:200]))
                    site = st
            if o.throws:
                probs.append("second solve throws %s at %s" % (o.throws.what, o.throws.site))
            elif o.solution is not want:
                bad = has_kind(o.solution, ("stale", "clob")) if o.solution is not None else []
                probs.append("start vector of the second solve is %s, nested iteration gives %s%s" % (
                    show(o.solution)[:300] if o.solution is not None else None, show(want)[:300],
                    (" (depends on history: %s)" % ", ".join(sorted(set(show(a) for a in bad)))[:200]) if bad else ""))
        if probs:
            ck.violation("R-C09-4", "reused-solver:start-vector", site, "%s: %s" % (what, "; ".join(sorted(set(probs)))[:1500]))
        else:
            ck.ok("R-C09-4", what)
    # ---- TAB part (FMG interpolation weights) is attached when available
    try:
        from gmg import tab_transfer
        tab_transfer.check_fmg(ck, tier)
    except ImportError:
        ck.note("R-C09-1 (FMG interpolation weight tables) not built yet")
    return ck.finish(
        "setup() and initializeSolution() are interpreted from /repo's source for every FMG mode (levels 2..5, 0..3 start-up "
        "cycles of each type, every extrapolation mode); the finest-level start vector is a Herbrand term over the operator "
        "symbols and must equal u_0 of: u_{L-1}=Solve(f_{L-1}), u_{l-1}=cycle^k(Fmg_l u_l, f_{l-1}). Fresh work vectors are "
        "zero (make_unique value-initialises), so a start-up that skips the coarsest solve shows up as a different term.",
        trusted_base=["clang 14 front end", "gmgir lowering", "operator signature table (cross-checked against const-ness)"],
        assumptions=["'already has discretisation-level accuracy' is numerical and not decided"],
        exhaustive=(tier == "thorough"))


if __name__ == "__main__":
    report.run(main, "C09")
