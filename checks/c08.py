"""C08 — grid transfer: restriction = prolongation^T, optimised == reference, injection o prolongation = id,
convex weights, linear reproduction (see lib/gmg/tab_transfer.py)."""
from gmg import report, tab_transfer


def main(tier):
    ck = report.Check("C08", tier, level="proof", technique="symbolic interpretation of the nine transfer functions into exact weight tables; identities decided by rational-function normal form (sympy cancel)")
    tab_transfer.check_c08(ck, tier)
    return ck.finish(
        "Each transfer function is interpreted from /repo's source with integers concrete and every floating-point value an exact "
        "rational function of the grid-spacing symbols, on fine/coarse grid pairs that realise every node class (boundary / next to "
        "boundary / interior, odd/even in both directions, circle and radial section, both boundary modes, differing splits). The "
        "resulting weight tables are compared entry by entry: R == P^T, optimised == reference, copy at coarse nodes, convexity, "
        "and first moments for arbitrary spacings and under the midpoint hypothesis of generated grids. One obligation = one table "
        "identity on one shape; discharged = cancel() returned 0.",
        trusted_base=["clang 14 front end", "gmgir lowering", "own IR interpreter", "sympy cancel/together/diff"],
        assumptions=["thread-count independence of the transfers is C11's subject; rounding is not examined"])


if __name__ == "__main__":
    report.run(main, "C08")
