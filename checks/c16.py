"""C16 — sparse LU (decided part: algebraic exactness of the elimination and substitution, in exact arithmetic).

R-C16-1: SparseLUSolver (constructor -> factorizeWithHashing -> solveInPlace) is interpreted from source on CSR matrices whose
         stored entries are independent symbols, for EVERY sparsity pattern with a full diagonal up to dimension N (3 in the
         quick tier, 4 in the thorough tier, plus named larger patterns), with the row entries stored in sorted, reversed and
         rotated order, with explicitly stored zeros, and for two iteration orders of the hash maps: the returned x satisfies
         A x == b identically (exact rational functions; pivots assumed non-vanishing), and a second right-hand side solved with
         the same object is solved correctly too (the factors are not modified by a solve).
R-C16-2: both solveInPlace overloads are const, and the class has no mutable member: a solve cannot change the factorisation.
Not decided: floating-point accuracy ('to rounding accuracy'), the absolute pivot threshold 1e-12 in solveInPlace (a numerical
robustness matter: rows scaled to tiny magnitudes), iterator validity under rehashing (unordered_map::operator[] may rehash while
an iterator obtained by find() is still used — undefined by the standard, benign on node-based implementations).
"""
import itertools

from gmg import conc, dag, ir, opsdom, report, symdom
from gmg.conc import Arr, PtrInto
from gmg.interp import ThrowEx, Cell, Interp, Obj
from gmg.symdom import SArr

CLS = "SparseLUSolver<double>"
CSR = "SparseMatrixCSR<double>"


class MapObj:
    def __init__(self):
        self.d = {}

    def __repr__(self):
        return "Map(%s)" % sorted(self.d)


class MapVec:
    def __init__(self, n):
        self.items = [MapObj() for _ in range(n)]


class SetObj:
    """std::set<int>: ordered, unique; iteration ascending and valid under insertion"""

    def __init__(self):
        self.s = set()

    def __repr__(self):
        return "Set(%s)" % sorted(self.s)


class SetVec:
    def __init__(self, n):
        self.items = [SetObj() for _ in range(n)]


class MapIter:
    def __init__(self, m, key):
        self.m = m
        self.key = key


class Aborts(Exception):
    """the interpreted solver reached std::exit / std::abort on a matrix that admits LU"""


class LUDomain(opsdom.OpsDomain):
    """OpsDomain + std::unordered_map<int,double>, std::set<int>, std::vector of maps / sets, growing std::vectors"""

    def __init__(self, prog, reverse_iteration=False):
        opsdom.OpsDomain.__init__(self, prog, record=False)
        self.reverse = reverse_iteration
        self.pivot_tests = 0
        self.force_small = None   # index of the magnitude test that is to find its operand below the threshold
        self.forced_site = None

    def field_default(self, t, name):
        t0 = t.strip()
        if t0.startswith("std::vector<double"):
            return SArr(name, 0, zero=True)
        if t0.startswith("std::vector<int"):
            a = Arr(name, 0, elem="int")
            return a
        return opsdom.OpsDomain.field_default(self, t, name)

    def range_for(self, s, fr):
        it = self.interp
        rng = it.rvalue(s["range"], fr)
        if isinstance(rng, SetObj):
            # ascending order; an element inserted during the loop is visited iff it is larger than the current one
            from gmg.interp import BreakEx, ContinueEx
            v = s["var"]
            last = None
            while True:
                nxt = sorted(x for x in rng.s if last is None or x > last)
                if not nxt:
                    break
                last = nxt[0]
                fr.vars[v["id"]] = Cell(last, v["name"])
                try:
                    it.exec(s["body"], fr)
                except BreakEx:
                    break
                except ContinueEx:
                    pass
            return
        if not isinstance(rng, MapObj):
            raise ir.AnalysisBroken("range-for over %r at %s" % (rng, ir.locstr(s)))
        keys = list(rng.d.keys())
        if self.reverse:
            keys.reverse()
        from gmg.interp import BreakEx, ContinueEx
        b = s.get("bindings")
        for k in keys:
            if k not in rng.d:
                continue
            if b and len(b) == 2:
                fr.vars[b[0]["id"]] = Cell(k, b[0]["name"])
                fr.vars[b[1]["id"]] = rng.d[k]
            else:
                raise ir.AnalysisBroken("range-for without structured bindings over a map at %s" % ir.locstr(s))
            try:
                it.exec(s["body"], fr)
            except BreakEx:
                break
            except ContinueEx:
                pass

    def field_of(self, base, e, fr):
        if isinstance(base, MapIter):
            if e["field"] == "second":
                return base.m.d[base.key]
            if e["field"] == "first":
                return base.key
        return opsdom.OpsDomain.field_of(self, base, e, fr)

    def abs_binop(self, op, a, b, e, fr):
        if isinstance(a, MapIter) and isinstance(b, MapIter):
            same = a.m is b.m and a.key == b.key
            return same if op == "==" else not same
        if op in ("==", "!=") and (symdom.is_sym(a) or symdom.is_sym(b)) and not isinstance(a, symdom.Lin) and not isinstance(b, symdom.Lin):
            # exact comparison with a constant: an independent symbol differs from any constant; two constants compare as numbers.
            # (Skipping entries that are EXACTLY zero is lossless, so this test is not forked.)
            A, B = dag.lift(a), dag.lift(b)
            if A.op == "c" and B.op == "c":
                return (A.a == B.a) if op == "==" else (A.a != B.a)
            if (A.op == "c") != (B.op == "c"):
                same = dag.equal(A, B)
                return same if op == "==" else not same
        if op in ("<", ">", "<=", ">=") and (symdom.is_sym(a) or symdom.is_sym(b)) and not isinstance(a, symdom.Lin) and not isinstance(b, symdom.Lin):
            # `std::abs(diag) < 1e-12`: pivots are assumed non-vanishing (hypothesis of the property)
            A, B = dag.lift(a), dag.lift(b)
            if not (A.op == "f" and A.a in ("abs", "fabs") and B.op == "c"):
                # any other value-dependent comparison (e.g. a relative tolerance test on a right-hand side entry): answered as a
                # generic instance answers it (test point 0), and forked like the magnitude tests
                p0 = dag.points()[0]
                va, vb = p0.value(A), p0.value(B)
                generic = {"<": va < vb, "<=": va <= vb, ">": va > vb, ">=": va >= vb}[op]
                k = self.pivot_tests
                self.pivot_tests += 1
                if self.force_small is not None and k == self.force_small:
                    self.forced_site = ir.locstr(e)
                    return not generic
                return generic
            if A.op == "f" and A.a in ("abs", "fabs") and B.op == "c":
                k = self.pivot_tests
                self.pivot_tests += 1
                if self.force_small is not None and k == self.force_small:
                    self.forced_site = ir.locstr(e)
                    return op in ("<", "<=")
                return op in (">", ">=")
        return opsdom.OpsDomain.abs_binop(self, op, a, b, e, fr)

    def global_var(self, e, fr):
        if e.get("qn") in ("std::cerr", "std::cout", "std::clog"):
            return "console"
        return opsdom.OpsDomain.global_var(self, e, fr)

    def call(self, e, fr):
        it = self.interp
        k = e["k"]
        callee = e.get("callee") or e.get("ctor") or ""
        base = conc.strip_targs(callee)
        m = base.rsplit("::", 1)[-1]
        args = e["args"]
        if base == "std::numeric_limits::epsilon" or callee.startswith("std::numeric_limits<double>::epsilon"):
            from fractions import Fraction
            return dag.const(Fraction(1, 2 ** 52))
        if k == "Call" and base in ("std::max", "std::min") and len(args) == 2:
            a_, b_ = it.rvalue(args[0], fr), it.rvalue(args[1], fr)
            if (symdom.is_sym(a_) or symdom.is_sym(b_)) and not isinstance(a_, symdom.Lin) and not isinstance(b_, symdom.Lin):
                A_, B_ = dag.lift(a_), dag.lift(b_)
                if not (A_.op == "c" and B_.op == "c"):
                    p0 = dag.points()[0]
                    first_larger = p0.value(A_) >= p0.value(B_)   # the generic instance decides which operand is selected
                    return (A_ if first_larger else B_) if base == "std::max" else (B_ if first_larger else A_)
        if base in ("std::exit", "exit", "std::abort", "abort", "std::terminate"):
            raise Aborts("%s() at %s" % (base, ir.locstr(e)))
        if k == "OpCall" and e["op"] == "<<" and args:
            s0 = it.rvalue(args[0], fr)
            if s0 == "console":
                for a in args[1:]:
                    if a.get("k") not in ("FnRef", "Str"):
                        it.rvalue(a, fr)
                return "console"
        if k == "Construct":
            t = e.get("t", "").replace("const ", "")
            if (t.startswith("std::unordered_map<int, double>") or (e.get("ctor") or "").startswith("std::unordered_map<int, double>::unordered_map")) and not args:
                return MapObj()
            ctor_ = e.get("ctor") or ""
            if t.startswith("std::vector<std::unordered_map<int, double>") or ctor_.startswith("std::vector<std::unordered_map<int, double>"):
                if e.get("copy") or e.get("move"):
                    return it.rvalue(args[0], fr)
                n = it.rvalue(args[0], fr) if args else 0
                return MapVec(n)
            if t.startswith("std::set<int") and not args:
                return SetObj()
            if t.startswith("std::vector<std::set<int"):
                n = it.rvalue(args[0], fr)
                return SetVec(n)
            if t.startswith("std::__detail::_Node_iterator") or t.startswith("std::__detail::_Node_const_iterator"):
                return it.rvalue(args[0], fr)
        if k == "OpCall" and e["op"] == "[]" and len(args) == 2:
            b = it.rvalue(args[0], fr)
            if isinstance(b, (MapVec, SetVec)):
                i_ = it.rvalue(args[1], fr)
                if not (0 <= i_ < len(b.items)):
                    conc_oob = ("vector of %s" % ("maps" if isinstance(b, MapVec) else "sets"), i_, len(b.items), ir.locstr(e))
                    self.oob.append(conc_oob)
                    from gmg import conc as _conc
                    _conc.GLOBAL_OOB.append(conc_oob)
                    raise ir.AnalysisBroken("index %s into a vector of %d containers at %s" % (i_, len(b.items), ir.locstr(e)))
                return b.items[i_]
            if isinstance(b, MapObj):
                key = it.rvalue(args[1], fr)
                if key not in b.d:
                    b.d[key] = Cell(dag.ZERO, "map[%s]" % key)
                return b.d[key]
        if k == "OpCall" and e["op"] == "->" and len(args) == 1:
            v = it.rvalue(args[0], fr)
            if isinstance(v, MapIter):
                return v
        if k == "OpCall" and e["op"] in ("==", "!=") and len(args) == 2:
            a, b = it.rvalue(args[0], fr), it.rvalue(args[1], fr)
            if isinstance(a, MapIter) and isinstance(b, MapIter):
                return self.abs_binop(e["op"], a, b, e, fr)
        if k == "Call" and base.startswith("std::__detail::operator") and len(args) == 2:
            a, b = it.rvalue(args[0], fr), it.rvalue(args[1], fr)
            if isinstance(a, MapIter) and isinstance(b, MapIter):
                return self.abs_binop("==" if "==" in base else "!=", a, b, e, fr)
        if k == "Call" and "this" in e and e["this"] is not None:
            th = it.eval(e["this"], fr)
            th = th.get() if isinstance(th, Cell) else th
            if isinstance(th, MapObj):
                if m == "find":
                    key = it.rvalue(args[0], fr)
                    return MapIter(th, key if key in th.d else None)
                if m == "end":
                    return MapIter(th, None)
                if m == "size":
                    return len(th.d)
                if m == "empty":
                    return len(th.d) == 0
                if m in ("count", "contains"):
                    key = it.rvalue(args[0], fr)
                    return (1 if key in th.d else 0) if m == "count" else (key in th.d)
                if m == "at":
                    key = it.rvalue(args[0], fr)
                    if key not in th.d:
                        raise ir.AnalysisBroken("unordered_map::at(%s) on a map without that key (throws std::out_of_range) at %s" % (key, ir.locstr(e)))
                    return th.d[key]
                if m in ("erase",):
                    key = it.rvalue(args[0], fr)
                    if isinstance(key, MapIter):
                        key = key.key
                    return 1 if th.d.pop(key, None) is not None else 0
                if m in ("clear",):
                    th.d.clear()
                    return None
                if m in ("insert", "emplace") and len(args) == 2:
                    key, v = it.rvalue(args[0], fr), it.rvalue(args[1], fr)
                    if key not in th.d:
                        th.d[key] = Cell(v, "map[%s]" % key)
                    return None
            if isinstance(th, (MapVec, SetVec)) and m == "size":
                return len(th.items)
            if isinstance(th, SetObj):
                if m in ("insert", "emplace") and len(args) == 1:
                    th.s.add(it.rvalue(args[0], fr))
                    return None
                if m == "erase" and len(args) == 1:
                    k_ = it.rvalue(args[0], fr)
                    had = k_ in th.s
                    th.s.discard(k_)
                    return 1 if had else 0
                if m == "clear":
                    th.s.clear()
                    return None
                if m == "size":
                    return len(th.s)
                if m == "empty":
                    return not th.s
                if m in ("count", "contains"):
                    k_ = it.rvalue(args[0], fr)
                    return (1 if k_ in th.s else 0) if m == "count" else (k_ in th.s)
            if isinstance(th, Arr) and base.startswith("std::vector::"):
                if m == "clear":
                    th.length = 0
                    if isinstance(th, SArr):
                        th.sym = {}
                    else:
                        th.ints = {}
                    return None
                if m == "push_back":
                    v = it.rvalue(args[0], fr)
                    i = th.length
                    th.length = i + 1
                    if isinstance(th, SArr):
                        th.sym[i] = dag.lift(v) if not symdom.is_sym(v) else v
                    else:
                        th.ints[i] = v
                    return None
                if m == "resize":
                    n = it.rvalue(args[0], fr)
                    v = it.rvalue(args[1], fr) if len(args) > 1 else 0
                    for i in range(th.length or 0, n):
                        if isinstance(th, SArr):
                            th.sym[i] = dag.lift(v)
                        else:
                            th.ints[i] = v
                    th.length = n
                    return None
        if base in ("std::abs", "abs", "fabs", "std::fabs") and len(args) == 1:
            v = it.rvalue(args[0], fr)
            if symdom.is_sym(v):
                return dag.func("abs", dag.lift(v))
        return opsdom.OpsDomain.call(self, e, fr)


def make_csr(dom, it, prog, n, rows):
    """rows: list of lists of (col, Node) in storage order -> SparseMatrixCSR<double> object via the 5-argument constructor"""
    vals, cols, ptr = [], [], [0]
    for r in rows:
        for c, v in r:
            cols.append(c)
            vals.append(v)
        ptr.append(len(vals))
    V = SArr("values", len(vals))
    V.sym = dict(enumerate(vals))
    C = Arr("column_indices", len(cols), elem="int", ints=dict(enumerate(cols)))
    P = Arr("row_start_indices", len(ptr), elem="int", ints=dict(enumerate(ptr)))
    ctor = [f for f in prog.fns(CSR + "::SparseMatrixCSR") if len(f["params"]) == 5]
    if len(ctor) != 1:
        raise ir.AnalysisBroken("anchor vanished: 5-argument constructor of SparseMatrixCSR")
    o = dom.new_object(CSR, None, None)
    it.call_function(ctor[0], o, [n, n, Cell(V), Cell(C), Cell(P)])
    return o


def make_csr_triplets(dom, it, prog, n, rows):
    """the same matrix through the (rows, columns, vector of (row, column, value) triplets) constructor, the triplets listed row
    by row in the storage order of `rows`"""
    ctor = [f for f in prog.fns(CSR + "::SparseMatrixCSR") if len(f["params"]) == 3 and ("tuple" in f["params"][2]["t"] or "triplet" in f["params"][2]["t"])]
    if len(ctor) != 1:
        raise ir.AnalysisBroken("anchor vanished: triplet constructor of SparseMatrixCSR")
    ents = [[i, c, v] for i, r in enumerate(rows) for c, v in r]
    o = dom.new_object(CSR, None, None)
    it.call_function(ctor[0], o, [n, n, Cell(ents)])
    return o


def patterns(n):
    off = [(i, j) for i in range(n) for j in range(n) if i != j]
    for bits in itertools.product((0, 1), repeat=len(off)):
        yield {p for p, b in zip(off, bits) if b}


NAMED = {
    "tridiagonal+corner n=6": (6, {(i, j) for i in range(6) for j in range(6) if abs(i - j) == 1} | {(0, 5), (5, 0)}),
    "arrow n=6": (6, {(0, j) for j in range(1, 6)} | {(j, 0) for j in range(1, 6)}),
    "reverse arrow n=5 (maximal fill-in)": (5, {(4, j) for j in range(4)} | {(j, 4) for j in range(4)} | {(0, 1), (1, 0)}),
    "upper Hessenberg-like n=5": (5, {(i, j) for i in range(5) for j in range(5) if i != j and j >= i - 1}),
    "full n=5": (5, {(i, j) for i in range(5) for j in range(5) if i != j}),
    "non-symmetric pattern n=5": (5, {(0, 3), (1, 0), (2, 4), (3, 1), (4, 2), (4, 0)}),
}


def main(tier):
    ck = report.Check("C16", tier, level="proof", technique="symbolic interpretation of the sparse LU (hash-map elimination, substitution) on matrices with independent symbolic entries for all small sparsity patterns and storage orders; A x == b by identity testing")
    ck.rule("R-C16-1", "A x == b identically for every pattern/storage order/iteration order; a second right-hand side is solved correctly with the same object", floor=100)
    ck.rule("R-C16-2", "solveInPlace overloads are const; no mutable member", floor=2)
    prog = ir.load(units=[], witness=True)
    ck.units += prog.units
    lu_ctor = [f for f in prog.fns(CLS + "::SparseLUSolver") if f.get("special") == "ctor"]
    solve = [f for f in prog.fns(CLS + "::solveInPlace") if "double *" in f["params"][0]["t"]]
    if len(lu_ctor) != 1 or len(solve) != 1:
        raise ir.AnalysisBroken("anchor vanished: SparseLUSolver constructor / solveInPlace(double*)")
    for f in lu_ctor + solve + prog.fns(CLS + "::factorizeWithHashing") + prog.fns(CLS + "::factorize"):
        ck.analysed(f)
    cases = []
    nmax = 3 if tier == "quick" else 4
    for n in range(1, nmax + 1):
        for pat in patterns(n):
            cases.append(("n=%d pattern=%s" % (n, sorted(pat)), n, pat))
    for name, (n, pat) in NAMED.items():
        cases.append((name, n, pat))
    # matrices that admit LU without pivoting although a diagonal entry of A is zero (stored) or absent from the pattern: the
    # pivot is created by fill-in (saddle-point systems [D B^T; B 0]).  "Every pivot non-zero" is a statement about U, not A.
    full = lambda n_: {(i, j) for i in range(n_) for j in range(n_) if i != j}
    ZERO_DIAG = [("zero diagonal n=2 [a b; c 0]", 2, full(2), {1}), ("zero diagonal n=3, entry (1,1)", 3, full(3), {1}),
                 ("zero diagonal n=3, entry (2,2)", 3, full(3), {2}), ("zero diagonal n=3, entries (1,1),(2,2)", 3, full(3), {1, 2}),
                 ("saddle point n=4 [D B^T; B 0]", 4, {(0, 2), (0, 3), (1, 2), (1, 3), (2, 0), (2, 1), (3, 0), (3, 1)}, {2, 3})]
    zero_diag_of = {}
    for name, n, pat, zd in ZERO_DIAG:
        for how in ("stored", "absent"):
            nm = "%s (%s)" % (name, how)
            cases.append((nm, n, pat))
            zero_diag_of[nm] = (zd, how)
    n_runs = 0
    pivots = 0
    n_forced = [0]
    for name, n, pat in cases:
        zd, zd_how = zero_diag_of.get(name, (set(), None))
        entries = {(i, i): dag.atom("a_%d_%d" % (i, i)) for i in range(n) if i not in zd}
        for (i, j) in pat:
            entries[(i, j)] = dag.atom("a_%d_%d" % (i, j))
        if zd_how == "stored":
            for i in zd:
                entries[(i, i)] = dag.ZERO
        orders = ["sorted", "reversed", "rotated"] if n > 1 else ["sorted"]
        zero_variants = [False, True] if (n <= 3 or name in NAMED) else [False]
        if zd:
            orders, zero_variants = ["sorted", "reversed"], [False]
        for order, with_zeros, rev_iter, via in itertools.product(orders, zero_variants, (False, True), ("arrays", "triplets")):
            if tier == "quick" and n >= 3 and name not in NAMED and (order == "rotated" and rev_iter):
                continue
            # the container's second construction path (a list of (row, column, value) triplets): with stored zeros, and for
            # one of the storage orders without
            if via == "triplets" and not (with_zeros or (order == "reversed" and not rev_iter) or zd):
                continue
            key = "%s order=%s zeros=%s map-iteration=%s%s" % (name, order, with_zeros, "reverse" if rev_iter else "insertion", " via=triplets" if via == "triplets" else "")
            n_runs += 1
            ck.instance("R-C16-1", key, nontrivial=(n_runs % 5 == 0 or n >= 3))
            rows = []
            for i in range(n):
                r = [(j, entries[(i, j)]) for j in range(n) if (i, j) in entries]
                if with_zeros:
                    r += [(j, dag.ZERO) for j in range(n) if (i, j) not in entries][:2]
                    r.sort(key=lambda cv: cv[0])
                if order == "reversed":
                    r.reverse()
                elif order == "rotated" and len(r) > 1:
                    r = r[1:] + r[:1]
                rows.append(r)
            def run_case(force):
                dom = LUDomain(prog, reverse_iteration=rev_iter)
                dom.force_small = force
                it = Interp(prog, dom)
                bad = None
                aborted = False
                try:
                    A = (make_csr_triplets if via == "triplets" else make_csr)(dom, it, prog, n, rows)
                    lu = dom.new_object(CLS, None, None)
                    it.call_function(lu_ctor[0], lu, [Cell(A)])
                    # right-hand sides solved one after another with the same object: two generic ones, then vectors with
                    # EXACT leading zeros (a sparse source, a unit vector) - special values a generic symbol never takes
                    rhs_list = [("b", lambda j: dag.atom("b_%d" % j)), ("c", lambda j: dag.atom("c_%d" % j))]
                    if n >= 2:
                        rhs_list.append(("leading zero, then generic", lambda j: dag.ZERO if j < 1 else dag.atom("z_%d" % j)))
                        rhs_list.append(("last unit vector", lambda j: dag.ONE if j == n - 1 else dag.ZERO))
                        rhs_list.append(("b again", lambda j: dag.atom("b_%d" % j)))
                    for rhs_tag, gen_ in rhs_list:
                        x = SArr("rhs", n, gen=gen_)
                        it.call_function(solve[0], lu, [PtrInto(x, 0)])
                        sol = [dag.lift(x.sym.get(i, gen_(i))) for i in range(n)]
                        for i in range(n):
                            lhs = dag.total(dag.mul(entries[(i, j)], sol[j]) for j in range(n) if (i, j) in entries)
                            if not dag.equal(lhs, dag.lift(gen_(i))):
                                bad = "right-hand side '%s': row %d of A x - b does not vanish identically" % (rhs_tag, i)
                                break
                        if bad:
                            break
                except ir.AnalysisBroken as ex:
                    raise
                except Aborts as ex:
                    aborted = True
                    if force is None:
                        bad = "the solver terminates the process although every pivot of this pattern is a non-vanishing symbol: %s" % ex
                except ThrowEx as ex:
                    aborted = True
                    if force is None:
                        bad = "the solver throws although every pivot of this pattern is a non-vanishing symbol: %s" % ex.what
                except ZeroDivisionError as ex:
                    bad = "division by an identically zero pivot: %s" % ex
                return dom, bad, aborted
            dom, bad, _ = run_case(None)
            # value-dependent magnitude tests: the one legitimate kind rejects the matrix (a pivot below the threshold ends in
            # exit/throw: outside the property's hypothesis).  A test that finds some entry "small" and CARRIES ON must not change
            # the solution - unless that entry is identically zero, every such branch drops information.
            if not bad and (n <= 3 or name in NAMED) and order == "sorted" and not rev_iter:
                for kf in range(dom.pivot_tests):
                    d2, bad2, aborted2 = run_case(kf)
                    n_forced[0] += 1
                    if not aborted2 and bad2:
                        bad = "when the magnitude test at %s finds its operand below the threshold the solve carries on and %s (an entry of the factors is dropped by an absolute tolerance)" % (d2.forced_site, bad2)
                        break
            pivots += dom.pivot_tests
            if dom.oob:
                bad = "out-of-range access %s[%s] (length %s) at %s" % dom.oob[0]
            if bad:
                ck.violation("R-C16-1", "lu:%s" % ("magnitude-test-drops-entry" if "magnitude test" in bad else bad.split(":")[0][:40]), ir.locstr(solve[0]), "%s: %s" % (key, bad))
            else:
                ck.ok("R-C16-1", key, sample={"case": key} if n_runs in (3, 40, 400) else None)
    # ---- R-C16-2
    cls = prog.cls(CLS)
    for f in prog.fns(CLS + "::solveInPlace"):
        key = "solveInPlace(%s) const" % f["params"][0]["t"]
        ck.instance("R-C16-2", key)
        if f.get("constm"):
            ck.ok("R-C16-2", key)
        else:
            ck.violation("R-C16-2", "solveInPlace:non-const", ir.locstr(f), "%s is no longer const: a solve may modify the factors" % key)
    ck.extra["cases"] = n_runs
    ck.extra["pivot_tests_assumed_nonzero"] = pivots
    ck.extra["magnitude_tests_forced_small"] = n_forced[0]
    return ck.finish(
        "The sparse LU solver is interpreted from source (constructor, hash-map elimination with dynamic fill-in, conversion to CSR "
        "factors, forward/backward substitution) in the exact rational-function domain: the matrix entries are independent symbols, so "
        "every matrix with the given pattern that admits LU without pivoting is covered at once. All patterns with a full diagonal up to "
        "dimension 3 (quick) / 4 (thorough) plus named larger patterns (cyclic tridiagonal, arrows with and without fill-in, full, "
        "non-symmetric) are enumerated, each with sorted, reversed and rotated storage order, with explicitly stored zeros, and with two "
        "iteration orders of the hash maps; two right-hand sides are solved one after the other with the same object. A x == b is decided "
        "on the resulting DAGs by identity testing. This decides the algebra of the algorithm; rounding accuracy, the absolute pivot "
        "threshold and iterator validity under rehashing are not decided.",
        trusted_base=["clang 14 front end", "gmgir lowering", "own IR interpreter incl. its model of std::unordered_map/std::vector", "identity testing by exact rational evaluation at 4 pseudo-random points"],
        assumptions=["pivots do not vanish (hypothesis of the property)", "dimension <= 4 exhaustively, larger only for named patterns: elimination's control flow depends on the pattern only"],
        exhaustive=False)


if __name__ == "__main__":
    report.run(main, "C16")
