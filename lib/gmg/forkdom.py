"""Value-dependent comparisons on symbolic operands (the solvers' tolerance tests).

A comparison whose operands are exact symbolic values cannot be decided once and for all.  It is answered the way a
generic instance answers it (test point 0; `abs(x) < literal` is 'not small'), counted, and the caller re-runs the code
once per counted test with that one test flipped.  A flipped run may reject the input (exit / throw: outside the
property's hypothesis) - if it carries on, the property's identity must still hold.
"""
from fractions import Fraction

from . import dag, ir, symdom
from .conc import strip_targs


class Aborts(Exception):
    """the interpreted code reached std::exit / std::abort / std::terminate"""


class ValueTests:
    def init_value_tests(self, force=None):
        self.n_value_tests = 0
        self.force_flip = force
        self.flipped_site = None

    def value_test(self, op, a, b, e):
        """outcome of `a op b` for symbolic a/b (not linear forms); None if this is not such a comparison"""
        if op in ("==", "!=") and (symdom.is_sym(a) or symdom.is_sym(b)) and not isinstance(a, symdom.Lin) and not isinstance(b, symdom.Lin):
            # exact comparison: decided by identity (an independent symbol differs from every constant); special values are
            # the business of separate instances with those entries set to the constant
            same = dag.equal(dag.lift(a), dag.lift(b))
            return same if op == "==" else not same
        if op not in ("<", ">", "<=", ">="):
            return None
        if not (symdom.is_sym(a) or symdom.is_sym(b)) or isinstance(a, symdom.Lin) or isinstance(b, symdom.Lin):
            return None
        A, B = dag.lift(a), dag.lift(b)
        if A.op == "c" and B.op == "c":
            return {"<": A.a < B.a, "<=": A.a <= B.a, ">": A.a > B.a, ">=": A.a >= B.a}[op]
        if A.op == "f" and A.a in ("abs", "fabs") and B.op == "c":
            generic = op in (">", ">=")          # a symbol's magnitude is not below a literal threshold
        elif B.op == "f" and B.a in ("abs", "fabs") and A.op == "c":
            generic = op in ("<", "<=")
        else:
            p0 = dag.points()[0]
            va, vb = p0.value(A), p0.value(B)
            generic = {"<": va < vb, "<=": va <= vb, ">": va > vb, ">=": va >= vb}[op]
        k = self.n_value_tests
        self.n_value_tests += 1
        if self.force_flip is not None and k == self.force_flip:
            self.flipped_site = ir.locstr(e)
            return not generic
        return generic

    def value_call(self, e, fr):
        """intrinsics the tolerance tests use; NotImplemented if e is none of them"""
        it = self.interp
        callee = e.get("callee") or ""
        base = strip_targs(callee)
        args = e["args"]
        if callee.startswith("std::numeric_limits<double>::epsilon") or base == "std::numeric_limits::epsilon":
            return dag.const(Fraction(1, 2 ** 52))
        if base in ("std::exit", "exit", "std::abort", "abort", "std::terminate"):
            raise Aborts("%s() at %s" % (base, ir.locstr(e)))
        if e["k"] == "Call" and base in ("std::max", "std::min") and len(args) == 2:
            a_, b_ = it.rvalue(args[0], fr), it.rvalue(args[1], fr)
            if (symdom.is_sym(a_) or symdom.is_sym(b_)) and not isinstance(a_, symdom.Lin) and not isinstance(b_, symdom.Lin):
                A_, B_ = dag.lift(a_), dag.lift(b_)
                if A_.op == "c" and B_.op == "c":
                    return dag.const(max(A_.a, B_.a) if base == "std::max" else min(A_.a, B_.a))
                p0 = dag.points()[0]
                first_larger = p0.value(A_) >= p0.value(B_)   # the generic instance decides which operand is selected
                return (A_ if first_larger else B_) if base == "std::max" else (B_ if first_larger else A_)
            if isinstance(a_, (int, Fraction)) and isinstance(b_, (int, Fraction)):
                return max(a_, b_) if base == "std::max" else min(a_, b_)
        return NotImplemented
