"""Symbolic-double domain (TAB engine, DESIGN 3.4): integers/bools/enums concrete, every floating-point value is an
exact sympy expression over atoms (grid spacings, coordinates, coefficient-function applications, input-vector
entries).  Operator code interpreted in this domain on a representative grid yields, per output element, an exact
rational function; tables are then compared with cancel() — no floating-point number is ever computed."""
from fractions import Fraction

from . import conc, dag, ir
from .dag import Lin, Node
from .conc import Arr, ConcDomain, Elem, PtrInto, strip_targs
from .interp import Cell, Domain, Interp, Obj, Opaque, ThrowEx, Undef
from .ir import AnalysisBroken

def is_sym(v):
    return isinstance(v, (Node, Lin))


def as_val(v):
    """int/bool/Fraction -> Node"""
    if isinstance(v, (Node, Lin)):
        return v
    return dag.lift(v)


class SArr(Arr):
    """array with symbolic contents. gen(idx) supplies the content of never-written elements (None: reading is an error)"""

    def __init__(self, name, length=None, gen=None, elem="double", zero=False):
        Arr.__init__(self, name, length, elem)
        self.sym = {}
        self.gen = gen
        self.zero = zero
        self.reads = set()
        self.writes = []


class PairObj(dict):
    pass


class SymDomain(ConcDomain):
    def __init__(self, prog, choices=()):
        ConcDomain.__init__(self, prog, choices)
        self.trace_writes = None

    # ---------------------------------------------------------------- values
    def float_lit(self, e):
        txt = (e.get("text") or e["v"]).rstrip("fFlL")
        try:
            return dag.const(Fraction(txt))
        except Exception:
            return dag.const(Fraction(float(e["v"])))

    def default_value(self, t, v, fr):
        t0 = t.strip()
        if t0.startswith("const "):
            t0 = t0[6:]
        if t0.startswith("std::array<std::pair<"):
            ntxt = t0.rstrip(">").rsplit(",", 1)[-1].strip()
            if ntxt.isdigit():
                n = int(ntxt)
            else:
                g = self.prog.globals.get(ntxt)
                if not g or g.get("init", {}).get("k") != "Int":
                    raise AnalysisBroken("array extent %s is not a known constant" % ntxt)
                n = int(g["init"]["v"])
            a = Arr(v["name"], n, elem="obj")
            a.objs = [PairObj(first=Cell(Undef("first")), second=Cell(Undef("second"))) for _ in range(n)]
            return a
        if t0 in ("double", "float"):
            return Undef(v["name"])
        if t0.startswith("Vector<double") or t0.startswith("std::vector<double"):
            return SArr(v["name"], 0, zero=True)
        return ConcDomain.default_value(self, t, v, fr)

    def field_default(self, t, name):
        t0 = t.strip()
        if t0 in ("double", "float", "const double"):
            return Undef(name)
        if t0.startswith("std::vector<double") or t0.startswith("Vector<double"):
            return SArr(name, 0, zero=True)
        import re
        m = re.match(r"^(const\s+)?double\s*\[(\d+)\]$", t0)
        if m:
            return SArr(name, int(m.group(2)))
        return ConcDomain.field_default(self, t, name)

    def elem_class(self):
        return SElem

    def copy_value(self, v, t):
        # implicit floating->integer conversion on initialisation/assignment of an integer variable (the cast is elided in the IR)
        if isinstance(v, Node) and v.op == "c":
            t0 = (t or "").replace("const ", "").replace("&", "").strip()
            if t0 in ("int", "long", "size_t", "std::size_t", "unsigned long", "unsigned int", "short", "unsigned"):
                q = v.a
                return int(q) if q >= 0 else -int(-q)
        return ConcDomain.copy_value(self, v, t)

    def cast(self, v, t, e, fr):
        t0 = t.replace("const ", "").strip()
        if isinstance(v, bool):
            return int(v) if t0 in ("int", "double", "float") else v
        if isinstance(v, int) and t0 in ("double", "float"):
            return dag.const(v)
        if is_sym(v) and t0 in ("int", "long", "size_t", "std::size_t", "unsigned long"):
            if isinstance(v, Node) and v.op == "c":
                return int(v.a)  # truncation toward zero
            raise AnalysisBroken("float->int conversion of symbolic value %s at %s" % (v, ir.locstr(e)))
        return v

    def unop(self, op, v, e, fr):
        if isinstance(v, Node) and op == "-":
            return dag.sub(dag.ZERO, v)
        if isinstance(v, Lin) and op == "-":
            return dag.lin_scale(v, dag.const(-1))
        return ConcDomain.unop(self, op, v, e, fr)

    def lazy_and(self, a, e, fr):
        raise AnalysisBroken("&& on symbolic value at %s" % ir.locstr(e))

    def lazy_or(self, a, e, fr):
        raise AnalysisBroken("|| on symbolic value at %s" % ir.locstr(e))

    def choose(self, v, e, fr):
        raise AnalysisBroken("branch on symbolic floating-point condition %s at %s (in %s)" % (v, ir.locstr(e), fr.fn["qn"]))

    def abs_binop(self, op, a, b, e, fr):
        num = lambda x: is_sym(x) or isinstance(x, (int, bool, Fraction))
        if num(a) and num(b):
            if isinstance(a, Lin) or isinstance(b, Lin):
                if op == "+":
                    return dag.lin_add(a, b, 1)
                if op == "-":
                    return dag.lin_add(a, b, -1)
                if op == "*":
                    if isinstance(a, Lin) and isinstance(b, Lin):
                        raise AnalysisBroken("product of two input-vector dependent values at %s (operator is not linear)" % ir.locstr(e))
                    return dag.lin_scale(a, b) if isinstance(a, Lin) else dag.lin_scale(b, a)
                if op == "/":
                    if isinstance(b, Lin):
                        raise AnalysisBroken("division by an input-vector dependent value at %s" % ir.locstr(e))
                    return dag.lin_scale(a, b, divide=True)
                raise AnalysisBroken("operator %s on an input-vector dependent value at %s" % (op, ir.locstr(e)))
            A, B = dag.lift(a), dag.lift(b)
            if op == "+":
                return dag.add(A, B)
            if op == "-":
                return dag.sub(A, B)
            if op == "*":
                return dag.mul(A, B)
            if op == "/":
                return dag.div(A, B)
            if op in ("<", "<=", ">", ">=", "==", "!="):
                if A.op == "c" and B.op == "c":
                    x, y = A.a, B.a
                    return {"<": x < y, "<=": x <= y, ">": x > y, ">=": x >= y, "==": x == y, "!=": x != y}[op]
                raise AnalysisBroken("comparison %s of symbolic values at %s (in %s)" % (op, ir.locstr(e), fr.fn["qn"]))
        return ConcDomain.abs_binop(self, op, a, b, e, fr)

    # ---------------------------------------------------------------- arrays
    def clone_arr(self, x):
        if isinstance(x, SArr):
            a = SArr(x.name, x.length, gen=x.gen, elem=x.elem, zero=x.zero)
            a.sym = dict(x.sym)
            return a
        a = ConcDomain.clone_arr(self, x)
        if hasattr(x, "objs"):
            a.objs = x.objs
        return a

    def index(self, base, idx, e, fr):
        if isinstance(base, Arr) and base.elem == "obj":
            return base.objs[idx]
        if isinstance(base, SArr):
            return SElem(base, idx, self, ir.locstr(e))
        if isinstance(base, PtrInto) and isinstance(base.arr, SArr):
            return SElem(base.arr, base.off + idx, self, ir.locstr(e))
        return ConcDomain.index(self, base, idx, e, fr)

    def deref(self, x, e, fr):
        if isinstance(x, PtrInto) and isinstance(x.arr, SArr):
            return SElem(x.arr, x.off, self, ir.locstr(e))
        return ConcDomain.deref(self, x, e, fr)

    def field_of(self, base, e, fr):
        if isinstance(base, PairObj):
            return base[e["field"]]
        return ConcDomain.field_of(self, base, e, fr)

    # ---------------------------------------------------------------- calls
    MATH = ("sqrt", "sin", "cos", "exp", "log", "tanh", "atan", "fabs", "abs", "tan", "asin", "acos", "cosh", "sinh", "log2", "floor", "ceil")

    def call(self, e, fr):
        it = self.interp
        callee = e.get("callee") or e.get("ctor") or ""
        base = strip_targs(callee)
        short = base.split("::")[-1]
        args = e["args"]
        if e["k"] == "Call" and base in ("std::" + short, short) and short in self.MATH and len(args) == 1:
            v = it.rvalue(args[0], fr)
            if isinstance(v, Lin):
                raise AnalysisBroken("%s of an input-vector dependent value at %s" % (short, ir.locstr(e)))
            v = dag.lift(v)
            if v.op == "c" and short in ("floor", "ceil", "log2", "fabs", "abs"):
                import math
                q = v.a
                if short == "floor":
                    return dag.const(math.floor(q))
                if short == "ceil":
                    return dag.const(math.ceil(q))
                if short in ("fabs", "abs"):
                    return dag.const(abs(q))
                if short == "log2" and q > 0:
                    if q.denominator == 1 and (q.numerator & (q.numerator - 1)) == 0:
                        return dag.const(q.numerator.bit_length() - 1)
                    return dag.const(Fraction(math.log2(q)))
            return dag.func(short, v)
        if e["k"] == "Call" and short == "pow" and base in ("pow", "std::pow") and len(args) == 2:
            a, b = it.rvalue(args[0], fr), it.rvalue(args[1], fr)
            if isinstance(b, int):
                return dag.powi(dag.lift(a), b)
            return dag.powi(dag.lift(a), dag.lift(b))
        if e["k"] == "Call" and base == "std::make_pair" and len(args) == 2:
            return PairObj(first=Cell(it.rvalue(args[0], fr), "first"), second=Cell(it.rvalue(args[1], fr), "second"))
        if e["k"] == "Call" and base in ("std::min", "std::max") and len(args) == 2:
            a, b = it.rvalue(args[0], fr), it.rvalue(args[1], fr)
            if is_sym(a) or is_sym(b):
                if not isinstance(a, Lin) and not isinstance(b, Lin):
                    A_, B_ = dag.lift(a), dag.lift(b)
                    if A_.op == "c" and B_.op == "c":
                        return dag.const(min(A_.a, B_.a) if base == "std::min" else max(A_.a, B_.a))
                if getattr(self, "opaque_minmax", False):
                    # effect-only runs (which elements are touched, by whom): the value is irrelevant, keep it uninterpreted
                    return dag.func("max" if base == "std::max" else "min", dag.lift(a), dag.lift(b))
                raise AnalysisBroken("min/max of symbolic values at %s" % ir.locstr(e))
        if e["k"] == "Construct" and e.get("t", "").startswith("std::array<std::pair<") and not args:
            return self.default_value(e["t"], {"name": "array"}, fr)
        if e["k"] == "Construct" and e.get("t", "").replace("const ", "").startswith(("Vector<double>", "std::vector<double")) and not e.get("copy") and not e.get("move"):
            n = it.rvalue(args[0], fr) if args else 0
            if isinstance(n, int):
                return SArr("tmpvec", n, zero=True)
        return ConcDomain.call(self, e, fr)


class SElem(Cell):
    __slots__ = ("arr", "idx", "dom", "site")

    def __init__(self, arr, idx, dom, site):
        self.arr = arr
        self.idx = idx
        self.dom = dom
        self.site = site
        self.name = "%s[%s]" % (arr.name, idx)
        self.serial = 1 << 60

    def get(self):
        a = self.arr
        self.dom.on_read(a, self.idx, self.site)
        a.reads.add(self.idx)
        if self.idx in a.sym:
            return a.sym[self.idx]
        if isinstance(self.idx, int) and a.length is not None and not (0 <= self.idx < a.length):
            # the access is already recorded as out of range; what the program would read there is arbitrary memory
            return dag.atom("out_of_range(%s[%s])" % (a.name, self.idx))
        if a.gen is not None:
            v = a.gen(self.idx)
            return v
        if a.zero:
            return dag.ZERO
        # nothing wrote this element and the harness gave the array no initial contents: the program reads indeterminate
        # memory.  Recorded (report.finish turns an unreported entry into a violation) and continued with an arbitrary value.
        from . import conc as _conc
        _conc.GLOBAL_UNINIT.append((a.name, self.idx, self.site))
        v = dag.atom("indeterminate(%s[%s])" % (a.name, self.idx))
        a.sym[self.idx] = v
        return v

    def set(self, v):
        a = self.arr
        self.dom.on_write(a, self.idx, self.site)
        if isinstance(v, (int, bool, Fraction)) and not is_sym(v):
            v = dag.lift(v)
        a.sym[self.idx] = v
        a.writes.append(self.idx)


# ---------------------------------------------------------------------------- representatives
def sym_grid(nr, ntheta, nsc, tag=""):
    """abstract PolarGrid with symbolic coordinates/spacings; tag distinguishes fine ('') from coarse symbols"""
    from . import grids
    g = grids.make_grid(nr, ntheta, nsc, name="grid" + tag)
    g.f["radii_"].set(SArr("radii_" + tag, nr, gen=lambda i: dag.atom("r%s_%d" % (tag, i))))
    g.f["angles_"].set(SArr("angles_" + tag, ntheta + 1, gen=lambda j: dag.atom("th%s_%d" % (tag, j))))
    g.f["radial_spacings_"].set(SArr("radial_spacings_" + tag, nr - 1, gen=lambda i: dag.atom("h%s_%d" % (tag, i))))
    # admissible grids have an antipodal partner for every angle (checkParameters): the angular spacing pattern has
    # period ntheta/2.  (ntheta odd cannot be admissible; kept independent there.)
    half = ntheta // 2 if ntheta % 2 == 0 else ntheta
    g.f["angular_spacings_"].set(SArr("angular_spacings_" + tag, ntheta, gen=lambda j: dag.atom("k%s_%d" % (tag, j % half))))
    return g


def coarse_of(fine, nsc_coarse):
    """coarse grid whose coordinates/spacings are the fine grid's (every second node; spacing = sum of two fine spacings)"""
    from . import grids
    nr, nt, _ = fine.shape
    cnr, cnt = (nr + 1) // 2, nt // 2
    g = grids.make_grid(cnr, cnt, nsc_coarse, name="coarse")
    fr, fa = fine.f["radii_"].get(), fine.f["angles_"].get()
    fh, fk = fine.f["radial_spacings_"].get(), fine.f["angular_spacings_"].get()
    g.f["radii_"].set(SArr("c.radii_", cnr, gen=lambda i: fr.gen(2 * i)))
    g.f["angles_"].set(SArr("c.angles_", cnt + 1, gen=lambda j: fa.gen(2 * j)))
    g.f["radial_spacings_"].set(SArr("c.radial_spacings_", cnr - 1, gen=lambda i: dag.add(fh.gen(2 * i), fh.gen(2 * i + 1))))
    g.f["angular_spacings_"].set(SArr("c.angular_spacings_", cnt, gen=lambda j: dag.add(fk.gen(2 * j), fk.gen(2 * j + 1))))
    return g


def make_level(depth, grid, cache=None):
    lv = Obj("Level")
    lv.f["level_depth_"] = Cell(depth, "level_depth_")
    lv.f["grid_"] = Cell(grid, "grid_")
    lv.f["level_cache_"] = Cell(cache, "level_cache_")
    return lv


def make_interpolation(DirBC):
    o = Obj("Interpolation")
    t = Arr("threads_per_level_", 8, elem="int", ints={i: 2 for i in range(8)})
    o.f["threads_per_level_"] = Cell(t, "threads_per_level_")
    o.f["DirBC_Interior_"] = Cell(bool(DirBC), "DirBC_Interior_")
    return o


def linear_rows(result):
    """dict row -> {col key: coefficient Node} from result.sym; the constant part must vanish"""
    rows = {}
    for i, v in result.sym.items():
        if isinstance(v, Lin):
            row = {k: c for k, c in v.t.items() if not (c is dag.ZERO)}
            if not dag.is_zero(v.c):
                row[None] = v.c
        else:
            v = dag.lift(v)
            row = {} if dag.is_zero(v) else {None: v}
        rows[i] = row
    return rows
