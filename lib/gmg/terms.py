"""Herbrand terms for the multigrid driver analysis (DESIGN 3.2), hash-consed.

A vector value is an LC: an exact rational linear combination of atoms.
Atoms (interned tuples):
  ('leaf', name)                         problem data / caller's iterate
  ('lin', op, level, atom)               linear operator applied to an atom (operators distribute over LCs)
  ('fn', op, level, LC, ...)             non-linear / affine operator application (smoothers, rhs discretisation, ...)
  ('stale', level, which)                contents left in a work buffer by history
  ('clob', tag)                          scratch garbage left by an operator in its work argument
Scalars are nested tuples ('s', name, args...) or Fractions.
Atoms and LCs are interned, so equality is identity and hashing is O(1) even for the deeply
shared term DAGs that W-cycles produce.
"""
from fractions import Fraction

_atoms = {}
_lcs = {}


class Atom:
    __slots__ = ("t", "h", "_size")

    def __getitem__(self, i):
        return self.t[i]

    def __len__(self):
        return len(self.t)

    def __iter__(self):
        return iter(self.t)

    def __hash__(self):
        return self.h

    def __eq__(self, o):
        return self is o

    def __repr__(self):
        return show_atom(self)


def mk(*t):
    a = _atoms.get(t)
    if a is None:
        a = Atom()
        a.t = t
        a.h = hash(t)
        a._size = None
        _atoms[t] = a
    return a


class LC:
    __slots__ = ("m", "h", "k")

    def __new__(cls, m=None):
        items = frozenset((a, c) for a, c in (m or {}).items() if c != 0)
        o = _lcs.get(items)
        if o is None:
            o = object.__new__(cls)
            o.m = dict(items)
            o.k = items
            o.h = hash(items)
            _lcs[items] = o
        return o

    @staticmethod
    def atom(a):
        return LC({a: Fraction(1)})

    @staticmethod
    def zero():
        return LC()

    def __hash__(self):
        return self.h

    def __eq__(self, o):
        return self is o

    def __ne__(self, o):
        return self is not o

    def __add__(self, o):
        m = dict(self.m)
        for a, c in o.m.items():
            m[a] = m.get(a, 0) + c
        return LC(m)

    def __sub__(self, o):
        m = dict(self.m)
        for a, c in o.m.items():
            m[a] = m.get(a, 0) - c
        return LC(m)

    def scale(self, c):
        c = Fraction(c)
        return LC({a: v * c for a, v in self.m.items()})

    def is_zero(self):
        return not self.m

    def lin(self, op, level):
        return LC({mk("lin", op, level, a): c for a, c in self.m.items()})

    def atoms(self):
        return list(self.m)

    def __repr__(self):
        return show(self)


def fn(op, level, *args):
    return LC.atom(mk("fn", op, level, *args))


def leaf(name):
    return LC.atom(mk("leaf", name))


def stale(level, which):
    return LC.atom(mk("stale", level, which))


def clob(tag):
    return LC.atom(mk("clob", tag))


def walk_atoms(t):
    """all distinct atoms occurring anywhere in t (LC, atom or scalar tuple)"""
    seen = set()
    seen_lc = set()
    out = []
    stack = [t]
    while stack:
        x = stack.pop()
        if isinstance(x, LC):
            if x in seen_lc:
                continue
            seen_lc.add(x)
            stack.extend(x.m.keys())
        elif isinstance(x, Atom):
            if x in seen:
                continue
            seen.add(x)
            out.append(x)
            for y in x.t[1:]:
                if isinstance(y, (LC, Atom, tuple)):
                    stack.append(y)
        elif isinstance(x, tuple):
            for y in x:
                if isinstance(y, (LC, Atom, tuple)):
                    stack.append(y)
    return out


def has_kind(t, kinds):
    return [a for a in walk_atoms(t) if a[0] in kinds]


def show_atom(a, depth=0, budget=None):
    k = a[0]
    if k == "leaf":
        return a[1]
    if k == "lin":
        return "%s_%s(%s)" % (a[1], a[2], show_atom(a[3], depth + 1, budget))
    if k == "fn":
        return "%s_%s(%s)" % (a[1], a[2], ", ".join(show(x, depth + 1, budget) for x in a.t[3:]))
    if k == "stale":
        return "STALE(level %s, %s)" % (a[1], a[2])
    if k == "clob":
        return "SCRATCH(%s)" % (a[1],)
    return str(a.t)


def show(t, depth=0, budget=None):
    """bounded pretty printer (terms are DAGs; printing them as trees is cut at a node budget)"""
    if budget is None:
        budget = [400]
    budget[0] -= 1
    if depth > 10 or budget[0] < 0:
        return "…"
    if isinstance(t, LC):
        if not t.m:
            return "0"
        parts = []
        for a, c in sorted(t.m.items(), key=lambda kv: (kv[0][0], str(kv[0][1]), str(kv[0][2]) if len(kv[0]) > 2 else "")):
            s = show_atom(a, depth, budget)
            if c == 1:
                parts.append("+ " + s)
            elif c == -1:
                parts.append("- " + s)
            else:
                parts.append(("+ " if c > 0 else "- ") + "%s·%s" % (abs(c), s))
            if budget[0] < 0:
                parts.append("+ …")
                break
        r = " ".join(parts)
        return r[2:] if r.startswith("+ ") else r
    if isinstance(t, Atom):
        return show_atom(t, depth, budget)
    if isinstance(t, tuple):
        if t and t[0] == "s":
            return "%s(%s)" % (t[1], ", ".join(show(x, depth + 1, budget) for x in t[2:]))
        return "(" + ", ".join(show(x, depth + 1, budget) for x in t) + ")"
    return str(t)


def subst(t, leafmap, rules=()):
    """rebuild t bottom-up replacing leaves by LCs and applying rewrite rules on fn-atoms.
    rules: callables atom -> LC or None"""
    memo = {}
    memo_lc = {}

    def sa(a):
        r = memo.get(a)
        if r is not None:
            return r
        k = a[0]
        if k == "leaf":
            r = leafmap.get(a[1], LC.atom(a))
        elif k == "lin":
            r = sa(a[3]).lin(a[1], a[2])
        elif k == "fn":
            args = tuple(sl(x) if isinstance(x, LC) else x for x in a.t[3:])
            na = mk("fn", a[1], a[2], *args)
            r = None
            for rule in rules:
                r = rule(na)
                if r is not None:
                    break
            if r is None:
                r = LC.atom(na)
        else:
            r = LC.atom(a)
        memo[a] = r
        return r

    def sl(x):
        r = memo_lc.get(x)
        if r is not None:
            return r
        m = {}
        for a, c in x.m.items():
            for b, d in sa(a).m.items():
                m[b] = m.get(b, 0) + c * d
        r = LC(m)
        memo_lc[x] = r
        return r

    if isinstance(t, LC):
        return sl(t)
    return t
