"""PolarGrid representatives for the index-skeleton analyses: an abstract PolarGrid object whose integer
members are concrete and whose coordinate arrays are abstract (elements erased)."""
from .conc import Arr, TOP
from .interp import Cell, Obj


def make_grid(nr, ntheta, nsc, name="grid"):
    g = Obj("PolarGrid")

    def put(k, v):
        g.f[k] = Cell(v, k)

    put("nr_", nr)
    put("ntheta_", ntheta)
    put("is_ntheta_PowerOfTwo_", (ntheta & (ntheta - 1)) == 0)
    put("radii_", Arr(name + ".radii_", nr))
    put("angles_", Arr(name + ".angles_", ntheta + 1))
    put("radial_spacings_", Arr(name + ".radial_spacings_", nr - 1))
    put("angular_spacings_", Arr(name + ".angular_spacings_", ntheta))
    put("smoother_splitting_radius_", TOP)
    put("number_smoother_circles_", nsc)
    put("length_smoother_radial_", nr - nsc)
    put("number_circular_smoother_nodes_", nsc * ntheta)
    put("number_radial_smoother_nodes_", (nr - nsc) * ntheta)
    g.shape = (nr, ntheta, nsc)
    return g
