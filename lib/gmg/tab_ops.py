"""TAB for the discrete operator: residual (give/take), coefficient caches, direct-solver matrices.
Every implementation is interpreted from source on representative grids into an exact matrix table
{row: {col: rational-function DAG}}; tables are compared by identity testing (lib/gmg/dag.py)."""
from . import dag, ir, opsdom, symdom
from .conc import Arr
from .dag import Lin
from .interp import Cell, Interp, Obj, Undef
from .symdom import SArr

_prog = None


def load():
    global _prog
    if _prog is None:
        _prog = ir.load(units=opsdom.OPS_UNITS, witness=False)
    return _prog


class Setting:
    """one representative grid with input objects; builds caches/operators on demand and collects parallel regions"""

    def __init__(self, prog, nr, nt, nsc, dirbc, threads=2):
        self.prog = prog
        self.shape = (nr, nt, nsc)
        self.dirbc = dirbc
        self.dom = opsdom.OpsDomain(prog, threads=threads)
        self.it = Interp(prog, self.dom)
        self.grid = symdom.sym_grid(nr, nt, nsc)
        self.geom, self.coef = opsdom.make_inputs()
        self.N = nr * nt
        self.caches = {}

    def key(self):
        return "nr=%d ntheta=%d nsc=%d DirBC=%s" % (self.shape + (self.dirbc,))

    def cache(self, cc, cg):
        if (cc, cg) not in self.caches:
            self.caches[(cc, cg)] = opsdom.finest_cache(self.prog, self.dom, self.grid, self.geom, self.coef, cc, cg)
        return self.caches[(cc, cg)]

    def rt(self, idx):
        nr, nt, nsc = self.shape
        if idx < nsc * nt:
            return idx // nt, idx % nt
        k = idx - nsc * nt
        return nsc + k % (nr - nsc), k // (nr - nsc)

    def index(self, r, t):
        nr, nt, nsc = self.shape
        t %= nt
        if r < nsc:
            return t + nt * r
        return nsc * nt + (r - nsc) + (nr - nsc) * t

    def dirichlet(self, idx):
        r, t = self.rt(idx)
        return r == self.shape[0] - 1 or (self.dirbc and r == 0)

    def residual(self, cls, cache, grid=None):
        """A table of rhs - A x computed by class cls; returns (A, problems)"""
        grid = grid or self.grid
        n = grid.shape[0] * grid.shape[1]
        op = opsdom.operator(self.prog, self.dom, cls, grid, cache, self.geom, self.coef, self.dirbc, self.dom.threads)
        x = SArr("x", n, gen=lambda j: Lin.var(j))
        rhs = SArr("rhs", n, gen=lambda j: Lin.var(("f", j)))
        out = SArr("result", n)
        n0 = len(self.dom.regions)
        self.it.call_function(self.prog.fn(cls + "::computeResidual"), op, [Cell(out), Cell(rhs), Cell(x)])
        regs = self.dom.regions[n0:]
        A = {}
        probs = []
        for i in range(n):
            v = out.sym.get(i)
            if v is None:
                probs.append("result[%d] never written" % i)
                continue
            if not isinstance(v, Lin):
                probs.append("result[%d] does not depend on the inputs" % i)
                continue
            row = {}
            for k, c in v.t.items():
                if isinstance(k, tuple) and k[0] == "f":
                    if k[1] != i or not dag.equal(c, dag.ONE):
                        probs.append("result[%d] takes rhs[%s] with weight %s" % (i, k[1], dag.show(c, 80)))
                else:
                    if not dag.is_zero(c):
                        row[k] = dag.sub(dag.ZERO, c)
            if ("f", i) not in v.t:
                probs.append("result[%d] does not contain rhs[%d]" % (i, i))
            if not dag.is_zero(v.c):
                probs.append("result[%d] has a constant part" % i)
            A[i] = row
        return A, probs, regs


def diff_tables(A, B, limit=3):
    out = []
    for i in sorted(set(A) | set(B)):
        ra, rb = A.get(i, {}), B.get(i, {})
        for c in set(ra) | set(rb):
            if not dag.equal(ra.get(c, dag.ZERO), rb.get(c, dag.ZERO)):
                out.append((i, c, dag.show(ra.get(c, dag.ZERO), 120), dag.show(rb.get(c, dag.ZERO), 120)))
                if len(out) >= limit:
                    return out
    return out


def cache_arrays(cache):
    out = {}
    for name in ("sin_theta_", "cos_theta_", "coeff_alpha_", "coeff_beta_", "arr_", "att_", "art_", "detDF_"):
        a = cache.f[name].get()
        out[name] = a
    return out


def compare_caches(c1, c2):
    """c1, c2 LevelCache objects: same flags, same array lengths, same contents"""
    probs = []
    for fl in ("cache_density_profile_coefficients_", "cache_domain_geometry_"):
        if c1.f[fl].get() != c2.f[fl].get():
            probs.append("flag %s differs" % fl)
    a1, a2 = cache_arrays(c1), cache_arrays(c2)
    for name in a1:
        x, y = a1[name], a2[name]
        if x.length != y.length:
            probs.append("%s has length %s, a fresh cache on the coarse grid has %s" % (name, x.length, y.length))
            continue
        for i in range(x.length or 0):
            vx = x.sym.get(i)
            vy = y.sym.get(i)
            if vx is None or vy is None:
                if vx is not vy:
                    probs.append("%s[%d] is %s in one cache and %s in the other" % (name, i, "unset" if vx is None else "set", "unset" if vy is None else "set"))
                    break
                continue
            if not dag.equal(vx, vy):
                probs.append("%s[%d] = %s but a fresh evaluation at the coarse node gives %s" % (name, i, dag.show(vx, 100), dag.show(vy, 100)))
                break
    return probs


def make_gmgpolar(S, levels, threads=2):
    """abstract GMGPolar object for the member functions that loop over a level (rhs build/discretisation, exact error,
    extrapolated residual): levels_ holds the given Level objects, input functions are uninterpreted"""
    gm = Obj("GMGPolar")
    lv = opsdom.ObjVec("Level", "levels_")
    lv.items = list(levels)
    th = Arr("threads_per_level_", 8, elem="int", ints={i: threads for i in range(8)})
    for k, v in (("levels_", lv), ("threads_per_level_", th), ("DirBC_Interior_", S.dirbc), ("source_term_", opsdom.AbstractInput("source")),
                 ("boundary_conditions_", opsdom.AbstractInput("boundary")), ("exact_solution_", opsdom.AbstractInput("exact")),
                 ("domain_geometry_", S.geom), ("density_profile_coefficients_", S.coef)):
        gm.f[k] = Cell(v, k)
    default_other_members(S.dom, gm, "GMGPolar")
    return gm


def default_other_members(dom, obj, cls):
    """members of cls that a hand-built abstract object does not name get what a default-constructed member holds where the
    domain knows the type (empty vectors, zero-length arrays, literal in-class initialisers), otherwise stay unassigned: a
    member added to the class later does not break the analysis unless the analysed code really depends on it"""
    c = dom.prog.classes.get(cls) or {}
    for fd in c.get("fields", []):
        if fd["name"] in obj.f:
            continue
        try:
            v = dom.field_default(fd["t"], fd["name"])
        except Exception:
            v = Undef(fd["name"])
        init = fd.get("init")
        while init is not None and init.get("k") in ("Paren", "Cast", "ImplicitCast", "Expr") and init.get("e") is not None:
            init = init["e"]
        if init is not None and init.get("k") in ("Int", "Bool") and "v" in init:
            v = bool(init["v"]) if init["k"] == "Bool" else int(init["v"])
        if isinstance(v, Undef) and (fd["t"].startswith("Vector<") or fd["t"].startswith("std::vector<")):
            try:
                v = dom.new_object(fd["t"].replace("const ", "").strip(), None, None)
            except Exception:
                pass
        obj.f[fd["name"]] = Cell(v, fd["name"])
