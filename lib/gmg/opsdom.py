"""Operator interpretation: SymDomain + abstract input functions + OpenMP effect recording (EFF, DESIGN 3.3).

One interpretation of an operator on a representative grid yields both its exact table (TAB) and its effect
log with happens-before structure (EFF)."""
import re
from . import conc, dag, ir, symdom
from .conc import Arr, PtrInto, strip_targs
from .dag import Lin, Node
from .interp import Cell, Interp, Obj, Opaque, ThrowEx, Undef
from .ir import AnalysisBroken
from .symdom import SArr, SymDomain

OPS_UNITS = [
    "src/Level/levelCache.cpp", "src/Level/level.cpp", "src/PolarGrid/polargrid.cpp", "src/PolarGrid/multiindex.cpp", "src/Stencil/stencil.cpp",
    "src/Residual/residual.cpp", "src/Residual/ResidualGive/residualGive.cpp", "src/Residual/ResidualGive/applyAGive.cpp",
    "src/Residual/ResidualTake/residualTake.cpp", "src/Residual/ResidualTake/applyResidualTake.cpp",
    "src/DirectSolver/directSolver.cpp",
    "src/DirectSolver/DirectSolverGiveCustomLU/buildSolverMatrix.cpp", "src/DirectSolver/DirectSolverGiveCustomLU/matrixStencil.cpp",
    "src/DirectSolver/DirectSolverGiveCustomLU/directSolverGive.cpp",
    "src/DirectSolver/DirectSolverTakeCustomLU/buildSolverMatrix.cpp", "src/DirectSolver/DirectSolverTakeCustomLU/matrixStencil.cpp",
    "src/DirectSolver/DirectSolverTakeCustomLU/directSolverTake.cpp",
    "src/GMGPolar/build_rhs_f.cpp", "src/GMGPolar/solver.cpp",
]


class AbstractInput:
    """DomainGeometry / DensityProfileCoefficients / BoundaryConditions / SourceTerm: every method is an uninterpreted function"""

    def __init__(self, kind):
        self.kind = kind

    def __repr__(self):
        return "<%s>" % self.kind


class ObjVec:
    """std::vector of class objects"""

    def __init__(self, cls, name):
        self.cls = cls
        self.name = name
        self.items = []

    def __repr__(self):
        return "ObjVec(%s x %d)" % (self.cls, len(self.items))


SOLVER_CLASSES = ("SymmetricTridiagonalSolver<double>", "DiagonalSolver<double>", "SparseLUSolver<double>")


class Effect:
    __slots__ = ("arr", "idx", "w", "site", "phase", "it", "repl")

    def __init__(self, arr, idx, w, site, phase, it, repl):
        self.arr, self.idx, self.w, self.site, self.phase, self.it, self.repl = arr, idx, w, site, phase, it, repl


class Region:
    """one `omp parallel` region: effects tagged with (phase group, loop number, iteration)"""

    def __init__(self, site, fn):
        self.site = site
        self.fn = fn
        self.effects = []
        self.group = 0  # incremented at every barrier (end of an omp-for without nowait, explicit barrier)
        self.loop = 0
        self.cur = None  # (loop number, iteration) while inside a worksharing loop, None: replicated code
        self.private = set()  # array ids allocated inside the region (thread-private)
        self.loops = []
        from .interp import _cell_serial
        self.serial0 = _cell_serial[0] + 1
        self.shared_writes = []
        self.carried = []   # (variable, site): a scalar read in one iteration of a worksharing loop that an earlier iteration wrote
        self.reductions = []
        self.schedule = None
        self.prot = None      # ("atomic",) / ("critical", name) while inside such a construct
        self.protected = {}   # effect number -> protection
        self.protected_scalar_writes = []


class OpsDomain(SymDomain):
    def __init__(self, prog, threads=2, record=True):
        SymDomain.__init__(self, prog)
        self.threads = threads
        self.record = record
        self.regions = []
        self.region = None
        self.unknown_omp = []
        self.seq_effects = []
        self.solver_calls = []
        self.solve_no = 0
        self.lu_dim = None

    # ------------------------------------------------------------ which functions were interpreted (for the predicate census)
    def enter(self, fn, this, fr, site):
        v = self.__dict__.setdefault("visited", {})
        v.setdefault(fn["qn"], fn)

    # ------------------------------------------------------------ threads
    def num_threads(self):
        return self.threads

    # ------------------------------------------------------------ effects
    def on_read(self, arr, idx, site):
        self.bounds(arr, idx, site)
        self.eff(arr, idx, False, site)

    def on_write(self, arr, idx, site):
        self.bounds(arr, idx, site)
        self.eff(arr, idx, True, site)

    def eff(self, arr, idx, w, site):
        r = self.region
        if r is None or not self.record:
            return
        if arr.id in r.private:
            return
        if getattr(r, "prot", None) is not None:
            r.protected[len(r.effects)] = r.prot
        r.effects.append((arr.id, arr.name, idx, w, site, r.group, r.cur))

    def write(self, cell, v, e, fr):
        r = self.region
        if r is not None and getattr(r, "loop_serial0", None) is not None and getattr(cell, "serial", 1 << 60) < r.loop_serial0:
            r.iter_written.add(cell.serial)
        if r is not None and self.record and getattr(cell, "serial", 1 << 60) < r.serial0:
            # a scalar that exists outside the region is written inside it
            if getattr(r, "prot", None) is not None:
                # under atomic / in a critical section: no race among such writers (C11); the order of the updates is the
                # schedule's, which matters for a floating-point accumulation (C12)
                r.protected_scalar_writes.append(("%s#%d" % (cell.name, cell.serial), ir.locstr(e), r.group, r.cur, isinstance(v, (int, bool)), r.prot))
            else:
                r.shared_writes.append(("%s#%d" % (cell.name, cell.serial), ir.locstr(e), r.group, r.cur))
        cell.set(v)

    def new_array(self, name, n, elem):
        a = SArr(name, n, zero=True) if elem == "double" else SymDomain.new_array(self, name, n, elem)
        if self.region is not None:
            self.region.private.add(a.id)
        return a

    def default_value(self, t, v, fr):
        r = SymDomain.default_value(self, t, v, fr)
        if isinstance(r, Arr) and self.region is not None:
            self.region.private.add(r.id)
        return r

    def new_object(self, cls, e, fr):
        """an object constructed inside a parallel region is the constructing thread's own: so are the arrays it holds"""
        o = SymDomain.new_object(self, cls, e, fr)
        if self.region is not None:
            self.region.__dict__.setdefault("local_objs", {})[id(o)] = o
            self.mark_private(o)
        return o

    def clone_arr(self, x):
        a = SymDomain.clone_arr(self, x)
        if self.region is not None:
            self.region.private.add(a.id)      # a copy made inside the region is new storage of the copying thread
        return a

    def mark_private(self, o):
        seen = set()

        def mark(x):
            if id(x) in seen:
                return
            seen.add(id(x))
            if isinstance(x, Arr):
                self.region.private.add(x.id)
            elif isinstance(x, Obj):
                for c in x.f.values():
                    mark(c.get() if isinstance(c, Cell) else c)
            elif isinstance(x, (list, tuple)):
                for y in x:
                    mark(y)
        mark(o)

    def leave(self, fn, this, fr):
        # a constructor that ran inside the region for an object created there has just filled in its members (copies of
        # the arrays its initialisers built): they belong to that object
        if self.region is not None and fn.get("special") and id(this) in getattr(self.region, "local_objs", {}):
            self.mark_private(this)

    # ------------------------------------------------------------ OpenMP
    def clause(self, s, name):
        for c in s.get("clauses", []):
            if c.get("ck") == name:
                return c
        return None

    def omp(self, s, fr):
        d = s["dir"]
        it = self.interp
        if d in ("parallel", "parallel for"):
            cif = self.clause(s, "if")
            if cif is not None:
                it.rvalue(cif["e"], fr)  # evaluated for effects/bounds; taken as true (DESIGN App. D)
            if self.region is not None:
                # a parallel construct met inside a region: with nested parallelism off (the default) the inner team has one
                # thread, so EVERY thread of the outer team executes the whole construct; with it on, every outer thread
                # still executes all of it (spread over its inner team).  Either way the body is replicated work of the
                # outer team: its writes to shared data race with themselves.  Inside a worksharing iteration it would be
                # that unit's own work with inner units the model does not have.
                if self.region.cur is not None:
                    raise AnalysisBroken("parallel region nested in a worksharing loop at %s" % ir.locstr(s))
                self.region.nested = getattr(self.region, "nested", 0) + 1
                self.region.nested_sites = getattr(self.region, "nested_sites", []) + [ir.locstr(s)]
                try:
                    it.exec(s["body"], fr)
                finally:
                    self.region.nested -= 1
                return
            r = Region(ir.locstr(s), fr.fn["qn"])
            for c in s.get("clauses", []):
                if c.get("ck") not in ("if", "reduction", "num_threads", "private", "shared", "firstprivate", "default", "schedule", "nowait", "collapse"):
                    self.unknown_omp.append((c.get("ck"), ir.locstr(s)))
                if c.get("ck") == "schedule":
                    r.schedule = c.get("kind")
            r.reductions = [ir.show(v) for c in s.get("clauses", []) if c.get("ck") == "reduction" for v in c.get("vars", [])]
            r.region_clauses = list(s.get("clauses", []))
            self.region = r
            self.regions.append(r)
            try:
                if d == "parallel for":
                    self.ws_loop(s, s["body"], fr, nowait=False)
                else:
                    it.exec(s["body"], fr)
            finally:
                self.region = None
            return
        if d == "for":
            if self.region is None:
                raise AnalysisBroken("orphaned omp for at %s" % ir.locstr(s))
            if getattr(self.region, "nested", 0):
                it.exec(s["body"], fr)      # binds to the inner (one-thread) team: an ordinary loop of the replicated code
                return
            self.ws_loop(s, s["body"], fr, nowait=self.clause(s, "nowait") is not None)
            return
        if d == "barrier":
            if self.region is not None and not getattr(self.region, "nested", 0):
                self.region.group += 1
            return
        if d in ("single", "master"):
            # executed by one thread of the team: one unit of work of its own; `single` ends with a barrier unless nowait
            if self.region is None:
                it.exec(s["body"], fr)
                return
            r = self.region
            if getattr(r, "nested", 0):
                it.exec(s["body"], fr)      # one thread of the inner one-thread team: every outer thread runs it
                return
            if r.cur is not None:
                raise AnalysisBroken("'%s' nested in a worksharing loop at %s" % (d, ir.locstr(s)))
            r.singles = getattr(r, "singles", 0) + 1
            r.cur = (d, r.singles)
            try:
                it.exec(s["body"], fr)
            finally:
                r.cur = None
            if d == "single" and self.clause(s, "nowait") is None:
                r.group += 1
            return
        if d in ("atomic", "critical"):
            # mutual exclusion: two accesses under the same kind of protection (atomic; critical sections of one name) do not
            # race with each other; they still race with unprotected accesses, and the *order* of the protected updates is
            # the schedule's (C12 R-C12-1 counts them as several writers of one element)
            if self.region is None:
                it.exec(s["body"], fr)
                return
            r = self.region
            if getattr(r, "prot", None) is not None:
                raise AnalysisBroken("nested atomic/critical at %s" % ir.locstr(s))
            r.prot = ("atomic",) if d == "atomic" else ("critical", s.get("name") or "")
            try:
                it.exec(s["body"], fr)
            finally:
                r.prot = None
            return
        if d == "simd":
            # asserts that the iterations are independent; inside one unit of work it is an ordinary loop
            it.exec(s["body"], fr)
            return
        if d in ("task", "taskwait", "taskgroup", "sections", "section"):
            self.unknown_omp.append((d, ir.locstr(s)))
            raise AnalysisBroken("OpenMP construct '%s' at %s is outside the happens-before model" % (d, ir.locstr(s)))
        raise AnalysisBroken("OpenMP directive '%s' at %s not modelled" % (d, ir.locstr(s)))

    def ws_loop(self, s, loop, fr, nowait):
        """worksharing loop: every iteration is a separate unit of work, unordered w.r.t. the others"""
        it = self.interp
        r = self.region
        if loop.get("k") != "For":
            raise AnalysisBroken("omp for without a canonical loop at %s" % ir.locstr(s))
        for c in s.get("clauses", []):
            if c.get("ck") == "schedule":
                r.schedule = c.get("kind")
            if c.get("ck") == "collapse":
                # with collapse(n>1) the units of work are tuples of iterations of the n outer loops; this model takes the
                # iterations of the outermost loop as units, which would hide a conflict between two inner iterations
                self.unknown_omp.append(("collapse", ir.locstr(s)))
                raise AnalysisBroken("collapse clause at %s: units of work of a collapsed loop nest are outside the model" % ir.locstr(s))
        r.loop += 1
        ln = r.loop
        r.loops.append((ln, ir.locstr(s), nowait, r.group))
        from . import interp as _interp
        outer_serial = _interp._cell_serial[0] + 1      # cells created from here on belong to this loop (its variable, its body)
        it.exec(loop["init"], fr)
        n = 0
        from .interp import BreakEx, ContinueEx
        red_names = set(v.get("name") for c in s.get("clauses", []) + (getattr(r, "region_clauses", None) or []) if c.get("ck") == "reduction" for v in c.get("vars", []))
        prev_written = set()
        r.iter_written = set()
        r.loop_serial0 = outer_serial

        def on_cell_read(cell, e_, _r=r, _site=ir.locstr(s)):
            sn = getattr(cell, "serial", 1 << 60)
            if sn < outer_serial and sn in prev_written and sn not in _r.iter_written and cell.name not in red_names:
                _r.carried.append((cell.name, ir.locstr(e_), _site))
                prev_written.discard(sn)     # one report per variable and loop
        old_hook = _interp.CELL_READ_HOOK[0]
        _interp.CELL_READ_HOOK[0] = on_cell_read
        while True:
            if loop["c"] is not None and not it.truth(it.rvalue(loop["c"], fr), loop["c"], fr):
                break
            r.cur = (ln, n)
            r.iter_written = set()
            try:
                it.exec(loop["body"], fr)
            except ContinueEx:
                pass
            except BreakEx:
                raise AnalysisBroken("break out of a worksharing loop at %s" % ir.locstr(s))
            finally:
                r.cur = None
                prev_written |= r.iter_written
            if loop["inc"] is not None:
                it.eval(loop["inc"], fr)
            n += 1
            if n > 100000:
                _interp.CELL_READ_HOOK[0] = old_hook
                raise AnalysisBroken("loop limit at %s" % ir.locstr(s))
        _interp.CELL_READ_HOOK[0] = old_hook
        r.loop_serial0 = None
        if not nowait:
            r.group += 1

    # ------------------------------------------------------------ vectors of objects / solver summaries
    def field_default(self, t, name):
        import re
        m = re.match(r"^(const\s+)?std::vector<\s*((SymmetricTridiagonalSolver|DiagonalSolver)<double>)\s*>", t.strip())
        if m:
            return ObjVec(m.group(2), name)
        if t.strip().replace("const ", "") in SOLVER_CLASSES or t.strip().startswith("SparseMatrixCSR<double>"):
            return self.new_object(t.strip().replace("const ", ""), None, None)
        return SymDomain.field_default(self, t, name)

    def make_default(self, cls):
        o = self.new_object(cls, None, None)
        short = cls.split("<")[0]
        c = [f for f in self.prog.fns("%s::%s" % (cls, short)) if len(f["params"]) == 0]
        if c:
            self.interp.call_function(c[0], o, [])
        return o

    def param_used(self, qn, idx):
        """does the body of function qn mention its idx-th parameter at all? (derived from the IR on every run)"""
        key = (qn, idx)
        cache = self.__dict__.setdefault("_param_used", {})
        if key not in cache:
            fn = self.prog.fn(qn)
            pid = fn["params"][idx]["id"]
            cache[key] = any(n.get("k") == "Ref" and n.get("id") == pid for n in ir.walk(fn["body"]))
        return cache[key]

    def scratch_written(self, obj, args):
        """which scratch arguments of solveInPlace the solver actually touches (read off the solver's source)"""
        cls = obj.cls
        if cls.startswith("SymmetricTridiagonalSolver"):
            out = []
            if obj.f["is_cyclic_"].get():
                q = cls + "::solveSymmetricCyclicTridiagonal"   # (x, u = temp1, scratch = temp2)
                if len(args) > 1 and self.param_used(q, 1):
                    out.append(args[1])
                if len(args) > 2 and self.param_used(q, 2):
                    out.append(args[2])
            else:
                q = cls + "::solveSymmetricTridiagonal"  # (x, scratch = temp1)
                if len(args) > 1 and self.param_used(q, 1):
                    out.append(args[1])
            return out
        return list(args[1:])

    def solver_summary(self, obj, mname, args, e, fr):
        """footprint summary of a line / LU solve (DESIGN 3.3): reads and writes rhs[off..off+n), writes the scratch
        vectors, reads+writes the solver object (first solve factorises). The solution becomes fresh unknowns."""
        site = ir.locstr(e)
        p = args[0]
        if isinstance(p, SArr):
            p = PtrInto(p, 0)
        if not isinstance(p, PtrInto):
            raise AnalysisBroken("solveInPlace argument is not a pointer into a vector at %s" % site)
        if obj.cls.startswith("SparseLUSolver") and "__factorised_table" in obj.f:
            n = len(obj.f["__factorised_table"].get()[1])
        elif obj.cls.startswith("SparseLUSolver"):
            n = self.lu_dim
        else:
            n = obj.f["matrix_dimension_"].get()
        if not isinstance(n, int):
            raise AnalysisBroken("solver dimension unknown at %s" % site)
        arr = p.arr
        state = getattr(obj, "_state_arr", None)
        if state is None:
            state = obj._state_arr = Arr("solver-state:%s" % obj.cls, 1)
        self.on_read(state, 0, site)
        self.on_write(state, 0, site)
        rows = {}
        for i in range(n):
            rows[i] = symdom.SElem(arr, p.off + i, self, site).get()
        for s_ in self.scratch_written(obj, args):
            if isinstance(s_, SArr):
                s_ = PtrInto(s_, 0)
            if isinstance(s_, PtrInto):
                for i in range(n):
                    self.on_write(s_.arr, s_.off + i, site)
        self.solve_no += 1
        call = {"solver": obj, "kind": obj.cls, "arr": arr, "off": p.off, "n": n, "rows": rows, "site": site, "seq": self.solve_no,
                "group": (len(self.regions), self.region.group) if self.region is not None else (len(self.regions), -1 - self.solve_no),
                "fn": fr.fn["qn"]}
        self.solver_calls.append(call)
        for i in range(n):
            symdom.SElem(arr, p.off + i, self, site).set(Lin.var(("y", arr.name, p.off + i, self.solve_no)))
        return None

    # ------------------------------------------------------------ calls
    def call(self, e, fr):
        it = self.interp
        k = e["k"]
        if k == "OpCall" and e["op"] == "[]" and len(e["args"]) == 2:
            b = it.rvalue(e["args"][0], fr)
            if isinstance(b, ObjVec):
                i = it.rvalue(e["args"][1], fr)
                if not (0 <= i < len(b.items)):
                    self.oob.append((b.name, i, len(b.items), ir.locstr(e)))
                    conc.GLOBAL_OOB.append((b.name, i, len(b.items), ir.locstr(e)))
                    raise ThrowEx("vector index out of range", ir.locstr(e))
                return b.items[i]
        if k == "Call" and "this" in e and e["this"] is not None:
            th = it.eval(e["this"], fr)
            th = th.get() if isinstance(th, Cell) else th
            if isinstance(th, AbstractInput) and strip_targs(e.get("callee", "")).rsplit("::", 1)[-1] in ("operator bool", "get"):
                # the smart pointer that holds an input function object: set, in every configuration the analyses consider
                return True if "operator bool" in e.get("callee", "") else th
            if isinstance(th, ObjVec) and strip_targs(e.get("callee", "")).rsplit("::", 1)[-1] == "empty":
                return not th.items
            if isinstance(th, ObjVec):
                m = strip_targs(e.get("callee", "")).rsplit("::", 1)[-1]
                if m == "resize":
                    n = it.rvalue(e["args"][0], fr)
                    while len(th.items) < n:
                        th.items.append(self.make_default(th.cls))
                    del th.items[n:]
                    return None
                if m == "size":
                    return len(th.items)
            if isinstance(th, Obj) and th.cls in SOLVER_CLASSES and strip_targs(e.get("callee", "")).endswith("::solveInPlace"):
                return self.solver_summary(th, "solveInPlace", [it.rvalue(a, fr) for a in e["args"]], e, fr)
            if isinstance(th, AbstractInput):
                callee = e.get("callee", "")
                m = callee.rsplit("::", 1)[-1]
                vals = []
                for a in e["args"]:
                    v = it.rvalue(a, fr)
                    if isinstance(v, Lin):
                        raise AnalysisBroken("input function applied to an input-vector dependent value at %s" % ir.locstr(e))
                    vals.append(dag.lift(v))
                return dag.func("%s.%s" % (th.kind, m), *vals)
        callee = e.get("callee") or e.get("ctor") or ""
        base = strip_targs(callee)
        if k == "OpCall" and e.get("op") == "=" and len(e["args"]) == 2 and (e.get("callee") or "").startswith("SparseLUSolver<double>::operator="):
            # assignment of a (summarised) LU solver: the target becomes that solver object
            c = it.eval(e["args"][0], fr)
            v = it.rvalue(e["args"][1], fr)
            if isinstance(c, Cell) and isinstance(v, Obj) and "__factorised_table" in v.f:
                c.set(v)
                return c
            raise AnalysisBroken("assignment of a SparseLUSolver that was not constructed from a matrix at %s" % ir.locstr(e))
        if k == "Construct" and re.match(r"^(const\s+)?std::vector<\s*((SymmetricTridiagonalSolver|DiagonalSolver)<double>)\s*>", e.get("t", "").strip()) and not e["args"]:
            return ObjVec(re.match(r"^(const\s+)?std::vector<\s*((SymmetricTridiagonalSolver|DiagonalSolver)<double>)\s*>", e.get("t", "").strip()).group(2), "solvers")
        if k == "Construct" and (e.get("ctor") or "").startswith("SparseLUSolver<double>::SparseLUSolver") and len(e["args"]) == 1 and not e.get("copy") and not e.get("move"):
            # factorisation is summarised (its arithmetic is C16's): the solver object remembers, as an exact table, the
            # matrix it was handed AT THIS MOMENT; the checks compare it with the matrix the owner ends up holding
            m = it.rvalue(e["args"][0], fr)
            if isinstance(m, Obj) and m.cls.startswith("SparseMatrixCSR"):
                o = self.new_object("SparseLUSolver<double>", None, None)
                if not isinstance(m.f["rows_"].get(), int) or not isinstance(m.f["row_start_indices_"].get(), Arr):
                    T, probs = {}, ["the matrix handed to the factorisation is still default-constructed (no rows)"]
                else:
                    T, probs = csr_table(m)
                o.f["__factorised_table"] = Cell(("table", T, tuple(probs), ir.locstr(e)), "__factorised_table")
                self.lu_constructions = getattr(self, "lu_constructions", []) + [(o, ir.locstr(e))]
                return o
        if k == "Construct" and e.get("t", "").replace("const ", "").startswith(("std::vector<double", "Vector<double")) and not e.get("copy") and not e.get("move"):
            args = e["args"]
            if not args:
                return self.new_array("vec", 0, "double")
            n = it.rvalue(args[0], fr)
            if isinstance(n, int):
                a = self.new_array("vec", n, "double")
                if len(args) >= 2 and not (args[1].get("k") == "Construct" and "allocator" in args[1].get("t", "")):
                    v = it.rvalue(args[1], fr)
                    if not isinstance(v, (Arr,)):
                        for i in range(n):
                            a.sym[i] = dag.lift(v) if not isinstance(v, (Node, Lin)) else v
                return a
        if k == "Construct" and e.get("t", "").replace("const ", "").startswith("std::vector<int") and not e.get("copy") and not e.get("move"):
            args = e["args"]
            n = it.rvalue(args[0], fr) if args else 0
            if isinstance(n, int):
                return SymDomain.new_array(self, "ivec", n, "int")
        if k == "OpCall" and e["op"] == "=" and base.startswith("Vector::operator=") and len(e["args"]) == 2:
            # Vector copy assignment: element-wise copy (effects on both)
            d = it.rvalue(e["args"][0], fr)
            s_ = it.rvalue(e["args"][1], fr)
            if isinstance(d, SArr) and isinstance(s_, SArr):
                d.length = s_.length
                for i in range(s_.length or 0):
                    v = symdom.SElem(s_, i, self, ir.locstr(e)).get()
                    symdom.SElem(d, i, self, ir.locstr(e)).set(v)
                return d
        return SymDomain.call(self, e, fr)


# ---------------------------------------------------------------------------- race analysis
def races(region, limit=5):
    """definite conflicts inside one parallel region: two effects on the same element, at least one write, in the same
    barrier group, from different iterations of worksharing loops (or one from replicated code)"""
    by_elem = {}
    prot = getattr(region, "protected", {})
    for n, (aid, name, idx, w, site, group, cur) in enumerate(region.effects):
        by_elem.setdefault((aid, idx, group), []).append((w, site, cur, name, prot.get(n)))
    out = []
    for (aid, idx, group), effs in by_elem.items():
        writers = [x for x in effs if x[0]]
        if not writers:
            continue
        conflict = None
        if not any(x[4] for x in effs):
            units_w = set(x[2] for x in writers)
            units_all = set(x[2] for x in effs)
            if None in units_w:
                # replicated write: every thread executes it -> races with itself on any team >= 2
                conflict = ([x for x in writers if x[2] is None][0], [x for x in writers if x[2] is None][0])
            elif len(units_all) > 1:
                wu = writers[0]
                other = [x for x in effs if x[2] != wu[2]]
                if other:
                    conflict = (wu, other[0])
        else:
            # some accesses are atomic / inside a critical section: a pair conflicts unless both carry the same protection
            for wu in writers:
                for o in effs:
                    if o is wu and wu[2] is not None:
                        continue
                    if o[2] == wu[2] and wu[2] is not None:
                        continue      # same unit of work: program order
                    if wu[4] is not None and wu[4] == o[4]:
                        continue      # mutually exclusive
                    conflict = (wu, o)
                    break
                if conflict:
                    break
        if conflict:
            a, b = conflict
            out.append({"array": a[3], "index": idx, "group": group, "a": {"write": a[0], "site": a[1], "unit": a[2]},
                        "b": {"write": b[0], "site": b[1], "unit": b[2]}})
            if len(out) >= limit:
                break
    return out


def multi_writes(region, limit=5):
    """elements written by more than one iteration within the whole region (needs a fixed order between the writers:
    different barrier groups). Returns writer lists per element for the determinism rule."""
    by_elem = {}
    for (aid, name, idx, w, site, group, cur) in region.effects:
        if w:
            by_elem.setdefault((aid, name, idx), set()).add((group, cur))
    return {k: v for k, v in by_elem.items() if len(v) > 1}


# ---------------------------------------------------------------------------- object builders
def make_inputs():
    return AbstractInput("geometry"), AbstractInput("coefficients")


def build(prog, dom, cls, ctor_args_pred, args):
    """construct an object of class cls by interpreting the constructor selected by number of parameters"""
    it = Interp(prog, dom) if dom.interp is None else dom.interp
    short = cls.split("<")[0].split("::")[-1]
    cands = [f for f in prog.fns("%s::%s" % (cls, short)) if ctor_args_pred(f)]
    if len(cands) != 1:
        raise AnalysisBroken("anchor vanished or ambiguous: constructor of %s (%d candidates)" % (cls, len(cands)))
    obj = dom.new_object(cls, None, None)
    it.call_function(cands[0], obj, args)
    return obj


def finest_cache(prog, dom, grid, geom, coef, cache_coeff, cache_geom):
    return build(prog, dom, "LevelCache", lambda f: len(f["params"]) == 5, [Cell(grid), Cell(coef), Cell(geom), cache_coeff, cache_geom])


def coarse_cache(prog, dom, prev_level, grid):
    return build(prog, dom, "LevelCache", lambda f: len(f["params"]) == 2, [Cell(prev_level), Cell(grid)])


def operator(prog, dom, cls, grid, cache, geom, coef, dirbc, threads=2):
    return build(prog, dom, cls, lambda f: len(f["params"]) == 6, [Cell(grid), Cell(cache), Cell(geom), Cell(coef), dirbc, threads])


def build_without_body(prog, dom, cls, base, args):
    """object of class cls with in-class initialisers and the base-class constructor run, but NOT cls's own constructor
    body (used where the body does numerical work that is outside the analysis, e.g. LU factorisation)"""
    it = dom.interp
    obj = dom.new_object(cls, None, None)
    cands = [f for f in prog.fns("%s::%s" % (base, base)) if len(f["params"]) == len(args)]
    if len(cands) != 1:
        raise AnalysisBroken("anchor vanished: constructor %s::%s with %d parameters" % (base, base, len(args)))
    it.call_function(cands[0], obj, args)
    return obj


def csr_table(m):
    """{row: {col: value}} of an interpreted SparseMatrixCSR<double> object; also structural problems"""
    probs = []
    rows = m.f["rows_"].get()
    nnz = m.f["nnz_"].get()
    vals = m.f["values_"].get()
    cols = m.f["column_indices_"].get()
    ptr = m.f["row_start_indices_"].get()
    T = {}
    for r in range(rows):
        a, b = ptr.ints.get(r), ptr.ints.get(r + 1)
        row = {}
        for k in range(a, b):
            c = cols.ints.get(k)
            v = vals.sym.get(k, dag.ZERO)
            if c is None:
                probs.append("row %d slot %d has no column index" % (r, k - a))
                continue
            if c in row:
                probs.append("row %d has column %d in two slots" % (r, c))
                row[c] = dag.add(row[c], dag.lift(v))
            else:
                row[c] = dag.lift(v) if not isinstance(v, Lin) else v
        T[r] = row
    if ptr.ints.get(rows) != nnz:
        probs.append("row_start_indices[rows] = %s but nnz = %s" % (ptr.ints.get(rows), nnz))
    return T, probs
