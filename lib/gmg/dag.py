"""Exact rational-function values as hash-consed expression DAGs (TAB engine).

A floating-point value of the interpreted program is a Node: a rational function (straight-line program) over atoms
(grid spacings, coordinates, applications of input functions, ...).  Building is O(1) per operation; identities are
decided by polynomial identity testing: exact rational evaluation of the DAG at pseudo-random positive points
(Schwartz-Zippel; a non-zero value is a definite witness, K zeros decide 'identically zero' with error
probability < deg/|S|^K).  Small DAGs can be converted to sympy for readable reports.

Values that depend on entries of an input vector are kept as Lin: linear forms {x_atom: coefficient Node}.
"""
import os
import random
from fractions import Fraction

_nodes = {}
_ctr = [0]


class Node:
    __slots__ = ("op", "a", "b", "h", "id")

    def __hash__(self):
        return self.h

    def __eq__(self, o):
        return self is o

    def __repr__(self):
        return show(self)

    # arithmetic sugar
    def __add__(self, o):
        return add(self, lift(o))

    def __radd__(self, o):
        return add(lift(o), self)

    def __sub__(self, o):
        return sub(self, lift(o))

    def __rsub__(self, o):
        return sub(lift(o), self)

    def __mul__(self, o):
        return mul(self, lift(o))

    def __rmul__(self, o):
        return mul(lift(o), self)

    def __truediv__(self, o):
        return div(self, lift(o))

    def __rtruediv__(self, o):
        return div(lift(o), self)

    def __neg__(self):
        return sub(ZERO, self)

    def __pow__(self, n):
        return powi(self, n)


def _mk(op, a=None, b=None):
    key = (op, a, b)
    n = _nodes.get(key)
    if n is None:
        n = Node()
        n.op, n.a, n.b = op, a, b
        n.h = hash(key)
        _ctr[0] += 1
        n.id = _ctr[0]
        _nodes[key] = n
    return n


def const(v):
    return _mk("c", Fraction(v))


ZERO = const(0)
ONE = const(1)


def atom(name):
    return _mk("x", name)


def func(name, *args):
    return _mk("f", name, tuple(args))


def lift(v):
    if isinstance(v, Node):
        return v
    if isinstance(v, bool):
        return const(int(v))
    if isinstance(v, (int, Fraction)):
        return const(v)
    raise TypeError("cannot lift %r" % (v,))


def is_const(n):
    return n.op == "c"


def add(a, b):
    if a.op == "c" and b.op == "c":
        return const(a.a + b.a)
    if a is ZERO:
        return b
    if b is ZERO:
        return a
    if a.id > b.id:
        a, b = b, a
    return _mk("+", a, b)


def sub(a, b):
    if a.op == "c" and b.op == "c":
        return const(a.a - b.a)
    if b is ZERO:
        return a
    if a is b:
        return ZERO
    return _mk("-", a, b)


def mul(a, b):
    if a.op == "c" and b.op == "c":
        return const(a.a * b.a)
    if a is ZERO or b is ZERO:
        return ZERO
    if a is ONE:
        return b
    if b is ONE:
        return a
    if a.id > b.id:
        a, b = b, a
    return _mk("*", a, b)


def div(a, b):
    if b.op == "c":
        if b.a == 0:
            raise ZeroDivisionError("division by the constant 0 in the interpreted program")
        if a.op == "c":
            return const(a.a / b.a)
        if b is ONE:
            return a
    if a is ZERO:
        return ZERO
    return _mk("/", a, b)


def powi(a, n):
    if isinstance(n, Node):
        if n.op == "c" and n.a.denominator == 1:
            n = int(n.a)
        else:
            return func("pow", a, n)
    if n == 0:
        return ONE
    if n < 0:
        return div(ONE, powi(a, -n))
    r = ONE
    for _ in range(n):
        r = mul(r, a)
    return r


def total(items):
    r = ZERO
    for x in items:
        r = add(r, lift(x))
    return r


# ------------------------------------------------------------------ evaluation (PIT)
_PRIME_SPACE = 10 ** 6


class Point:
    """one pseudo-random positive rational assignment of all atoms (lazily extended), with memoised node values"""

    def __init__(self, seed):
        self.seed = seed
        self.memo = {}

    def atom_value(self, name):
        r = random.Random("%s|%s" % (self.seed, name))
        return Fraction(r.randint(1, _PRIME_SPACE), r.randint(1, 997))

    # fabs/abs are interpreted (so fabs(fabs(x)) == fabs(x) and x != fabs(x) where x < 0); functions whose range is
    # positive by contract (coefficient profiles, sqrt, exp, cosh) get positive values, every other uninterpreted
    # function (Jacobian entries, sin, cos, input functions, ...) gets a value of either sign.
    POSITIVE_FUNCS = ("coefficients.alpha", "coefficients.beta", "sqrt", "exp", "cosh")

    def func_value(self, name, vals):
        if name in ("fabs", "abs") and len(vals) == 1:
            return abs(vals[0])
        r = random.Random("%s|f|%s|%s" % (self.seed, name, "|".join(str(v) for v in vals)))
        v = Fraction(r.randint(1, _PRIME_SPACE), r.randint(1, 997))
        if name not in self.POSITIVE_FUNCS and not name.startswith(("rd_", "merged_token")) and r.random() < 0.5:
            v = -v
        return v

    def value(self, node):
        memo = self.memo
        if node in memo:
            return memo[node]
        stack = [node]
        while stack:
            n = stack[-1]
            if n in memo:
                stack.pop()
                continue
            op = n.op
            if op == "c":
                memo[n] = n.a
                stack.pop()
            elif op == "x":
                memo[n] = self.atom_value(n.a)
                stack.pop()
            elif op == "f":
                pend = [x for x in n.b if x not in memo]
                if pend:
                    stack.extend(pend)
                    continue
                memo[n] = self.func_value(n.a, [memo[x] for x in n.b])
                stack.pop()
            else:
                a, b = n.a, n.b
                pa, pb = a in memo, b in memo
                if not pa:
                    stack.append(a)
                if not pb:
                    stack.append(b)
                if not (pa and pb):
                    continue
                va, vb = memo[a], memo[b]
                if op == "+":
                    v = va + vb
                elif op == "-":
                    v = va - vb
                elif op == "*":
                    v = va * vb
                else:
                    if vb == 0:
                        raise ZeroDivisionError("denominator vanishes at the test point")
                    v = va / vb
                memo[n] = v
                stack.pop()
        return memo[node]


_points = None
N_TESTS = [0]


def points(k=4):
    global _points
    if _points is None:
        base = int(os.environ.get("VERIF_SEED", "0") or 0)
        _points = [Point("p%d-%d" % (base, i)) for i in range(k)]
    return _points


def is_zero(n):
    n = lift(n)
    if n is ZERO:
        return True
    if n.op == "c":
        return n.a == 0
    N_TESTS[0] += 1
    for p in points():
        if p.value(n) != 0:
            return False
    return True


def equal(a, b):
    a, b = lift(a), lift(b)
    if a is b:
        return True
    return is_zero(sub(a, b))


def const_value(n):
    """the rational value of n if it evaluates to the same number at every test point (a constant in disguise, e.g.
    (R0 + p*(R - R0) - R0)/(R - R0)); None otherwise.  Same error bound as the identity test."""
    n = lift(n)
    if n.op == "c":
        return n.a
    vals = set()
    for p in points():
        try:
            vals.add(p.value(n))
        except ZeroDivisionError:
            return None
        if len(vals) > 1:
            return None
    return vals.pop()


def order_at_points(a, b):
    """-1 / 0 / +1 if a < b / a == b / a > b at every test point (atoms positive), None if the order is not uniform"""
    d = sub(lift(a), lift(b))
    sg = set()
    for p in points():
        v = p.value(d)
        sg.add((v > 0) - (v < 0))
        if len(sg) > 1:
            return None
    return sg.pop()


def is_nonneg_form(n):
    """syntactic: built from atoms and non-negative constants with + * / only (hence >= 0 for positive atoms)"""
    seen = set()
    stack = [n]
    while stack:
        x = stack.pop()
        if x in seen:
            continue
        seen.add(x)
        if x.op == "c":
            if x.a < 0:
                return False
        elif x.op == "x":
            pass
        elif x.op in ("+", "*", "/"):
            stack.append(x.a)
            stack.append(x.b)
        else:
            return False
    return True


def sign_at_points(n):
    """set of signs (-1,0,1) of n over the test points"""
    out = set()
    for p in points():
        v = p.value(n)
        out.add((v > 0) - (v < 0))
    return out


def size(n):
    seen = set()
    stack = [n]
    while stack:
        x = stack.pop()
        if x in seen:
            continue
        seen.add(x)
        if x.op in ("+", "-", "*", "/"):
            stack.append(x.a)
            stack.append(x.b)
        elif x.op == "f":
            stack.extend(x.b)
    return len(seen)


def atoms_of(n):
    seen = set()
    out = set()
    stack = [n]
    while stack:
        x = stack.pop()
        if x in seen:
            continue
        seen.add(x)
        if x.op == "x":
            out.add(x.a)
        elif x.op in ("+", "-", "*", "/"):
            stack.append(x.a)
            stack.append(x.b)
        elif x.op == "f":
            out.add("%s(...)" % x.a)
            stack.extend(x.b)
    return out


def to_sympy(n, limit=400):
    import sympy as sp
    if size(n) > limit:
        return None
    memo = {}

    def go(x):
        if x in memo:
            return memo[x]
        if x.op == "c":
            r = sp.Rational(x.a.numerator, x.a.denominator)
        elif x.op == "x":
            r = sp.Symbol(str(x.a), positive=True)
        elif x.op == "f":
            r = sp.Function(x.a)(*[go(y) for y in x.b])
        elif x.op == "+":
            r = go(x.a) + go(x.b)
        elif x.op == "-":
            r = go(x.a) - go(x.b)
        elif x.op == "*":
            r = go(x.a) * go(x.b)
        else:
            r = go(x.a) / go(x.b)
        memo[x] = r
        return r

    return go(n)


def show(n, limit=250):
    s = to_sympy(n, limit) if isinstance(n, Node) else None
    if s is None:
        if isinstance(n, Node):
            return "<rational function, %d DAG nodes over %s>" % (size(n), ", ".join(sorted(map(str, atoms_of(n)))[:8]))
        return str(n)
    try:
        import sympy as sp
        return str(sp.factor(sp.cancel(sp.together(s))))
    except Exception:
        return str(s)


def subst(n, mapping, funcs=None):
    """replace atoms (by name) with nodes; funcs: {function name: f(args) -> Node} replaces uninterpreted applications"""
    memo = {}
    funcs = funcs or {}

    def go(x):
        if x in memo:
            return memo[x]
        if x.op == "c":
            r = x
        elif x.op == "x":
            r = mapping.get(x.a, x)
        elif x.op == "f":
            args = [go(y) for y in x.b]
            r = funcs[x.a](args) if x.a in funcs else func(x.a, *args)
        elif x.op == "+":
            r = add(go(x.a), go(x.b))
        elif x.op == "-":
            r = sub(go(x.a), go(x.b))
        elif x.op == "*":
            r = mul(go(x.a), go(x.b))
        else:
            r = div(go(x.a), go(x.b))
        memo[x] = r
        return r

    import sys
    old = sys.getrecursionlimit()
    sys.setrecursionlimit(max(old, 20000))
    try:
        return go(n)
    finally:
        sys.setrecursionlimit(old)


# ------------------------------------------------------------------ linear forms in input-vector atoms
class Lin:
    """c0 + sum_k coeff_k * X_k  with Node coefficients; X_k are hashable keys (e.g. ('x', 17))"""
    __slots__ = ("c", "t")

    def __init__(self, c=ZERO, t=None):
        self.c = c
        self.t = t or {}

    @staticmethod
    def var(key):
        return Lin(ZERO, {key: ONE})

    def __repr__(self):
        return "Lin(%s; %s)" % (show(self.c, 60), {k: show(v, 60) for k, v in list(self.t.items())[:4]})


def lin_add(a, b, sign=1):
    a = a if isinstance(a, Lin) else Lin(lift(a))
    b = b if isinstance(b, Lin) else Lin(lift(b))
    t = dict(a.t)
    for k, v in b.t.items():
        if k in t:
            r = add(t[k], v) if sign > 0 else sub(t[k], v)
        else:
            r = v if sign > 0 else sub(ZERO, v)
        t[k] = r
    c = add(a.c, b.c) if sign > 0 else sub(a.c, b.c)
    return Lin(c, t)


def lin_scale(a, s, divide=False):
    s = lift(s)
    f = (lambda v: div(v, s)) if divide else (lambda v: mul(v, s))
    return Lin(f(a.c), {k: f(v) for k, v in a.t.items()})
