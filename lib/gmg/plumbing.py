"""PLUMB — the forwarding layer between the driver (analysed over operator symbols, DRV) and the operator classes
(analysed as exact tables, TAB): Level's wrappers and factory functions, and the call sites that configure them.

Rules (all structural, over the resolved program):
  forward   a wrapper's body reaches exactly one call of the same-named (virtual) method on the operator member,
            passing the wrapper's own parameters, all of them, in their order, guarded only by the null test.
  factory   in Level::initializeX every branch `method == StencilDistributionMethod::E` constructs the class of
            strategy E (name contains Take/Give accordingly) for member op_X_, and the arguments have the roles of the
            constructor's parameters (same names modulo trailing underscore / dereference), position by position.
  roles     at every call site of the listed configuration functions no two type-compatible arguments are swapped
            with respect to the callee's parameter names.
"""
import re

from . import ir

WRAPPERS = {
    "Level::computeResidual": ("op_residual_", "computeResidual"),
    "Level::directSolveInPlace": ("op_directSolver_", "solveInPlace"),
    "Level::smoothing": ("op_smoother_", "smoothing"),
    "Level::extrapolatedSmoothing": ("op_extrapolated_smoother_", "extrapolatedSmoothing"),
}
FACTORIES = {
    "Level::initializeResidual": "op_residual_",
    "Level::initializeDirectSolver": "op_directSolver_",
    "Level::initializeSmoothing": "op_smoother_",
    "Level::initializeExtrapolatedSmoothing": "op_extrapolated_smoother_",
}
STRATEGY = {"CPU_TAKE": "Take", "CPU_GIVE": "Give"}


def norm(name):
    return (name or "").rstrip("_").lower()


def role(a):
    """role name of an argument expression: the parameter/field/variable it denotes (through * and casts)"""
    k = a.get("k")
    if k in ("Paren", "Cast", "ImplicitCast"):
        return role(a["e"])
    if k == "Un" and a.get("op") == "*":
        return role(a["e"])
    if k == "OpCall" and a.get("op") in ("*", "->") and a.get("args"):
        return role(a["args"][0])
    if k == "OpCall" and a.get("op") == "[]" and a.get("args"):
        return role(a["args"][0])
    if k == "Ref":
        return a["name"]
    if k == "Field":
        return a["field"]
    return None


def scalar(t):
    t = (t or "").replace("const ", "").replace("&", "").strip()
    return t in ("bool", "int", "double", "float", "long", "unsigned", "unsigned int", "size_t", "std::size_t") or t.startswith("enum ")


def compatible(t1, t2):
    """can an argument meant for a parameter of type t1 be passed for t2 without a diagnostic?"""
    a = (t1 or "").replace("const ", "").replace("&", "").strip()
    b = (t2 or "").replace("const ", "").replace("&", "").strip()
    return a == b or (scalar(a) and scalar(b))


def calls(fn):
    for n in ir.walk(fn["body"]):
        if n.get("k") in ("Call", "Construct") and (n.get("callee") or n.get("ctor")):
            yield n


def check_forward(prog, qn):
    member, method = WRAPPERS[qn]
    fn = prog.fn(qn)
    probs = []
    hits = []
    for c in calls(fn):
        callee = c.get("callee") or ""
        if c.get("k") == "Call" and callee.rsplit("::", 1)[-1] == method and c.get("this") is not None:
            hits.append(c)
    if len(hits) != 1:
        return ["%d calls of %s() on an operator object (expected exactly one)" % (len(hits), method)], fn
    c = hits[0]
    if role(c["this"]) != member:
        probs.append("the call goes to `%s`, not to %s" % (ir.show(c["this"]), member))
    want = [p["id"] for p in fn["params"]]
    got = [a.get("id") if a.get("k") == "Ref" and a.get("rk") == "param" else None for a in c["args"]]
    if got != want:
        probs.append("forwards (%s) for its parameters (%s)" % (", ".join(ir.show(a) for a in c["args"]), ", ".join(p["name"] for p in fn["params"])))
    # no other statement may touch the parameters (a wrapper that modifies x before forwarding is not a wrapper); bookkeeping
    # of its own (a timer member, a local) is none of this rule's business
    pids = set(p["id"] for p in fn["params"])

    def root_param(t):
        while True:
            k = t.get("k")
            if k in ("Paren", "Cast", "ImplicitCast") and t.get("e") is not None:
                t = t["e"]
            elif k == "Index":
                t = t["base"]
            elif k == "OpCall" and t.get("op") in ("[]", "*") and t.get("args"):
                t = t["args"][0]
            elif k == "Un" and t.get("op") == "*":
                t = t["e"]
            elif k == "Field" and t.get("base") is not None:
                t = t["base"]
            else:
                break
        return t.get("k") == "Ref" and t.get("id") in pids

    for n in ir.walk(fn["body"]):
        tgt = None
        if n.get("k") == "Assign":
            tgt = n["a"]
        elif n.get("k") == "OpCall" and n.get("op") in ("=", "+=", "-=", "*=", "/=") and n.get("args"):
            tgt = n["args"][0]
        elif n.get("k") == "Un" and n.get("op") in ("++", "--"):
            tgt = n["e"]
        if tgt is not None and root_param(tgt):
            probs.append("modifies its parameter `%s` in a forwarding wrapper at %s" % (ir.show(tgt)[:40], ir.locstr(n)))
    # ... and no other call may receive a parameter by (non-const) reference before the forwarding call
    return probs, fn


def branch_enumerator(cond):
    """`param == Enum::E` -> E"""
    if cond.get("k") == "Paren":
        return branch_enumerator(cond["e"])
    if cond.get("k") == "Bin" and cond.get("op") == "==":
        for side in (cond["a"], cond["b"]):
            for n in ir.walk(side):
                if n.get("k") == "Enum":
                    return n["name"]
    return None


def check_factory(prog, qn):
    member = FACTORIES[qn]
    fn = prog.fn(qn)
    probs = []
    seen = {}

    def visit(s, enumerator):
        k = s.get("k")
        if k == "Block":
            for x in s["s"]:
                visit(x, enumerator)
        elif k == "If":
            e = branch_enumerator(s["c"])
            visit(s["t"], e if e in STRATEGY else enumerator)
            if s.get("e") is not None:
                visit(s["e"], enumerator)
        elif k == "Switch":
            # switch (method) { case E: ...; break; ... }: statements after a `case E` label up to the next label belong to E
            body = s["body"]
            cur = enumerator
            for x in (body["s"] if body.get("k") == "Block" else [body]):
                y = x
                while y.get("k") in ("Case", "Default"):
                    if y.get("k") == "Case":
                        names = [n_["name"] for n_ in ir.walk(y.get("v") if isinstance(y.get("v"), dict) else (y.get("e") or {})) if n_.get("k") == "Enum"]
                        cur = names[0] if names and names[0] in STRATEGY else enumerator
                    else:
                        cur = enumerator
                    y = y.get("sub") or y.get("s") or {"k": "Null"}
                    if isinstance(y, list):
                        y = {"k": "Block", "s": y}
                if y.get("k") in ("Break", "Null"):
                    continue
                visit(y, cur)
        else:
            for n in ir.walk(s):
                if n.get("k") == "Call" and (n.get("callee") or "").startswith("std::make_unique<"):
                    cls = re.match(r"std::make_unique<\s*([A-Za-z_0-9:]+)", n["callee"]).group(1)
                    seen.setdefault(enumerator, []).append((cls, n, s))

    visit(fn["body"], None)
    for e, suffix in STRATEGY.items():
        if e not in seen:
            probs.append("no operator is constructed in the branch for %s" % e)
    for e, lst in seen.items():
        for cls, n, stmt in lst:
            if e is None:
                probs.append("%s is constructed outside a strategy branch" % cls)
                continue
            if STRATEGY[e] not in cls or STRATEGY[[x for x in STRATEGY if x != e][0]] in cls:
                probs.append("the branch for %s constructs %s" % (e, cls))
            tgt = None
            for a in ir.walk(stmt):
                if a.get("k") in ("Assign", "OpCall") and a.get("op") == "=":
                    tgt = role(a["a"] if a.get("k") == "Assign" else a["args"][0])
            if tgt != member:
                probs.append("%s is stored in %s, not in %s" % (cls, tgt, member))
            ctors = [f for f in prog.fns("%s::%s" % (cls, cls)) if len(f["params"]) == len(n["args"])]
            if len(ctors) != 1:
                probs.append("constructor of %s with %d parameters not found" % (cls, len(n["args"])))
                continue
            # roles: an argument that carries the name of ANOTHER parameter of the constructor, with silently convertible
            # types, is in the wrong position (a parameter that is merely named differently from its argument is not)
            for (i, j, pi, pj) in swapped_arguments(prog, n, ctors[0]):
                probs.append("%s(...): `%s` is passed for parameter `%s` and `%s` for parameter `%s` (the types convert silently)" % (
                    cls, ir.show(n["args"][i]), pi, ir.show(n["args"][j]), pj))
    return probs, fn


def swapped_arguments(prog, call, callee_fn):
    """pairs (i, j) of type-compatible positions whose argument roles are each other's parameter names"""
    ps = callee_fn["params"]
    args = call["args"]
    out = []
    if len(ps) != len(args):
        return out
    for i in range(len(args)):
        for j in range(i + 1, len(args)):
            if not compatible(ps[i]["t"], ps[j]["t"]):
                continue
            ri, rj = norm(role(args[i])), norm(role(args[j]))
            pi, pj = norm(ps[i]["name"]), norm(ps[j]["name"])
            if pi == pj:
                continue
            if pi.startswith("cache_") and pj.startswith("cache_"):
                # one named exemption: the two cache flags select code paths that C03 R-C03-3 / C04 / C06 / C07 prove
                # equivalent under all four combinations; swapping them changes memory use, not any result
                continue
            # two-sided: each argument carries the other's parameter name; one-sided: an argument carries the name of
            # ANOTHER parameter of the callee while its own position expects a different name
            if ri and rj and ri != rj and ri == pj and rj == pi:
                out.append((i, j, ps[i]["name"], ps[j]["name"]))
            elif ri and ri == pj and ri != pi and rj != pj:
                out.append((i, j, ps[i]["name"], ps[j]["name"]))
            elif rj and rj == pi and rj != pj and ri != pi:
                out.append((i, j, ps[i]["name"], ps[j]["name"]))
    return out


def role_sites(prog, callers, callees):
    """call sites in `callers` (qualified names) of any function whose qualified name is in `callees`"""
    for qn in callers:
        for fn in prog.fns(qn):
            for c in calls(fn):
                name = c.get("callee") or c.get("ctor")
                if name in callees:
                    cands = [f for f in prog.fns(name) if len(f["params"]) == len(c["args"])]
                    if len(cands) == 1:
                        yield fn, c, cands[0]
