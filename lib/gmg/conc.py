"""Index-skeleton domain (DESIGN 3.3): integers, booleans and enums are concrete, every
floating-point value is erased to TOP, arrays are abstract objects whose element accesses are
reported as effects.  Used by C17 (index functions on representative shapes) and by EFF."""
import re

from . import ir
from .interp import Cell, Domain, Interp, Obj, Opaque, Undef, ThrowEx
from .ir import AnalysisBroken


class _Top:
    def __repr__(self):
        return "TOP"


TOP = _Top()


class Arr:
    """abstract array object"""
    _n = 0

    def __init__(self, name, length=None, elem="double", ints=None):
        Arr._n += 1
        self.id = Arr._n
        self.name = name
        self.length = length
        self.elem = elem
        self.ints = ints if ints is not None else {}  # concrete contents for int arrays

    def __repr__(self):
        return "Arr(%s#%d,len=%s)" % (self.name, self.id, self.length)


# every out-of-range access any domain of this process has met (safety net: report.Check.finish turns an entry that no
# rule reported into a violation, so a check can never pass over an access outside an array it modelled)
GLOBAL_OOB = []
GLOBAL_UNINIT = []


class Elem(Cell):
    """lvalue of one array element"""
    __slots__ = ("arr", "idx", "dom", "site")

    def __init__(self, arr, idx, dom, site):
        self.arr = arr
        self.idx = idx
        self.dom = dom
        self.site = site
        self.name = "%s[%s]" % (arr.name, idx)
        self.serial = 1 << 60

    def get(self):
        self.dom.on_read(self.arr, self.idx, self.site)
        if self.arr.elem == "int":
            if self.idx in self.arr.ints:
                return self.arr.ints[self.idx]
            return self.dom.unknown_int(self.arr, self.idx, self.site)
        return TOP

    def set(self, v):
        self.dom.on_write(self.arr, self.idx, self.site)
        if self.arr.elem == "int":
            self.arr.ints[self.idx] = v
            wl = getattr(self.arr, "wlog", None)
            if wl is None:
                wl = self.arr.wlog = {}
            wl.setdefault(self.idx, set()).add(v)


class ErasedInt:
    """the result of converting an erased floating-point value to an integer type"""

    def __init__(self, site):
        self.site = site

    def __repr__(self):
        return "ErasedInt(%s)" % self.site

    def _use(self, *a):
        raise AnalysisBroken("use of an integer converted from an erased floating-point value (conversion at %s)" % self.site)
    __index__ = __int__ = __add__ = __radd__ = __sub__ = __rsub__ = __mul__ = __rmul__ = __lt__ = __le__ = __gt__ = __ge__ = __floordiv__ = __mod__ = __neg__ = __bool__ = _use

    def __eq__(self, o):
        return self is o

    def __hash__(self):
        return id(self)


class ListElem(Cell):
    """lvalue of one element of a std::array / braced table of objects (python list)"""
    __slots__ = ("lst", "idx")

    def __init__(self, lst, idx):
        self.lst, self.idx = lst, idx
        self.name = "table[%s]" % idx
        self.serial = 1 << 60

    def get(self):
        return self.lst[self.idx]

    def set(self, v):
        self.lst[self.idx] = v


class PtrInto:
    """pointer into an array: base + offset"""

    def __init__(self, arr, off=0):
        self.arr = arr
        self.off = off

    def __repr__(self):
        return "&%s[%s]" % (self.arr.name, self.off)


def strip_targs(name):
    i = name.find("operator")
    head, tail = (name, "") if i < 0 else (name[:i], name[i:])
    out = []
    depth = 0
    for ch in head:
        if ch == "<":
            depth += 1
        elif ch == ">":
            depth -= 1
        elif depth == 0:
            out.append(ch)
    return "".join(out) + tail


class ConcDomain(Domain):
    def __init__(self, prog, choices=()):
        self.prog = prog
        self.oob = []
        self.top_branches = []
        self.top_policy = "error"  # 'error' | 'fork' (replayed case split) | True | False
        self.choices = list(choices)
        self.sizes = []
        self.n_choice = 0

    def pick(self, size, site):
        """replayed nondeterministic choice in range(size)"""
        i = self.n_choice
        self.n_choice += 1
        if i < len(self.choices):
            v = self.choices[i]
        else:
            v = 0
            self.choices.append(0)
        if i < len(self.sizes):
            self.sizes[i] = size
        else:
            self.sizes.append(size)
        return v

    # ---- effects (overridden by EFF)
    def on_read(self, arr, idx, site):
        self.bounds(arr, idx, site)

    def on_write(self, arr, idx, site):
        self.bounds(arr, idx, site)

    def bounds(self, arr, idx, site):
        if isinstance(idx, int) and arr.length is not None and not (0 <= idx < arr.length):
            self.oob.append((arr.name, idx, arr.length, site))
            GLOBAL_OOB.append((arr.name, idx, arr.length, site))

    def unknown_int(self, arr, idx, site):
        raise AnalysisBroken("int array %s read at %s before it was written (at %s)" % (arr.name, idx, site))

    # ---- values
    def float_lit(self, e):
        return TOP

    def default_value(self, t, v, fr):
        t = t.strip()
        if t.startswith("const "):
            t = t[6:]
        if t in ("double", "float"):
            return TOP
        if t.startswith("std::vector<double") or t.startswith("Vector<double"):
            return Arr(v["name"], 0)
        if t.startswith("std::vector<int"):
            return Arr(v["name"], 0, elem="int")
        return Undef(v["name"])

    def copy_value(self, v, t):
        if isinstance(v, Obj) and not t.rstrip().endswith("&"):
            return self.clone_obj(v)
        return v

    def clone_obj(self, o):
        n = Obj(o.cls)
        for k, c in o.f.items():
            ft = self.field_type(o, k)
            if ft.rstrip().endswith(("&", "*")) or ft.rstrip().endswith("* const"):
                n.f[k] = c          # a reference / pointer member of the copy denotes the same object as the original's
                continue
            x = c.get()
            if isinstance(x, Arr):
                x = self.clone_arr(x)
            elif isinstance(x, Obj):
                x = self.clone_obj(x)
            n.f[k] = Cell(x, k)
        return n

    def clone_arr(self, x):
        a = Arr(x.name, x.length, x.elem, dict(x.ints))
        if hasattr(x, "wlog"):
            a.wlog = {k: set(v) for k, v in x.wlog.items()}
        return a

    def new_object(self, cls, e, fr):
        o = Obj(cls)
        self.init_fields(o, cls)
        return o

    def init_fields(self, o, cls, seen=None):
        from .interp import Frame
        c = self.prog.classes.get(cls)
        if not c:
            return
        for b in c.get("bases", []):
            self.init_fields(o, b, seen)
        for f in c["fields"]:
            o.f[f["name"]] = Cell(self.field_default(f["t"], f["name"]), f["name"])
        for f in c["fields"]:
            if f.get("init") is not None:
                fr = Frame({"qn": cls + "::<member initialiser>", "params": [], "ret": ""}, o)
                v = self.interp.rvalue(f["init"], fr)
                if self.fill_member_array(o.f[f["name"]], v, f["init"], fr):
                    continue
                o.f[f["name"]].set(self.copy_value(v, f["t"]))

    def fill_member_array(self, cell, v, e, fr):
        """`double a[2] = {0.0, 0.0};` / `int a[3] = {...}` as a member initialiser: the brace list fills the member array
        (missing elements are zero); True if handled"""
        cur = cell.v if hasattr(cell, "v") else None
        if not (isinstance(cur, Arr) and cur.length):      # std::vector / Vector members are still empty at this point
            return False
        if not (isinstance(v, list) or (isinstance(v, Arr) and v is not cur and v.name in ("initlist", "array"))):
            return False
        vals = v if isinstance(v, list) else [v.ints.get(i, 0) for i in range(v.length or 0)]
        for i in range(cur.length):
            x = vals[i] if i < len(vals) else 0
            if cur.elem == "int":
                cur.ints[i] = x
            elif hasattr(cur, "sym"):
                cur.sym[i] = self.cast(x, "double", e, fr) if isinstance(x, (int, bool)) else x
        return True

    def field_type(self, obj, name):
        def look(cls):
            c = self.prog.classes.get(cls)
            if not c:
                return None
            for f in c["fields"]:
                if f["name"] == name:
                    return f["t"]
            for b in c.get("bases", []):
                r = look(b)
                if r is not None:
                    return r
            return None
        return look(obj.cls) or ""

    def field_default(self, t, name):
        import re
        t = t.strip()
        m_ = re.match(r"^(const\s+)?std::array<\s*(int|double)\s*,\s*([A-Za-z_][\w:]*|\d+)\s*>$", t)
        if m_:
            ext = int(m_.group(3)) if m_.group(3).isdigit() else self.named_int_constant(m_.group(3))
            if ext is None:
                raise AnalysisBroken("member %s: std::array whose extent `%s` cannot be resolved" % (name, m_.group(3)))
            if m_.group(2) == "int":
                return Arr(name, ext, elem="int")
            return Arr(name, ext)
        m = re.match(r"^(const\s+)?int\s*\[(\d+)\]$", t)
        if m:
            return Arr(name, int(m.group(2)), elem="int")
        m = re.match(r"^(const\s+)?double\s*\[(\d+)\]$", t)
        if m:
            return Arr(name, int(m.group(2)))
        if t.startswith("std::vector<double") or t.startswith("Vector<double"):
            return Arr(name, 0)
        if t.startswith("std::vector<int"):
            return Arr(name, 0, elem="int")
        if t in ("double", "float", "const double"):
            return TOP
        return Undef(name)

    def choose(self, v, e, fr):
        if v is TOP or isinstance(v, _Top):
            self.top_branches.append(ir.locstr(e))
            if self.top_policy in (True, False):
                return self.top_policy
            if self.top_policy == "fork":
                return self.pick(2, ir.locstr(e)) == 0
            raise AnalysisBroken("branch on an erased floating-point value at %s (in %s)" % (ir.locstr(e), fr.fn["qn"]))
        raise AnalysisBroken("branch on non-concrete value %r at %s" % (v, ir.locstr(e)))

    def cast(self, v, t, e, fr):
        if v is TOP:
            if t in ("int", "long", "size_t", "std::size_t", "unsigned long", "unsigned int"):
                # an integer nobody knows: storing it is harmless (a variable that is computed and never used); any USE of it
                # (arithmetic, comparison, subscript, loop bound) is outside this domain and raises there
                return ErasedInt(ir.locstr(e))
            return TOP
        if isinstance(v, bool) and t in ("int",):
            return int(v)
        if isinstance(v, int) and t in ("double", "float", "const double"):
            return TOP
        return v

    def unop(self, op, v, e, fr):
        if v is TOP:
            return TOP
        raise AnalysisBroken("unary %s on %r at %s" % (op, v, ir.locstr(e)))

    def lazy_and(self, a, e, fr):
        if a is TOP:
            b = self.interp.rvalue(e["b"], fr)
            if b is False:
                return False
            return TOP
        raise AnalysisBroken("&& on %r" % (a,))

    def lazy_or(self, a, e, fr):
        if a is TOP:
            b = self.interp.rvalue(e["b"], fr)
            if b is True:
                return True
            return TOP
        raise AnalysisBroken("|| on %r" % (a,))

    def abs_binop(self, op, a, b, e, fr):
        if isinstance(a, ErasedInt):
            a._use()
        if isinstance(b, ErasedInt):
            b._use()
        if a is TOP or b is TOP:
            if op in ("<", "<=", ">", ">=", "==", "!="):
                return TOP
            return TOP
        if isinstance(a, PtrInto) and isinstance(b, int):
            if op == "+":
                return PtrInto(a.arr, a.off + b)
            if op == "-":
                return PtrInto(a.arr, a.off - b)
        if isinstance(a, PtrInto) and isinstance(b, PtrInto) and a.arr is b.arr:
            if op == "-":
                return a.off - b.off
            if op in ("==", "!=", "<", "<=", ">", ">="):
                return {"==": a.off == b.off, "!=": a.off != b.off, "<": a.off < b.off, "<=": a.off <= b.off,
                        ">": a.off > b.off, ">=": a.off >= b.off}[op]
        def pointee(x):
            if isinstance(x, tuple) and len(x) == 2 and x[0] == "addr":
                y = x[1]
                return y.get() if isinstance(y, Cell) else y
            return x
        if op in ("==", "!=") and (isinstance(a, Obj) or isinstance(b, Obj) or (isinstance(a, tuple) and a and a[0] == "addr") or (isinstance(b, tuple) and b and b[0] == "addr")):
            same = pointee(a) is pointee(b)
            return same if op == "==" else not same
        if a is None or b is None:
            if op == "==":
                return a is b
            if op == "!=":
                return a is not b
        if isinstance(a, Opaque) or isinstance(b, Opaque):
            return TOP
        raise AnalysisBroken("binary %s on %r, %r at %s" % (op, a, b, ir.locstr(e)))

    def index(self, base, idx, e, fr):
        if isinstance(idx, ErasedInt):
            idx._use()
        if isinstance(base, list):
            if not isinstance(idx, int) or not (0 <= idx < len(base)):
                o = ("table of %d entries" % len(base), idx, len(base), ir.locstr(e))
                self.oob.append(o) if hasattr(self, "oob") else None
                GLOBAL_OOB.append(o)
                raise AnalysisBroken("subscript %r into a table of %d entries at %s" % (idx, len(base), ir.locstr(e)))
            return ListElem(base, idx)
        if isinstance(base, Arr):
            return Elem(base, idx, self, ir.locstr(e))
        if isinstance(base, PtrInto):
            return Elem(base.arr, base.off + idx, self, ir.locstr(e))
        raise AnalysisBroken("subscript on %r at %s" % (base, ir.locstr(e)))

    def deref(self, x, e, fr):
        if isinstance(x, PtrInto):
            return Elem(x.arr, x.off, self, ir.locstr(e))
        return Domain.deref(self, x, e, fr)

    def field_of(self, base, e, fr):
        if isinstance(base, dict) and e["field"] in base:
            return base[e["field"]]
        raise AnalysisBroken("field %s of %r at %s" % (e["field"], base, ir.locstr(e)))

    # ---- generic intrinsics; subclasses extend
    def call(self, e, fr):
        it = self.interp
        k = e["k"]
        callee = e.get("callee") or e.get("ctor") or ""
        base = strip_targs(callee)
        mname = base.rsplit("::", 1)[-1]
        args = e["args"]
        site = ir.locstr(e)
        # std::atomic<T> (call counters and the like): its operations are atomic by definition and its value is never an index or
        # a bound in this code base; kept as an opaque value whose operations do nothing observable to the analyses
        if k == "Construct" and (e.get("t") or "").replace("const ", "").startswith("std::atomic<"):
            for a_ in args:
                it.rvalue(a_, fr)
            return Opaque("atomic")
        if k in ("Call", "OpCall") and ("std::atomic" in callee or "std::__atomic" in callee):
            for a_ in (args[1:] if k == "OpCall" else args):
                it.rvalue(a_, fr)
            return Opaque("atomic")
        if k == "OpCall":
            op = e["op"]
            if op == "[]":
                b = it.rvalue(args[0], fr)
                if isinstance(b, Obj):
                    return NotImplemented  # user-defined operator[]: inlined from the IR
                i = it.rvalue(args[1], fr)
                return self.index(b, i, e, fr)
            if op in ("->", "*") and len(args) == 1:
                v_ = it.rvalue(args[0], fr)
                if op == "*" and isinstance(v_, PtrInto):
                    return self.elem_class()(v_.arr, v_.off, self, site)   # dereferenced iterator into a vector
                return v_
            if op == "=" and len(args) == 2 and not self.prog.fns(callee):
                # implicitly defined (memberwise) copy/move assignment
                c = it.eval(args[0], fr)
                v = it.rvalue(args[1], fr)
                if isinstance(c, Cell) and isinstance(v, Obj):
                    c.set(self.clone_obj(v))
                    return c
                if isinstance(c, Cell):
                    c.set(v)
                    return c
            if op == "<<":
                for a in args:
                    it.rvalue(a, fr)
                return Opaque("stream")
        if k == "Construct" and (e.get("copy") or e.get("move")) and len(args) == 1:
            v = it.rvalue(args[0], fr)
            return self.copy_value(v, e.get("t", ""))
        if k == "Construct" and e.get("t", "").replace("const ", "").startswith("std::unique_ptr<") and len(args) <= 1:
            return it.rvalue(args[0], fr) if args else None
        if k == "Construct" and e.get("t", "").startswith("std::function<") and len(args) == 1:
            return it.rvalue(args[0], fr)
        if k == "OpCall" and e["op"] == "()" and args:
            f0 = it.rvalue(args[0], fr)
            if isinstance(f0, tuple) and f0 and f0[0] == "lambda":
                return self.call_lambda(f0, [it.rvalue(a, fr) for a in args[1:]], e)
        if k == "Construct" and not e.get("copy") and not e.get("move") and len(args) <= 2:
            t_ = e.get("t", "").replace("const ", "").strip()
            if t_.startswith("std::vector<double") or t_.startswith("std::vector<int"):
                # std::vector<T> v; / v(n); / v(n, value)
                elem_ = "int" if t_.startswith("std::vector<int") else "double"
                vals = [it.rvalue(a_, fr) for a_ in args]
                if not vals or isinstance(vals[0], int):
                    a_ = self.new_array("vector", 0, elem_)
                    self.vector_assign(a_, vals[0] if vals else 0, vals[1] if len(vals) > 1 else 0, e, fr)
                    return a_
        if base == "std::make_unique" and "[]" in callee and len(args) == 1:
            n = it.rvalue(args[0], fr)
            elem = "int" if "<int[]>" in callee.replace(" ", "") else "double"
            return self.new_array("heap", n, elem)
        if base in ("std::copy", "std::move") and len(args) == 3:
            a, b, c = (it.rvalue(x, fr) for x in args)
            if isinstance(a, PtrInto) and isinstance(b, PtrInto) and isinstance(c, PtrInto):
                for i in range(b.off - a.off):
                    v = self.index(a.arr, a.off + i, e, fr).get()
                    self.index(c.arr, c.off + i, e, fr).set(v)
                return PtrInto(c.arr, c.off + (b.off - a.off))
        if base in ("std::fill",) and len(args) == 3:
            a, b = it.rvalue(args[0], fr), it.rvalue(args[1], fr)
            v = it.rvalue(args[2], fr)
            if isinstance(a, PtrInto) and isinstance(b, PtrInto):
                for i in range(a.off, b.off):
                    self.index(a.arr, i, e, fr).set(v)
                return None
        # iterator arithmetic on vector iterators (member and free operator overloads of __normal_iterator)
        if "__normal_iterator" in callee and "operator" in callee:
            opn = callee.split("operator", 1)[1].split("<")[0].strip() if "operator<" not in callee.split("operator", 1)[1][:2] else callee.split("operator", 1)[1][:2].strip()
            opn = callee.rsplit("operator", 1)[1]
            # strip template arguments but keep comparison operators
            for cand in ("+=", "-=", "++", "--", "==", "!=", "<=", ">=", "[]", "->", "+", "-", "*", "<", ">"):
                if opn.startswith(cand):
                    opn = cand
                    break
            operands = []
            if e.get("this") is not None and k == "Call":
                operands.append(it.eval(e["this"], fr))
            operands += [it.eval(a_, fr) for a_ in args]
            cells = operands
            vals = [c_.get() if isinstance(c_, Cell) else c_ for c_ in operands]
            if vals and isinstance(vals[0], PtrInto):
                p0 = vals[0]
                if opn in ("+", "-") and len(vals) == 2 and isinstance(vals[1], int):
                    return PtrInto(p0.arr, p0.off + (vals[1] if opn == "+" else -vals[1]))
                if opn == "-" and len(vals) == 2 and isinstance(vals[1], PtrInto) and vals[1].arr is p0.arr:
                    return p0.off - vals[1].off
                if opn in ("+=", "-=") and len(vals) == 2 and isinstance(vals[1], int) and isinstance(cells[0], Cell):
                    cells[0].set(PtrInto(p0.arr, p0.off + (vals[1] if opn == "+=" else -vals[1])))
                    return cells[0]
                if opn in ("++", "--") and isinstance(cells[0], Cell):
                    cells[0].set(PtrInto(p0.arr, p0.off + (1 if opn == "++" else -1)))
                    return p0 if len(vals) == 2 else cells[0]      # postfix (dummy int argument) yields the old value
                if opn == "*" and len(vals) == 1:
                    return self.elem_class()(p0.arr, p0.off, self, site)
                if opn == "[]" and len(vals) == 2 and isinstance(vals[1], int):
                    return self.elem_class()(p0.arr, p0.off + vals[1], self, site)
                if opn in ("==", "!=", "<", "<=", ">", ">=") and len(vals) == 2 and isinstance(vals[1], PtrInto) and vals[1].arr is p0.arr:
                    a_, b_ = p0.off, vals[1].off
                    return {"==": a_ == b_, "!=": a_ != b_, "<": a_ < b_, "<=": a_ <= b_, ">": a_ > b_, ">=": a_ >= b_}[opn]
        if k == "Construct" and re.match(r"^std::(plus|minus|multiplies|divides)<", (e.get("t") or "").replace("const ", "")) and not args:
            return ("arith-functor", re.match(r"^std::(\w+)<", (e.get("t") or "").replace("const ", "")).group(1))
        if base == "std::transform" and len(args) in (4, 5):
            vals = [it.rvalue(a_, fr) for a_ in args]
            f_ = vals[-1]
            srcs = vals[:-2] if len(args) == 4 else [vals[0], vals[1], vals[2]]
            dst = vals[-2]
            if isinstance(vals[0], PtrInto) and isinstance(vals[1], PtrInto) and vals[0].arr is vals[1].arr and isinstance(dst, PtrInto) and (len(args) == 4 or isinstance(vals[2], PtrInto)):
                n_ = vals[1].off - vals[0].off
                for i in range(n_):
                    xs = [self.index(vals[0].arr, vals[0].off + i, e, fr).get()]
                    if len(args) == 5:
                        xs.append(self.index(vals[2].arr, vals[2].off + i, e, fr).get())
                    if isinstance(f_, tuple) and f_ and f_[0] == "lambda":
                        r_ = self.call_lambda(f_, xs, e)
                    elif isinstance(f_, tuple) and f_ and f_[0] == "arith-functor" and len(xs) == 2:
                        r_ = self.binop({"plus": "+", "minus": "-", "multiplies": "*", "divides": "/"}[f_[1]], xs[0], xs[1], e, fr)
                    else:
                        raise AnalysisBroken("callable %r in std::transform not modelled at %s" % (f_, site))
                    self.index(dst.arr, dst.off + i, e, fr).set(r_)
                return PtrInto(dst.arr, dst.off + max(n_, 0))
        if k == "Construct" and (e.get("t") or "").replace("const ", "").startswith("std::pair<") and not e.get("copy") and not e.get("move") and len(args) in (0, 2):
            vs_ = [it.rvalue(a_, fr) for a_ in args] if args else [0, 0]
            return {"first": Cell(vs_[0], "first"), "second": Cell(vs_[1], "second")}
        if base == "std::get" and len(args) == 1 and isinstance((lambda o_: o_.get() if isinstance(o_, Cell) else o_)(it.eval(args[0], fr)), list):
            m_ = re.match(r"^std::get<\s*(\d+)", callee)
            o_ = it.eval(args[0], fr)
            o_ = o_.get() if isinstance(o_, Cell) else o_
            return self.index(o_, int(m_.group(1)), e, fr)
        if base == "std::get" and len(args) == 1:
            # std::get<I>(pair / array): the I-th member as an lvalue
            m_ = re.match(r"^std::get<\s*(\d+)", callee)
            o_ = it.eval(args[0], fr)
            o_ = o_.get() if isinstance(o_, Cell) else o_
            if m_ and isinstance(o_, dict) and "first" in o_ and "second" in o_ and int(m_.group(1)) in (0, 1):
                return o_["first" if int(m_.group(1)) == 0 else "second"]
            if m_ and isinstance(o_, Arr):
                return self.elem_class()(o_, int(m_.group(1)), self, site)
        if base == "std::accumulate" and len(args) in (3, 4):
            vals_ = [it.rvalue(a_, fr) for a_ in args]
            a_, b_ = vals_[0], vals_[1]
            if isinstance(a_, PtrInto) and isinstance(b_, PtrInto) and a_.arr is b_.arr:
                acc = vals_[2]
                for i in range(a_.off, b_.off):
                    x_ = self.index(a_.arr, i, e, fr).get()
                    if len(vals_) == 4:
                        f_ = vals_[3]
                        if isinstance(f_, tuple) and f_ and f_[0] == "lambda":
                            acc = self.call_lambda(f_, [acc, x_], e)
                        elif isinstance(f_, tuple) and f_ and f_[0] == "arith-functor":
                            acc = self.binop({"plus": "+", "minus": "-", "multiplies": "*", "divides": "/"}[f_[1]], acc, x_, e, fr)
                        else:
                            raise AnalysisBroken("callable %r in std::accumulate not modelled at %s" % (f_, site))
                    else:
                        acc = self.binop("+", acc, x_, e, fr)       # left fold, the order the standard prescribes
                return acc
        if base == "std::copy_n" and len(args) == 3:
            a, n_, c = it.rvalue(args[0], fr), it.rvalue(args[1], fr), it.rvalue(args[2], fr)
            if isinstance(a, PtrInto) and isinstance(c, PtrInto) and isinstance(n_, int):
                for i in range(n_):
                    v = self.index(a.arr, a.off + i, e, fr).get()
                    self.index(c.arr, c.off + i, e, fr).set(v)
                return PtrInto(c.arr, c.off + max(n_, 0))
        if base == "std::fill_n" and len(args) == 3:
            a, n_, v = it.rvalue(args[0], fr), it.rvalue(args[1], fr), it.rvalue(args[2], fr)
            if isinstance(a, PtrInto) and isinstance(n_, int):
                for i in range(a.off, a.off + n_):
                    self.index(a.arr, i, e, fr).set(v)
                return PtrInto(a.arr, a.off + max(n_, 0))
        if base in ("std::begin", "std::end") and len(args) == 1:
            a = it.rvalue(args[0], fr)
            if isinstance(a, Arr):
                return PtrInto(a, 0 if base == "std::begin" else a.length)
        if k == "Construct" and e.get("t", "").startswith("std::initializer_list<") and len(args) == 1:
            return it.rvalue(args[0], fr)
        if base in ("std::div", "div"):
            a, b = it.rvalue(args[0], fr), it.rvalue(args[1], fr)
            from .interp import c_div, c_mod
            return {"quot": Cell(c_div(a, b)), "rem": Cell(c_mod(a, b))}
        if base in ("std::min", "std::max"):
            a, b = it.rvalue(args[0], fr), it.rvalue(args[1], fr)
            if a is TOP or b is TOP:
                return TOP
            return min(a, b) if base == "std::min" else max(a, b)
        if callee.startswith("std::numeric_limits<double>::") or callee.startswith("std::numeric_limits<float>::"):
            return TOP
        if base in ("std::abs", "abs") and len(args) == 1:
            a = it.rvalue(args[0], fr)
            return TOP if a is TOP else abs(a)
        if base in ("sqrt", "std::sqrt", "pow", "std::pow", "sin", "cos", "std::sin", "std::cos", "exp", "std::exp", "log", "std::log",
                    "fabs", "std::fabs", "tanh", "std::tanh", "atan", "std::atan", "floor", "std::floor", "ceil", "std::ceil", "log2", "std::log2",
                    "std::fma", "fma", "std::isnan", "std::isfinite"):
            for a in args:
                it.rvalue(a, fr)
            return TOP
        if base == "std::move" and len(args) == 1:
            return it.eval(args[0], fr)
        if base in ("omp_get_max_threads", "omp_get_num_threads"):
            return self.num_threads()
        if base == "omp_get_thread_num":
            return self.thread_num()
        if base == "omp_set_num_threads":
            it.rvalue(args[0], fr)
            return None
        if isinstance(callee, str) and callee.startswith("std::chrono::"):
            return Opaque("time")
        # methods on abstract arrays
        this = None
        if "this" in e and e["this"] is not None:
            this = it.eval(e["this"], fr)
            if isinstance(this, Cell):
                this = this.get()
        if isinstance(this, list):
            if mname == "size":
                return len(this)
            if mname == "empty":
                return not this
            if mname in ("at", "operator[]") and len(args) == 1:
                return self.index(this, it.rvalue(args[0], fr), e, fr)
            if mname == "front":
                return self.index(this, 0, e, fr)
            if mname == "back":
                return self.index(this, len(this) - 1, e, fr)
            if mname in ("begin", "cbegin", "data"):
                return PtrInto(this, 0)
            if mname in ("end", "cend"):
                return PtrInto(this, len(this))
        if isinstance(this, Arr):
            if mname == "size":
                return this.length
            if mname in ("begin", "data", "get"):
                return PtrInto(this, 0)
            if mname == "end":
                return PtrInto(this, this.length)
            if mname in ("front",):
                return self.elem_class()(this, 0, self, site)
            if mname in ("back",):
                return self.elem_class()(this, this.length - 1, self, site)
            if mname == "resize":
                n = it.rvalue(args[0], fr)
                this.length = n
                return None
            if base.startswith("std::vector::"):
                if mname in ("reserve", "shrink_to_fit"):
                    for a_ in args:
                        it.rvalue(a_, fr)
                    return None
                if mname == "clear":
                    self.vector_assign(this, 0, 0, e, fr)
                    return None
                if mname in ("push_back", "emplace_back") and len(args) == 1:
                    v = it.rvalue(args[0], fr)
                    i = this.length or 0
                    this.length = i + 1
                    self.index(this, i, e, fr).set(v)
                    return None
                if mname == "pop_back" and not args:
                    if not this.length:
                        raise AnalysisBroken("pop_back on an empty vector at %s" % site)
                    this.length -= 1
                    if this.elem == "int":
                        this.ints.pop(this.length, None)
                    elif hasattr(this, "sym"):
                        this.sym.pop(this.length, None)
                    return None
            if mname == "assign" and len(args) == 2 and base.startswith("std::vector::"):
                # v.assign(n, value): n copies of value
                n, v = it.rvalue(args[0], fr), it.rvalue(args[1], fr)
                if isinstance(n, int):
                    self.vector_assign(this, n, v, e, fr)
                    return None
            if mname == "empty":
                return this.length == 0
            if mname == "at":
                return self.elem_class()(this, it.rvalue(args[0], fr), self, site)
        return NotImplemented

    def range_for(self, s, fr):
        """for (T x : range) over a vector / array / braced list; `auto [a, b] : range` over pairs"""
        it = self.interp
        from .interp import BreakEx, ContinueEx
        r = it.eval(s["range"], fr)
        r = r.get() if isinstance(r, Cell) else r
        v = s["var"]
        is_ref = (v.get("t") or "").rstrip().endswith("&")
        if isinstance(r, Arr):
            if r.length is None:
                raise AnalysisBroken("range-for over an array of unknown length at %s" % ir.locstr(s))
            objs = getattr(r, "objs", None)
            items = [(objs[i] if objs is not None else self.elem_class()(r, i, self, ir.locstr(s))) for i in range(r.length)]
        elif isinstance(r, (list, tuple)) and not (isinstance(r, tuple) and r and isinstance(r[0], str)):
            items = list(r)
        else:
            raise AnalysisBroken("range-for over %r not modelled at %s" % (r, ir.locstr(s)))
        for x in items:
            if s.get("bindings"):
                o = x.get() if isinstance(x, Cell) else x
                if not (isinstance(o, dict) and "first" in o and "second" in o and len(s["bindings"]) == 2):
                    raise AnalysisBroken("structured binding over %r in a range-for not modelled at %s" % (o, ir.locstr(s)))
                for b, key in zip(s["bindings"], ("first", "second")):
                    c = o[key]
                    fr.vars[b["id"]] = c if is_ref else Cell(c.get() if isinstance(c, Cell) else c, b["name"])
            elif isinstance(x, Cell):
                fr.vars[v["id"]] = x if is_ref else Cell(self.copy_value(x.get(), v.get("t", "")), v["name"])
            else:
                fr.vars[v["id"]] = Cell(x, v["name"])
            try:
                it.exec(s["body"], fr)
            except BreakEx:
                break
            except ContinueEx:
                pass

    def vector_assign(self, arr, n, v, e, fr):
        arr.length = n
        if arr.elem == "int":
            arr.ints = {i: v for i in range(n)}
        else:
            if hasattr(arr, "sym"):
                arr.sym = {}
            for i in range(n):
                self.index(arr, i, e, fr).set(v)

    def elem_class(self):
        return Elem

    def new_array(self, name, n, elem):
        a = Arr(name, n, elem=elem)
        if elem == "int":
            a.ints = {i: 0 for i in range(n or 0)}
        return a

    def call_lambda(self, lam, argvals, e):
        from .interp import Frame, ReturnEx
        _, le, dfr = lam
        fr = Frame(dfr.fn, dfr.this)
        fr.vars = dict(dfr.vars)
        ps = le.get("params", [])
        if len(ps) != len(argvals):
            raise AnalysisBroken("lambda arity mismatch at %s" % ir.locstr(e))
        for p, a in zip(ps, argvals):
            fr.vars[p["id"]] = Cell(a, p["name"])
        try:
            self.interp.exec(le["body"], fr)
        except ReturnEx as r:
            return r.v
        return None

    def init_list(self, e, fr):
        import re
        t = e.get("t", "")
        m = re.match(r"^(const\s+)?std::array<\s*int\s*,\s*(\d+)\s*>", t)
        m2 = re.match(r"^(const\s+)?std::array<\s*(int|double)\s*,\s*([A-Za-z_][\w:]*)\s*>", t)
        if m is None and m2 is not None:
            # the extent is a named constant (static constexpr): resolve it, or decline - never guess a size
            ext = self.named_int_constant(m2.group(3))
            if ext is None:
                raise AnalysisBroken("std::array whose extent `%s` is a named constant that cannot be resolved, at %s" % (m2.group(3), ir.locstr(e)))
            t = "%sstd::array<%s, %d>" % (m2.group(1) or "", m2.group(2), ext)
            m = re.match(r"^(const\s+)?std::array<\s*int\s*,\s*(\d+)\s*>", t)
            if m is None:      # array of double with a named extent: a zero-filled array of that length, then the listed values
                a = self.new_array("array", ext, "double")
                elems0 = e["elems"]
                while len(elems0) == 1 and elems0[0].get("k") == "InitList":
                    elems0 = elems0[0]["elems"]
                for i, x in enumerate(elems0):
                    self.index(a, i, e, fr).set(self.interp.rvalue(x, fr))
                for i in range(len(elems0), ext):
                    self.index(a, i, e, fr).set(0)
                return a
        elems = e["elems"]
        while len(elems) == 1 and elems[0].get("k") == "InitList":
            elems = elems[0]["elems"]
        if m or re.match(r"^(const\s+)?int\s*\[(\d+)\]", t):
            n = int(m.group(2)) if m else int(re.match(r"^(const\s+)?int\s*\[(\d+)\]", t).group(2))
            a = Arr("array", n, elem="int")
            a.ints = {i: 0 for i in range(n)}
            for i, x in enumerate(elems):
                a.ints[i] = self.interp.rvalue(x, fr)
            return a
        vals = [self.interp.rvalue(x, fr) for x in elems]
        if all(isinstance(v, int) and not isinstance(v, bool) for v in vals):
            a = Arr("initlist", len(vals), elem="int")
            a.ints = dict(enumerate(vals))
            return a
        return vals

    def named_int_constant(self, name):
        """value of a namespace-scope or static constexpr integer constant named (possibly unqualified) `name`"""
        g = getattr(self.prog, "globals", {})
        cands = [v for q, v in g.items() if q == name or q.endswith("::" + name.split("::")[-1])]
        vals = set()
        for v in cands:
            i = v.get("init")
            while i is not None and i.get("k") in ("Paren", "Cast", "ImplicitCast", "Expr") and i.get("e") is not None:
                i = i["e"]
            if i is not None and i.get("k") == "Int":
                vals.add(int(i["v"]))
        return vals.pop() if len(vals) == 1 else None

    def num_threads(self):
        return 2

    def thread_num(self):
        return 0


def run_all(make_domain, body, max_paths=20000):
    """enumerate every replayed choice vector: body(dom, interp) is run once per path"""
    pending = [[]]
    n = 0
    while pending:
        ch = pending.pop()
        dom = make_domain(ch)
        it = Interp(dom.prog, dom)
        base = len(ch)
        thrown = None
        try:
            body(dom, it)
        except ThrowEx as t:
            thrown = t
        dom.thrown = thrown
        for i in range(base, len(dom.choices)):
            for alt in range(1, dom.sizes[i]):
                pending.append(dom.choices[:i] + [alt])
        n += 1
        if n > max_paths:
            raise AnalysisBroken("more than %d paths" % max_paths)
        yield dom
