"""Scenarios for the driver analysis: setup(); solve(); [solve() again] interpreted from the
source for one mode, all value-dependent paths enumerated."""
from fractions import Fraction

from . import drv, ir
from .interp import Cell, Interp, Obj, Opaque, ThrowEx, Undef
from .terms import LC, Atom, has_kind, show, stale, walk_atoms

DRIVER_UNITS = [
    "src/GMGPolar/MultigridMethods/multigrid_V_Cycle.cpp", "src/GMGPolar/MultigridMethods/multigrid_W_Cycle.cpp",
    "src/GMGPolar/MultigridMethods/multigrid_F_Cycle.cpp",
    "src/GMGPolar/MultigridMethods/implicitly_extrapolated_multigrid_V_Cycle.cpp",
    "src/GMGPolar/MultigridMethods/implicitly_extrapolated_multigrid_W_Cycle.cpp",
    "src/GMGPolar/MultigridMethods/implicitly_extrapolated_multigrid_F_Cycle.cpp",
    "src/GMGPolar/level_interpolation.cpp", "src/GMGPolar/solver.cpp", "src/GMGPolar/setup.cpp", "src/GMGPolar/gmgpolar.cpp",
    "src/Level/level.cpp", "src/Interpolation/interpolation.cpp", "src/Interpolation/injection.cpp",
    "src/Interpolation/prolongation.cpp", "src/Interpolation/restriction.cpp", "src/Interpolation/extrapolated_prolongation.cpp",
    "src/Interpolation/extrapolated_restriction.cpp", "src/Interpolation/fmg_interpolation.cpp", "src/GMGPolar/build_rhs_f.cpp"]

ACCESSORS = ["GMGPolar::numberOfIterations", "GMGPolar::meanResidualReductionFactor", "GMGPolar::exactErrorWeightedEuclidean",
             "GMGPolar::exactErrorInfinity"]


def load():
    # the driver's translation units: everything under the three directories (a function moved into a new file of the same
    # directory is still found), which today is the DRIVER_UNITS list plus the parser, the VTK writer and the test-case selection
    import glob
    import os
    found = set()
    for pat in ("src/GMGPolar/*.cpp", "src/GMGPolar/MultigridMethods/*.cpp", "src/Level/*.cpp", "src/Interpolation/*.cpp"):
        found.update(os.path.relpath(p_, ir.REPO) for p_ in glob.glob(os.path.join(ir.REPO, pat)))
    units = sorted(found | set(u for u in DRIVER_UNITS if os.path.exists(os.path.join(ir.REPO, u))))
    if len(units) < 12:
        raise ir.AnalysisBroken("only %d driver translation units found under src/GMGPolar, src/Level, src/Interpolation" % len(units))
    prog = ir.load(units=units, witness=False)
    drv.check_signatures(prog)
    return prog


def scalar_has_stale(v, kinds=("STALE",)):
    """STALE marker anywhere inside a scalar/vector value (kinds: which scalar markers count)"""
    stack = [v]
    seen = set()
    while stack:
        x = stack.pop()
        if isinstance(x, LC):
            if has_kind(x, ("stale", "clob")):
                return True
        elif isinstance(x, tuple):
            if len(x) >= 2 and x[0] == "s" and x[1] in kinds:
                return True
            stack.extend(x)
        elif isinstance(x, drv.Pair):
            stack.append(x.first.get())
            stack.append(x.second.get())
        elif isinstance(x, Undef):
            if "UNDEF" in kinds:
                return True
    return False


def describe(v):
    if isinstance(v, drv.Pair):
        return "(%s, %s)" % (describe(v.first.get()), describe(v.second.get()))
    if isinstance(v, (LC, tuple, Atom)):
        return show(v)
    return repr(v)


class Outcome:
    """what one path of a scenario left behind"""

    def __init__(self, dom, accessors):
        self.dom = dom
        self.events = list(dom.events)
        self.throws = dom.throws
        self.solution = dom.bufs.get((0, "solution"), {}).get("val")
        g = dom.gm.f
        self.iterations = g["number_of_iterations_"].get()
        self.mean = g["mean_residual_reduction_factor_"].get()
        self.residual_norms = list(g["residual_norms_"].get().items)
        self.exact_errors = list(g["exact_errors_"].get().items)
        self.full_grid_smoothing = g["full_grid_smoothing_"].get()
        self.accessors = accessors
        self.choice_log = list(dom.choice_log)
        self.converged_calls = list(dom.converged_calls)
        self.field_writes = set(dom.field_writes)


def run_setup(dom, it):
    dom.make_state()
    # before setup nothing exists
    dom.bufs = {}
    dom.gm.f["number_of_levels_"].set(Undef("number_of_levels_"))
    dom.gm.f["interpolation_"].set(drv.Ptr(False, "interpolation_"))
    dom.gm.f["full_grid_smoothing_"].set(False)  # in-class initialiser
    it.call_function(dom.prog.fn("GMGPolar::setup"), dom.gm, [])
    return set(dom.field_writes)


def call_accessors(dom, it):
    out = {}
    for qn in ACCESSORS:
        fn = dom.prog.fn(qn)
        n0 = len(dom.events)
        try:
            v = it.call_function(fn, dom.gm, [])
            if isinstance(v, Cell):
                v = v.get()
            if isinstance(v, Undef):
                dom.event("undef-read", ir.locstr(fn), "%s() returns member '%s', which no statement assigned on this path" % (qn.split("::")[1], v.what))
                v = drv.S("UNDEF", v.what)
        except ThrowEx as t:
            v = ("throws", t.what)
        out[qn.split("::")[1]] = v
    return out


def mark_stale_after_solve(dom, written_in_solve, rhs_after_setup=None):
    """state handed to a second solve(): every work vector and every member the first solve wrote holds history.
    Right-hand sides are setup-owned: one that the first solve left different from what setup() computed is history too."""
    for (l, w), b in dom.bufs.items():
        if w != "rhs":
            b["val"] = stale(l, w)
        elif rhs_after_setup is not None and b["val"] is not rhs_after_setup.get((l, w), b["val"]):
            b["val"] = stale(l, w)
            dom.rhs_modified_by_solve = getattr(dom, "rhs_modified_by_solve", []) + [l]
    g = dom.gm.f
    for name in written_in_solve:
        if name.startswith("t_") or name not in g:
            continue
        v = g[name].get()
        if isinstance(v, drv.ListObj):
            v.items = [drv.Pair(drv.S("STALE", name, i, "first"), drv.S("STALE", name, i, "second")) if "errors" in name
                       else drv.S("STALE", name, i) for i in range(len(v.items))]
        elif isinstance(v, (bool,)) or name == "full_grid_smoothing_":
            g[name].set(drv.S("STALE", name))
        elif isinstance(v, (Opaque, drv.Handle, drv.Ptr, drv.OptVal)):
            pass
        else:
            g[name].set(drv.S("STALE", name))


def scenario_fresh(prog, mode, with_accessors=True, only_init=False):
    """setup(); solve()  -> list of Outcome (one per path)"""
    outs = []

    def body(dom, it):
        run_setup(dom, it)
        dom.setup_writes = set(dom.field_writes)
        dom.field_writes = set()
        dom.rhs_after_setup = {k: dict(v) for k, v in dom.bufs.items() if k[1] == "rhs"}
        dom.level_ops_after_setup = {k: set(v) for k, v in (dom.level_ops or {}).items()}
        if only_init:
            it.call_function(prog.fn("GMGPolar::initializeSolution"), dom.gm, [])
        else:
            it.call_function(prog.fn("GMGPolar::solve"), dom.gm, [])

    for dom in drv.run_paths(prog, mode, body):
        acc = {}
        if with_accessors and not dom.throws and not only_init:
            it = Interp(prog, dom)
            acc = call_accessors(dom, it)
        outs.append(Outcome(dom, acc))
    return outs


def scenario_reuse(prog, mode, first_choices_all_true=True, first_tols=None):
    """setup(); solve(); solve(): the second solve starts from history (STALE). Returns list of Outcome of the 2nd solve.
    first_tols=(abs, rel): the first solve runs with these tolerance options and the caller changes them to the mode's
    before the second solve (options may be changed between two solves without a setup())."""
    outs = []
    # first: which members can the first solve write in this mode (any path)?
    written = set()
    firsts = []
    mode1 = dict(mode, max_iterations=max(2, mode.get("max_iterations", 1)))
    if first_tols is not None:
        mode1["abs_tol"], mode1["rel_tol"] = first_tols
    for dom in drv.run_paths(prog, mode1, lambda d, it: (run_setup(d, it), setattr(d, "field_writes", set()),
                                                          it.call_function(prog.fn("GMGPolar::solve"), d.gm, []))):
        written |= dom.field_writes
        firsts.append(dom)
    # second solve: replay the first along its first path (any path leaves the same *kinds* of history), then mark
    n_first = [0]

    def body(dom, it):
        run_setup(dom, it)
        dom.field_writes = set()
        rhs0 = {k: v["val"] for k, v in dom.bufs.items() if k[1] == "rhs"}
        # first solve: history-rich (two iterations, never converged), not forked; which members it MAY write
        # comes from the full exploration above
        dom.policy = False
        dom.gm.f["max_iterations_"].set(max(2, mode.get("max_iterations", 1)))
        if first_tols is not None:
            dom.gm.f["absolute_tolerance_"].set(drv.OptVal(first_tols[0], "absolute_tolerance_"))
            dom.gm.f["relative_tolerance_"].set(drv.OptVal(first_tols[1], "relative_tolerance_"))
        it.call_function(prog.fn("GMGPolar::solve"), dom.gm, [])
        dom.policy = None
        dom.nofork_pred = scalar_has_stale
        dom.gm.f["max_iterations_"].set(mode.get("max_iterations", 1))
        if first_tols is not None:
            dom.gm.f["absolute_tolerance_"].set(drv.OptVal(mode.get("abs_tol", True), "absolute_tolerance_"))
            dom.gm.f["relative_tolerance_"].set(drv.OptVal(mode.get("rel_tol", True), "relative_tolerance_"))
        n_first[0] = dom.n_choice
        mark_stale_after_solve(dom, written, rhs0)
        dom.events_first = list(dom.events)
        dom.events = []
        dom.choice_first = len(dom.choice_log)
        dom.converged_calls = []
        dom.field_writes = set()
        it.call_function(prog.fn("GMGPolar::solve"), dom.gm, [])

    for dom in drv.run_paths(prog, mode, body):
        acc = {}
        if not dom.throws:
            it = Interp(prog, dom)
            acc = call_accessors(dom, it)
        o = Outcome(dom, acc)
        o.choice_log = dom.choice_log[getattr(dom, "choice_first", 0):]
        o.written_first = written
        outs.append(o)
    return outs


def scenario_resetup(prog, mode_a, mode_b):
    """setup(A); solve(); <options changed to B>; setup(); solve(): everything the first phase left (work vectors, right-hand
    sides, every setup- or solve-owned member) is STALE before the second setup. Returns Outcomes of the second solve."""
    outs = []
    SETUP_OWNED = ("number_of_levels_", "full_grid_smoothing_", "interpolation_")

    def body(dom, it):
        run_setup(dom, it)
        dom.policy = False
        dom.gm.f["max_iterations_"].set(2)
        it.call_function(prog.fn("GMGPolar::solve"), dom.gm, [])
        dom.policy = None
        # ---- the caller changes options; nothing else is touched
        written = set(dom.field_writes)
        mark_stale_after_solve(dom, written)
        for k, b in dom.bufs.items():
            b["val"] = stale(k[0], k[1])
        ref = drv.DrvDomain(prog, mode_b)
        ref.interp = it
        g2 = ref.make_state()
        for name in ("FMG_", "FMG_iterations_", "FMG_cycle_", "extrapolation_", "multigrid_cycle_", "pre_smoothing_steps_", "post_smoothing_steps_",
                     "max_iterations_", "residual_norm_type_", "absolute_tolerance_", "relative_tolerance_", "verbose_", "paraview_", "exact_solution_",
                     "stencil_distribution_method_", "cache_density_profile_coefficients_", "cache_domain_geometry_"):
            dom.gm.f[name].set(g2.f[name].get())
        dom.gm.f["number_of_levels_"].set(drv.S("STALE", "number_of_levels_"))
        dom.gm.f["full_grid_smoothing_"].set(drv.S("STALE", "full_grid_smoothing_"))
        dom.mode = mode_b
        dom.L = mode_b["L"]
        dom.levels_built = None      # levels_ still holds the old levels until setup() clears it
        dom.level_ops = None
        dom.nofork_pred = scalar_has_stale
        dom.events = []
        dom.choice_first = len(dom.choice_log)
        dom.converged_calls = []
        dom.field_writes = set()
        it.call_function(prog.fn("GMGPolar::setup"), dom.gm, [])
        dom.setup2_writes = set(dom.field_writes)
        it.call_function(prog.fn("GMGPolar::solve"), dom.gm, [])

    for dom in drv.run_paths(prog, mode_a, body):
        acc = {}
        if not dom.throws:
            it = Interp(prog, dom)
            acc = call_accessors(dom, it)
        o = Outcome(dom, acc)
        o.choice_log = dom.choice_log[getattr(dom, "choice_first", 0):]
        outs.append(o)
    return outs


def scalar_value(t, seed=0):
    """numerical value (mpmath, 40 digits) of a scalar term with every uninterpreted sub-term (norm of a vector term, error
    figure, ...) replaced by a pseudo-random positive number that depends only on the sub-term: two terms that are equal as
    real functions of those quantities get the same value whatever the order of their arithmetic (used to compare a
    reported statistic with its defining formula without demanding the same spelling)"""
    import hashlib
    import mpmath as mp
    mp.mp.dps = 40
    from fractions import Fraction

    def leaf_value(x):
        h = hashlib.sha256(("%s|%s" % (seed, show(x) if isinstance(x, (LC, tuple, Atom)) else repr(x))).encode()).hexdigest()
        return mp.mpf(int(h[:12], 16) % 900000 + 100000) / mp.mpf(int(h[12:20], 16) % 9000 + 1000)

    def go(x):
        if isinstance(x, bool):
            return mp.mpf(int(x))
        if isinstance(x, int):
            return mp.mpf(x)
        if isinstance(x, Fraction):
            return mp.mpf(x.numerator) / mp.mpf(x.denominator)
        if isinstance(x, tuple) and len(x) >= 2 and x[0] == "s":
            name, args = x[1], x[2:]
            if name in ("+", "-", "*", "/") and len(args) == 2:
                a, b = go(args[0]), go(args[1])
                return a + b if name == "+" else a - b if name == "-" else a * b if name == "*" else a / b
            if name == "pow" and len(args) == 2:
                return mp.power(go(args[0]), go(args[1]))
            if name == "sqrt" and len(args) == 1:
                return mp.sqrt(go(args[0]))
            if name == "-" and len(args) == 1:
                return -go(args[0])
        return leaf_value(x)
    return go(t)


def scalar_equal(a, b):
    """equal as terms, or equal in value at two pseudo-random assignments of their uninterpreted parts (40 digits)"""
    if a == b:
        return True
    import mpmath as mp
    try:
        for seed in (0, 1):
            va, vb = scalar_value(a, seed), scalar_value(b, seed)
            if abs(va - vb) > mp.mpf(10) ** -30 * (1 + abs(va)):
                return False
        return True
    except (ZeroDivisionError, TypeError, ValueError):
        return False
