"""R-C20-2 / R-C20-3: option tables and mandated rejections (structural rules over parser.cpp / setup.cpp)."""
from . import drv, ir, solve_runs as sr, structq
from .interp import Interp, ThrowEx

PARSE_FNS = ["GMGPolar::parseGrid", "GMGPolar::parseGeometry", "GMGPolar::parseMultigrid", "GMGPolar::parseGeneral"]
INIT_FNS = ["GMGPolar::initializeGrid", "GMGPolar::initializeGeometry", "GMGPolar::initializeMultigrid", "GMGPolar::initializeGeneral"]


def enum_of_type(prog, t):
    t = t.replace("const ", "").strip()
    return t if t in prog.enums else None


def disjuncts(c):
    if c.get("k") == "Bin" and c["op"] == "||":
        return disjuncts(c["a"]) + disjuncts(c["b"])
    return [c]


def eq_enum(c):
    """var == static_cast<int>(Enum::X)  ->  (var id, enum, enumerator)"""
    if c.get("k") != "Bin" or c["op"] != "==":
        return None
    for a, b in ((c["a"], c["b"]), (c["b"], c["a"])):
        if a.get("k") == "Ref" and b.get("k") == "Cast" and b["e"].get("k") == "Enum":
            return (a["id"], b["e"]["enum"], b["e"]["name"])
        if a.get("k") == "Ref" and b.get("k") == "Enum":
            return (a["id"], b["enum"], b["name"])
    return None


def throws(stmt):
    return any(n.get("k") == "Throw" for n in ir.walk(stmt))


def check(ck, tier):
    prog = ir.load(units=["src/GMGPolar/parser.cpp", "src/GMGPolar/setup.cpp", "src/GMGPolar/solver.cpp", "src/GMGPolar/select_test_case.cpp",
                          "src/GMGPolar/gmgpolar.cpp"], witness=False)
    ck.units += prog.units
    ck.rule("R-C20-2", "enum options: parser test == enumerators == oneof list; casts dominated by the test; switches exhaustive or with default", floor=20)
    ck.rule("R-C20-3", "mandated rejections dominate first use (take without caches; fewer than two levels)", floor=3)
    # ---- option name -> local variable (const int x = parser_.get<int>("name"))
    optvar = {}
    for qn in PARSE_FNS:
        fn = prog.fn(qn)
        ck.analysed(fn)
        for s, g in structq.stmts_with_guards(fn["body"]):
            if s.get("k") == "Decl":
                for v in s["vars"]:
                    i = v.get("init")
                    if i and i.get("k") == "Call" and "cmdline::parser::get" in i.get("callee", "") and i["args"] and i["args"][0].get("k") in ("Str", "Construct"):
                        a = i["args"][0]
                        name = a["v"] if a["k"] == "Str" else (a["args"][0]["v"] if a["args"] and a["args"][0].get("k") == "Str" else None)
                        optvar[v["id"]] = name
    # ---- oneof lists
    oneof = {}
    for qn in INIT_FNS:
        fn = prog.fn(qn)
        ck.analysed(fn)
        for c in structq.calls_in(fn):
            if "cmdline::parser::add" in structq.callee_of(c) and c["args"]:
                a0 = c["args"][0]
                name = a0.get("v") if a0.get("k") == "Str" else (a0["args"][0].get("v") if a0.get("k") == "Construct" and a0["args"] else None)
                vals = None
                for a in c["args"]:
                    for n in ir.walk(a):
                        if n.get("k") == "Call" and "cmdline::oneof" in n.get("callee", ""):
                            vals = [int(x["v"]) for x in n["args"] if x.get("k") == "Int"]
                            if len(vals) != len(n["args"]):
                                vals = None
                oneof[name] = vals
    # ---- integers that become enum values in the parse functions: decided by interpreting each parse function with one integer
    # option at a time set to -2..9 (all others at an admissible default): whatever the validation looks like (a chain of ==,
    # a range test, a switch, a helper), a value that is not an enumerator must never reach a conversion to the enum type, and
    # every enumerator must be accepted.
    from . import conc as _conc, tab_ops as _tab
    from .conc import ConcDomain, TOP
    from .interp import Cell, Obj

    class OptInt(int):
        pass

    class ParseDomain(ConcDomain):
        def __init__(self, prog_, opts, choices=()):
            ConcDomain.__init__(self, prog_, choices)
            self.opts, self.casts, self.asked = opts, [], []
            self.top_policy = "fork"      # get<double>() results are arbitrary: both outcomes of every test on them

        def cast(self, v, t, e, fr):
            t0 = t.replace("const ", "").strip()
            if t0 in self.prog.enums:
                self.casts.append((t0, int(v) if isinstance(v, int) else v, getattr(v, "opt", None), ir.locstr(e)))
                return v
            if isinstance(v, OptInt) and t0 == "int":
                return v
            return ConcDomain.cast(self, v, t, e, fr)

        def copy_value(self, v, t):
            return v if isinstance(v, OptInt) else ConcDomain.copy_value(self, v, t)

        def global_var(self, e, fr):
            if "nullopt" in (e.get("qn") or e.get("name") or ""):
                return None
            return ConcDomain.global_var(self, e, fr)

        def call(self, e, fr):
            cal = e.get("callee") or e.get("ctor") or ""
            if "cmdline::parser::get<" in cal and e["args"]:
                a = e["args"][0]
                name = a.get("v") if a.get("k") == "Str" else (a["args"][0].get("v") if a.get("args") else None)
                if "get<int>" in cal or "get<bool>" in cal:
                    self.asked.append(name)
                    v = OptInt(self.opts.get(name, self.defaults.get(name, 0)))
                    v.opt = name
                    return v
                if "get<double>" in cal or "get<float>" in cal:
                    return TOP
                return "option:%s" % name
            if "cmdline::parser::exist" in cal:
                return False
            if cal.startswith("GMGPolar::selectTestCase"):
                return None
            if e["k"] == "Construct" and (e.get("t") or "").replace("const ", "").startswith("std::optional<"):
                return self.interp.rvalue(e["args"][0], fr) if e["args"] else None
            return ConcDomain.call(self, e, fr)

    defaults = {name: (vals[0] if vals else 0) for name, vals in oneof.items() if name}
    ParseDomain.defaults = defaults

    def run_parse(fn, opts):
        def body(dom, it):
            gm = Obj("GMGPolar")
            gm.f["parser_"] = Cell(Obj("cmdline::parser"), "parser_")
            _tab.default_other_members(dom, gm, "GMGPolar")
            it.call_function(fn, gm, [])
        return list(_conc.run_all(lambda ch: ParseDomain(prog, opts, ch), body, max_paths=400))

    n_casts = 0
    for qn in PARSE_FNS:
        fn = prog.fn(qn)
        base = run_parse(fn, {})
        if any(d.thrown for d in base):
            raise ir.AnalysisBroken("%s rejects the default option values %s: %s" % (qn, defaults, [d.thrown.what for d in base if d.thrown][0]))
        pairs = sorted(set((c[2], c[0]) for d in base for c in d.casts if c[2]))
        int_opts = sorted(set(n_ for d in base for n_ in d.asked if n_))
        for opt, en in pairs:
            n_casts += 1
            key = "%s<-%s" % (en, opt)
            ck.instance("R-C20-2", key)
            enumerators = dict(prog.enum(en)["enumerators"])
            valid = set(enumerators.values())
            probs = []
            for v in range(-2, max(valid) + 4):
                doms = run_parse(fn, {opt: v})
                bad_casts = [c for d in doms for c in d.casts if c[0] == en and c[2] == opt and c[1] not in valid]
                if bad_casts:
                    probs.append("--%s %d reaches the conversion to %s at %s without being rejected (%s has the values %s)" % (opt, v, en, bad_casts[0][3], en, sorted(valid)))
                    break
                if v in valid and any(d.thrown for d in doms):
                    probs.append("--%s %d (an enumerator of %s) is rejected: %s" % (opt, v, en, [d.thrown.what for d in doms if d.thrown][0][:60]))
                    break
                if v not in valid and not all(d.thrown for d in doms):
                    probs.append("--%s %d is not an enumerator of %s and is not rejected with an exception" % (opt, v, en))
                    break
            lst = oneof.get(opt)
            if lst is None:
                probs.append("option '%s' has no cmdline::oneof list" % opt)
            elif set(lst) != valid:
                probs.append("option '%s' accepts %s on the command line but %s has values %s" % (opt, sorted(lst), en, sorted(valid)))
            if probs:
                ck.violation("R-C20-2", "parser:%s" % en, ir.locstr(fn), "; ".join(probs))
            else:
                ck.ok("R-C20-2", key, sample={"option": opt, "enum": en, "values": sorted(valid), "decided by": "interpreting %s for --%s = -2..%d" % (qn, opt, max(valid) + 3)})
    if n_casts < 9:
        raise ir.AnalysisBroken("found %d (option, enum) conversions in the parser (9 confirmed by hand)" % n_casts)
    # ---- switches on enum-typed expressions
    n_sw = 0
    for qn, fns in prog.functions.items():
        if not qn.startswith("GMGPolar::"):
            continue
        for fn in fns:
            for n in ir.walk(fn["body"]):
                if n.get("k") != "Switch":
                    continue
                t = n["e"].get("t", "")
                en = enum_of_type(prog, t)
                if not en:
                    continue
                n_sw += 1
                key = "switch(%s) in %s @%s" % (en, qn.split("::")[-1], n["l"][1])
                ck.instance("R-C20-2", key, nontrivial=(n_sw <= 12))
                body = n["body"]["s"] if n["body"]["k"] == "Block" else [n["body"]]
                named = set()
                default = None
                for x in body:
                    while x.get("k") in ("Case", "Default"):
                        if x["k"] == "Default":
                            default = x
                        elif x["v"].get("k") == "Enum":
                            named.add(x["v"]["name"])
                        x = x["sub"]
                enumerators = set(k for k, v in prog.enum(en)["enumerators"])
                if named >= enumerators or (default is not None and throws(default)):
                    ck.ok("R-C20-2", key)
                elif default is not None:
                    ck.violation("R-C20-2", "switch:%s:%s:silent-default" % (qn.split("::")[-1], en), ir.locstr(n),
                                 "switch over %s in %s does not name {%s} and its default does not throw: those values continue silently" % (
                                     en, qn, ", ".join(sorted(enumerators - named))))
                else:
                    ck.violation("R-C20-2", "switch:%s:%s" % (qn.split("::")[-1], en), ir.locstr(n),
                                 "switch over %s in %s names {%s} but not {%s} and has no default: the missing value falls through silently" % (
                                     en, qn, ", ".join(sorted(named)), ", ".join(sorted(enumerators - named))))
    if n_sw < 5:
        raise ir.AnalysisBroken("found %d enum switches (>= 5 confirmed by hand)" % n_sw)
    # ---- R-C20-3 mandated rejections, by interpreting setup()
    prog2 = sr.load()
    for cc, cg in ((False, False), (True, False), (False, True)):
        key = "take cache_coeff=%s cache_geom=%s" % (cc, cg)
        ck.instance("R-C20-3", key)
        mode = {"L": 2, "stencil": 0, "cache_coeff": cc, "cache_geom": cg}
        doms = list(drv.run_paths(prog2, mode, lambda d, it: sr.run_setup(d, it)))
        bad = []
        for d in doms:
            if not d.throws:
                bad.append("setup() completes with the take strategy although a cache is disabled")
            elif d.bufs or d.levels_built:
                bad.append("setup() builds levels before rejecting the take strategy without caches")
        if bad:
            ck.violation("R-C20-3", "setup:take-without-caches", "src/GMGPolar/setup.cpp", "%s: %s" % (key, bad[0]))
        else:
            ck.ok("R-C20-3", key, sample={"mode": key, "result": "rejected before any level is built (%s)" % doms[0].throws.what[:60]})
    # take with both caches and give with none must be accepted
    for mode, key in (({"L": 2, "stencil": 0, "cache_coeff": True, "cache_geom": True}, "take with caches accepted"),
                      ({"L": 2, "stencil": 1, "cache_coeff": False, "cache_geom": False}, "give without caches accepted")):
        ck.instance("R-C20-3", key)
        doms = list(drv.run_paths(prog2, mode, lambda d, it: sr.run_setup(d, it)))
        if any(d.throws for d in doms):
            ck.violation("R-C20-3", "setup:rejects-valid", "src/GMGPolar/setup.cpp", "%s: setup() throws %s" % (key, [d.throws.what for d in doms if d.throws][0]))
        else:
            ck.ok("R-C20-3", key)
    # level-count rejection: chooseNumberOfLevels throws below 2 levels and is called before levels_ is touched
    fn = prog2.fn("GMGPolar::setup")
    order = []
    for s in fn["body"]["s"]:
        for c in structq.calls_in(s):
            q = structq.callee_of(c)
            if q == "GMGPolar::chooseNumberOfLevels":
                order.append("choose")
            if q.startswith("std::vector<Level") and q.split("::")[-1].split("<")[0] in ("clear", "emplace_back", "reserve"):
                order.append("levels")
    ck.instance("R-C20-3", "level-count rejection precedes level construction")
    if "choose" in order and "levels" in order and order.index("choose") < order.index("levels"):
        ck.ok("R-C20-3", "order")
    else:
        ck.violation("R-C20-3", "setup:levels-before-count", ir.locstr(fn), "setup() touches levels_ before chooseNumberOfLevels() could reject the grid (%s)" % order)
