"""R-C20-2 / R-C20-3: option tables and mandated rejections (structural rules over parser.cpp / setup.cpp)."""
from . import drv, ir, solve_runs as sr, structq
from .interp import Interp, ThrowEx

PARSE_FNS = ["GMGPolar::parseGrid", "GMGPolar::parseGeometry", "GMGPolar::parseMultigrid", "GMGPolar::parseGeneral"]
INIT_FNS = ["GMGPolar::initializeGrid", "GMGPolar::initializeGeometry", "GMGPolar::initializeMultigrid", "GMGPolar::initializeGeneral"]


def enum_of_type(prog, t):
    t = t.replace("const ", "").strip()
    return t if t in prog.enums else None


def disjuncts(c):
    if c.get("k") == "Bin" and c["op"] == "||":
        return disjuncts(c["a"]) + disjuncts(c["b"])
    return [c]


def eq_enum(c):
    """var == static_cast<int>(Enum::X)  ->  (var id, enum, enumerator)"""
    if c.get("k") != "Bin" or c["op"] != "==":
        return None
    for a, b in ((c["a"], c["b"]), (c["b"], c["a"])):
        if a.get("k") == "Ref" and b.get("k") == "Cast" and b["e"].get("k") == "Enum":
            return (a["id"], b["e"]["enum"], b["e"]["name"])
        if a.get("k") == "Ref" and b.get("k") == "Enum":
            return (a["id"], b["enum"], b["name"])
    return None


def throws(stmt):
    return any(n.get("k") == "Throw" for n in ir.walk(stmt))


def check(ck, tier):
    prog = ir.load(units=["src/GMGPolar/parser.cpp", "src/GMGPolar/setup.cpp", "src/GMGPolar/solver.cpp", "src/GMGPolar/select_test_case.cpp",
                          "src/GMGPolar/gmgpolar.cpp"], witness=False)
    ck.units += prog.units
    ck.rule("R-C20-2", "enum options: parser test == enumerators == oneof list; casts dominated by the test; switches exhaustive or with default", floor=20)
    ck.rule("R-C20-3", "mandated rejections dominate first use (take without caches; fewer than two levels)", floor=3)
    # ---- option name -> local variable (const int x = parser_.get<int>("name"))
    optvar = {}
    for qn in PARSE_FNS:
        fn = prog.fn(qn)
        ck.analysed(fn)
        for s, g in structq.stmts_with_guards(fn["body"]):
            if s.get("k") == "Decl":
                for v in s["vars"]:
                    i = v.get("init")
                    if i and i.get("k") == "Call" and "cmdline::parser::get" in i.get("callee", "") and i["args"] and i["args"][0].get("k") in ("Str", "Construct"):
                        a = i["args"][0]
                        name = a["v"] if a["k"] == "Str" else (a["args"][0]["v"] if a["args"] and a["args"][0].get("k") == "Str" else None)
                        optvar[v["id"]] = name
    # ---- oneof lists
    oneof = {}
    for qn in INIT_FNS:
        fn = prog.fn(qn)
        ck.analysed(fn)
        for c in structq.calls_in(fn):
            if "cmdline::parser::add" in structq.callee_of(c) and c["args"]:
                a0 = c["args"][0]
                name = a0.get("v") if a0.get("k") == "Str" else (a0["args"][0].get("v") if a0.get("k") == "Construct" and a0["args"] else None)
                vals = None
                for a in c["args"]:
                    for n in ir.walk(a):
                        if n.get("k") == "Call" and "cmdline::oneof" in n.get("callee", ""):
                            vals = [int(x["v"]) for x in n["args"] if x.get("k") == "Int"]
                            if len(vals) != len(n["args"]):
                                vals = None
                oneof[name] = vals
    # ---- casts to enum in the parse functions
    n_casts = 0
    for qn in PARSE_FNS:
        fn = prog.fn(qn)
        for s, guards in structq.stmts_with_guards(fn["body"]):
            for e in structq.exprs_of_stmt(s):
                for n in ir.walk(e):
                    if n.get("k") == "Cast" and enum_of_type(prog, n["t"]) and n["e"].get("k") == "Ref":
                        en = enum_of_type(prog, n["t"])
                        var = n["e"]
                        n_casts += 1
                        key = "%s<-%s" % (en, var["name"])
                        ck.instance("R-C20-2", key)
                        enumerators = dict(prog.enum(en)["enumerators"])
                        probs = []
                        g = [gd for gd in guards if gd[1] is True]
                        admitted = None
                        gif = None
                        for cond, pol, ifn in g:
                            ds = [eq_enum(d) for d in disjuncts(cond)]
                            if all(d and d[0] == var["id"] and d[1] == en for d in ds):
                                admitted = set(d[2] for d in ds)
                                gif = ifn
                        if admitted is None:
                            probs.append("static_cast<%s>(%s) is not dominated by a test of %s against the enumerators" % (en, var["name"], var["name"]))
                        else:
                            if admitted != set(enumerators):
                                probs.append("the validity test admits {%s} but %s has {%s}" % (", ".join(sorted(admitted)), en, ", ".join(sorted(enumerators))))
                            if not gif.get("e") or not throws(gif["e"]):
                                probs.append("an invalid value of %s is not rejected with an exception" % var["name"])
                        opt = optvar.get(var["id"])
                        if opt is None:
                            probs.append("cannot tie %s to a command-line option" % var["name"])
                        else:
                            lst = oneof.get(opt)
                            if lst is None:
                                probs.append("option '%s' has no cmdline::oneof list" % opt)
                            elif set(lst) != set(enumerators.values()):
                                probs.append("option '%s' accepts %s on the command line but %s has values %s" % (opt, sorted(lst), en, sorted(enumerators.values())))
                        if probs:
                            ck.violation("R-C20-2", "parser:%s" % en, ir.locstr(n), "; ".join(probs))
                        else:
                            ck.ok("R-C20-2", key, sample={"option": opt, "enum": en, "values": sorted(enumerators.values())})
    if n_casts < 9:
        raise ir.AnalysisBroken("found %d enum casts in the parser (9 confirmed by hand)" % n_casts)
    # ---- switches on enum-typed expressions
    n_sw = 0
    for qn, fns in prog.functions.items():
        if not qn.startswith("GMGPolar::"):
            continue
        for fn in fns:
            for n in ir.walk(fn["body"]):
                if n.get("k") != "Switch":
                    continue
                t = n["e"].get("t", "")
                en = enum_of_type(prog, t)
                if not en:
                    continue
                n_sw += 1
                key = "switch(%s) in %s @%s" % (en, qn.split("::")[-1], n["l"][1])
                ck.instance("R-C20-2", key, nontrivial=(n_sw <= 12))
                body = n["body"]["s"] if n["body"]["k"] == "Block" else [n["body"]]
                named = set()
                default = None
                for x in body:
                    while x.get("k") in ("Case", "Default"):
                        if x["k"] == "Default":
                            default = x
                        elif x["v"].get("k") == "Enum":
                            named.add(x["v"]["name"])
                        x = x["sub"]
                enumerators = set(k for k, v in prog.enum(en)["enumerators"])
                if named >= enumerators or (default is not None and throws(default)):
                    ck.ok("R-C20-2", key)
                elif default is not None:
                    ck.violation("R-C20-2", "switch:%s:%s:silent-default" % (qn.split("::")[-1], en), ir.locstr(n),
                                 "switch over %s in %s does not name {%s} and its default does not throw: those values continue silently" % (
                                     en, qn, ", ".join(sorted(enumerators - named))))
                else:
                    ck.violation("R-C20-2", "switch:%s:%s" % (qn.split("::")[-1], en), ir.locstr(n),
                                 "switch over %s in %s names {%s} but not {%s} and has no default: the missing value falls through silently" % (
                                     en, qn, ", ".join(sorted(named)), ", ".join(sorted(enumerators - named))))
    if n_sw < 5:
        raise ir.AnalysisBroken("found %d enum switches (>= 5 confirmed by hand)" % n_sw)
    # ---- R-C20-3 mandated rejections, by interpreting setup()
    prog2 = sr.load()
    for cc, cg in ((False, False), (True, False), (False, True)):
        key = "take cache_coeff=%s cache_geom=%s" % (cc, cg)
        ck.instance("R-C20-3", key)
        mode = {"L": 2, "stencil": 0, "cache_coeff": cc, "cache_geom": cg}
        doms = list(drv.run_paths(prog2, mode, lambda d, it: sr.run_setup(d, it)))
        bad = []
        for d in doms:
            if not d.throws:
                bad.append("setup() completes with the take strategy although a cache is disabled")
            elif d.bufs or d.levels_built:
                bad.append("setup() builds levels before rejecting the take strategy without caches")
        if bad:
            ck.violation("R-C20-3", "setup:take-without-caches", "src/GMGPolar/setup.cpp", "%s: %s" % (key, bad[0]))
        else:
            ck.ok("R-C20-3", key, sample={"mode": key, "result": "rejected before any level is built (%s)" % doms[0].throws.what[:60]})
    # take with both caches and give with none must be accepted
    for mode, key in (({"L": 2, "stencil": 0, "cache_coeff": True, "cache_geom": True}, "take with caches accepted"),
                      ({"L": 2, "stencil": 1, "cache_coeff": False, "cache_geom": False}, "give without caches accepted")):
        ck.instance("R-C20-3", key)
        doms = list(drv.run_paths(prog2, mode, lambda d, it: sr.run_setup(d, it)))
        if any(d.throws for d in doms):
            ck.violation("R-C20-3", "setup:rejects-valid", "src/GMGPolar/setup.cpp", "%s: setup() throws %s" % (key, [d.throws.what for d in doms if d.throws][0]))
        else:
            ck.ok("R-C20-3", key)
    # level-count rejection: chooseNumberOfLevels throws below 2 levels and is called before levels_ is touched
    fn = prog2.fn("GMGPolar::setup")
    order = []
    for s in fn["body"]["s"]:
        for c in structq.calls_in(s):
            q = structq.callee_of(c)
            if q == "GMGPolar::chooseNumberOfLevels":
                order.append("choose")
            if q.startswith("std::vector<Level") and q.split("::")[-1].split("<")[0] in ("clear", "emplace_back", "reserve"):
                order.append("levels")
    ck.instance("R-C20-3", "level-count rejection precedes level construction")
    if "choose" in order and "levels" in order and order.index("choose") < order.index("levels"):
        ck.ok("R-C20-3", "order")
    else:
        ck.violation("R-C20-3", "setup:levels-before-count", ir.locstr(fn), "setup() touches levels_ before chooseNumberOfLevels() could reject the grid (%s)" % order)
