"""IO — abstract text streams for the grid writer / reader (C18 round-trip clause).

An output file stream is a token list; `<<` of a manipulator changes the format state, `<<` of a double appends
("num", value, notation, precision), `<<` of std::endl / a string appends whitespace / text.  An input file stream
replays the token list of the file of the same (abstract) name: `>>` into a double skips whitespace, consumes one
"num" token and delivers rd(value, notation, precision) — an uninterpreted function of the written value and the
format — or sets the fail state when no number follows.  Doubles are the exact DAG values of SymDomain, so "what the
reader delivers" can be compared structurally with "what the writer was given".
"""
from . import dag, ir
from .conc import Arr, strip_targs
from .interp import Cell, Obj, Opaque
from .ir import AnalysisBroken
from .opsdom import OpsDomain
from .symdom import SArr


class OutStream:
    def __init__(self, name, tokens):
        self.name = name
        self.tokens = tokens
        self.notation = "default"
        self.precision = 6
        self.open = True


class InStream:
    def __init__(self, name, tokens):
        self.name = name
        self.tokens = tokens
        self.pos = 0
        self.fail = tokens is None
        self.open = tokens is not None


class Manip:
    def __init__(self, kind, v=None):
        self.kind, self.v = kind, v


class IoDomain(OpsDomain):
    def __init__(self, prog, stubs=()):
        OpsDomain.__init__(self, prog, record=False)
        self.files = {}
        self.stubs = set(stubs)
        self.stub_log = []
        self.console = []

    # values of type std::string are python strings
    def call(self, e, fr):
        it = self.interp
        k = e["k"]
        callee = e.get("callee") or e.get("ctor") or ""
        base = strip_targs(callee)
        mname = base.rsplit("::", 1)[-1]
        args = e["args"]
        if base in self.stubs:
            this = None
            if e.get("this") is not None:
                this = it.eval(e["this"], fr)
                this = this.get() if isinstance(this, Cell) else this
            snap = None
            if isinstance(this, Obj):
                snap = {n: self.snapshot(c.get()) for n, c in this.f.items()}
            elif fr.this is not None and isinstance(fr.this, Obj):
                snap = {n: self.snapshot(c.get()) for n, c in fr.this.f.items()}
            self.stub_log.append((base, ir.locstr(e), snap))
            return None
        if k == "Construct" and base.startswith("std::basic_ofstream"):
            name = it.rvalue(args[0], fr)
            toks = []
            self.files[name] = toks
            return OutStream(name, toks)
        if k == "Construct" and base.startswith("std::basic_ifstream"):
            name = it.rvalue(args[0], fr)
            return InStream(name, self.files.get(name))
        this = None
        if e.get("this") is not None:
            this = it.eval(e["this"], fr)
            this = this.get() if isinstance(this, Cell) else this
        if isinstance(this, (OutStream, InStream)):
            if mname == "is_open":
                return this.open
            if mname == "close":
                this.open = False
                return None
            if mname in ("operator bool", "good"):
                return not getattr(this, "fail", False)
            if mname in ("fail", "operator!"):
                return getattr(this, "fail", False)
            if mname == "precision" and len(args) == 1:
                this.precision = it.rvalue(args[0], fr)
                return None
            raise AnalysisBroken("stream member %s not modelled at %s" % (mname, ir.locstr(e)))
        # std::copy(std::istream_iterator<double>(file), std::istream_iterator<double>(), std::back_inserter(vec)): the same as
        # `while (file >> x) vec.push_back(x);`
        if k == "Construct" and base.startswith("std::istream_iterator"):
            if not args:
                return ("istream-end",)
            s0 = it.eval(args[0], fr)
            s0 = s0.get() if isinstance(s0, Cell) else s0
            if isinstance(s0, InStream):
                return ("istream-begin", s0)
            if isinstance(s0, tuple) and s0 and s0[0] in ("istream-begin", "istream-end"):
                return s0
        if k == "Call" and base == "std::back_inserter" and len(args) == 1:
            v0 = it.eval(args[0], fr)
            v0 = v0.get() if isinstance(v0, Cell) else v0
            if isinstance(v0, Arr):
                return ("back-inserter", v0)
        if k == "Construct" and base.startswith("std::back_insert_iterator") and len(args) == 1:
            v0 = it.rvalue(args[0], fr)
            if isinstance(v0, tuple) and v0 and v0[0] == "back-inserter":
                return v0
        if k == "Call" and base == "std::copy" and len(args) == 3:
            a_, b_, c_ = (it.rvalue(x_, fr) for x_ in args)
            if isinstance(a_, tuple) and a_ and a_[0] == "istream-begin" and b_ == ("istream-end",) and isinstance(c_, tuple) and c_ and c_[0] == "back-inserter":
                src, dst = a_[1], c_[1]
                while True:
                    tmp = Cell(None, "istream_iterator value")
                    self.take_into(src, tmp, e)
                    if src.fail:
                        break
                    dst.sym[dst.length] = tmp.get()
                    dst.length += 1
                return c_
        if base == "std::setprecision":
            return Manip("precision", it.rvalue(args[0], fr))
        if base == "std::setw":
            it.rvalue(args[0], fr)
            return Manip("width")
        if k == "OpCall" and e["op"] in ("<<", ">>"):
            s = it.eval(args[0], fr)
            s = s.get() if isinstance(s, Cell) else s
            if isinstance(s, OutStream) and e["op"] == "<<":
                self.put(s, args[1], fr)
                return s
            if isinstance(s, InStream) and e["op"] == ">>":
                self.take(s, args[1], fr, e)
                return s
            if isinstance(s, Opaque) or s == "console":
                self.console.append(ir.locstr(e))
                it.rvalue(args[1], fr) if args[1].get("k") not in ("FnRef",) else None
                return "console"
        if isinstance(this, SArr) or isinstance(this, Arr):
            if mname == "clear":
                this.length = 0
                if hasattr(this, "sym"):
                    this.sym.clear()
                return None
            if mname in ("push_back", "emplace_back") and len(args) == 1:
                v = it.rvalue(args[0], fr)
                this.sym[this.length] = v
                this.length += 1
                return None
        return OpsDomain.call(self, e, fr)

    def global_var(self, e, fr):
        if e.get("qn") in ("std::cerr", "std::cout", "std::clog"):
            return "console"
        if (e.get("qn") or "").startswith("std::ios_base::"):
            return Opaque("openmode")
        return OpsDomain.global_var(self, e, fr)

    def snapshot(self, v):
        if isinstance(v, SArr):
            return ("vec", v.length, dict(v.sym))
        return v

    def put(self, s, a, fr):
        it = self.interp
        if a.get("k") == "FnRef":
            nm = strip_targs(a["name"])
            if nm in ("std::fixed", "std::scientific", "std::defaultfloat", "std::hexfloat"):
                s.notation = nm[5:]
            elif nm in ("std::endl", "std::flush", "std::ends"):
                if nm == "std::endl":
                    s.tokens.append(("ws", "\n"))
            else:
                raise AnalysisBroken("stream manipulator %s not modelled" % nm)
            return
        if a.get("k") == "Str":
            txt = a["v"]
            s.tokens.append(("ws", txt) if txt.strip() == "" and txt != "" else ("text", txt))
            return
        if a.get("k") == "Char":
            c = chr(a["v"]) if isinstance(a["v"], int) else a["v"]
            s.tokens.append(("ws", c) if c.isspace() else ("text", c))
            return
        v = it.rvalue(a, fr)
        if isinstance(v, Manip):
            if v.kind == "precision":
                s.precision = v.v
            return
        if isinstance(v, str):
            s.tokens.append(("ws", v) if v.strip() == "" and v != "" else ("text", v))
            return
        if isinstance(v, bool):
            s.tokens.append(("text", "1" if v else "0"))
            return
        if isinstance(v, int):
            t = a.get("t", "")
            if "double" in t or "float" in t:
                v = dag.const(v)
            else:
                s.tokens.append(("int", v))
                return
        if isinstance(v, dag.Node):
            s.tokens.append(("num", v, s.notation, s.precision))
            return
        raise AnalysisBroken("value %r written to a stream is not modelled" % (v,))

    def take(self, s, a, fr, e):
        it = self.interp
        target = it.eval(a, fr)
        if not isinstance(target, Cell):
            raise AnalysisBroken("extraction target is not an lvalue at %s" % ir.locstr(e))
        self.take_into(s, target, e)

    def take_into(self, s, target, e):
        if s.fail:
            return
        toks = s.tokens
        while s.pos < len(toks) and toks[s.pos][0] == "ws":
            s.pos += 1
        if s.pos >= len(toks):
            s.fail = True
            return
        t = toks[s.pos]
        prev_ws = s.pos == 0 or toks[s.pos - 1][0] == "ws"
        if t[0] == "num" and prev_ws:
            s.pos += 1
            target.set(dag.func("rd_" + str(t[2]), t[1], dag.lift(t[3]) if not isinstance(t[3], int) else dag.const(t[3])))
            return
        if t[0] == "num":
            # two numbers written without a separator: the reader sees one merged token
            s.pos += 1
            target.set(dag.func("merged_token", t[1]))
            return
        if t[0] == "int" and prev_ws:
            s.pos += 1
            target.set(dag.const(t[1]))
            return
        s.fail = True

    def range_for(self, s, fr):
        it = self.interp
        from .interp import BreakEx, ContinueEx
        from .symdom import SElem
        r = it.eval(s["range"], fr)
        r = r.get() if isinstance(r, Cell) else r
        if not isinstance(r, Arr):
            raise AnalysisBroken("range-for over %r not modelled at %s" % (r, ir.locstr(s)))
        v = s["var"]
        is_ref = v["t"].rstrip().endswith("&")
        for i in range(r.length):
            cell = SElem(r, i, self, ir.locstr(s))
            fr.vars[v["id"]] = cell if is_ref else Cell(cell.get(), v["name"])
            try:
                it.exec(s["body"], fr)
            except BreakEx:
                break
            except ContinueEx:
                pass
