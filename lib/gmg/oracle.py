"""The multigrid recursion of the property statements, written once (DESIGN 3.2 'Oracle').
Everything is built with the same term constructors the interpreter uses, so terms are
compared syntactically after normalisation."""
from fractions import Fraction

from .terms import LC, fn as tfn, leaf

V, W, F = 0, 1, 2


class Oracle:
    def __init__(self, L, nu1, nu2, ext, full_grid_smoothing, rhs):
        """rhs: dict level -> LC  (f_l as left by setup); ext: extrapolation != NONE"""
        self.L = L
        self.nu1 = nu1
        self.nu2 = nu2
        self.ext = ext
        self.fgs = full_grid_smoothing
        self.rhs = rhs

    def smooth(self, l, u, f, n, ext_top):
        sym = "Sx" if (ext_top and l == 0 and not self.fgs) else "S"
        for _ in range(n):
            u = tfn(sym, l, u, f)
        return u

    def res(self, l, f, u):
        return f - u.lin("A", l)

    def cycle(self, kind, l, u, f, ext_top=False):
        """one cycle of `kind` on level l; ext_top: the implicitly extrapolated variant (only legal at l == 0)"""
        L = self.L
        ub = self.smooth(l, u, f, self.nu1, ext_top)
        r = self.res(l, f, ub)
        if ext_top:
            g = r.lin("Rx", l).scale(Fraction(4, 3)) - self.res(l + 1, self.rhs[l + 1], ub.lin("Inj", l)).scale(Fraction(1, 3))
        else:
            g = r.lin("R", l)
        if l + 1 == L - 1:
            e = g.lin("Solve", l + 1)
        else:
            e = LC.zero()
            if kind == V:
                e = self.cycle(V, l + 1, e, g)
            elif kind == W:
                e = self.cycle(W, l + 1, e, g)
                e = self.cycle(W, l + 1, e, g)
            else:
                e = self.cycle(F, l + 1, e, g)
                e = self.cycle(V, l + 1, e, g)
        un = ub + e.lin("Px" if ext_top else "P", l + 1)
        return self.smooth(l, un, f, self.nu2, ext_top)

    def fmg(self, fmg_kind, k):
        """nested iteration: u_{L-1} = Solve(f_{L-1}); u_{l-1} = cycle^k(l-1, Fmg_l(u_l), f_{l-1})"""
        L = self.L
        u = self.rhs[L - 1].lin("Solve", L - 1)
        for l in range(L - 1, 0, -1):
            u = u.lin("Fmg", l)
            for _ in range(k):
                u = self.cycle(fmg_kind, l - 1, u, self.rhs[l - 1], ext_top=(self.ext and l - 1 == 0))
        return u

    def stop_residual(self, u):
        """the residual whose norm the stop test must use for the iterate u"""
        r = self.res(0, self.rhs[0], u)
        if self.ext:
            rn = self.res(1, self.rhs[1], u.lin("Inj", 0))
            return r.lin("XresF", 0) + rn.lin("XresC", 0)
        return r


def setup_rhs(L, fmg, ext):
    """f_l = D_l(Inj^l f_raw) for the levels setup fills"""
    n = L if fmg else (2 if ext else 1)
    out = {}
    raw = leaf("f_raw")
    for l in range(n):
        out[l] = tfn("D", l, raw)
        raw = raw.lin("Inj", l)
    return out
