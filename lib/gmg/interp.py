"""Generic abstract interpreter over the gmgir IR.

Control flow is executed concretely wherever branch conditions are concrete; the
*domain* object supplies: intrinsics for leaf callees, abstract arithmetic for values it
owns, and `choose()` for conditions that are not concrete (replayed choice vectors —
every unexplored alternative is enumerated by the caller, so this is a finite case split,
not sampling).  Anything the interpreter does not model raises AnalysisBroken: nothing is
skipped silently."""
from . import ir
from .ir import AnalysisBroken


_cell_serial = [0]
CELL_READ_HOOK = [None]   # set by a domain that wants to see reads of scalar variables (loop-carried dependences)


# branch census of the abstract interpretation (adequacy of the shape families): condition -> outcomes seen.
# Always collected (cheap); summarised in every evidence file; GMG_COVER=<dir> additionally dumps the full map per check.
import os as _os
COVER = {}


_INT_TYPES = {"unsigned int": (32, False), "unsigned": (32, False), "unsigned long": (64, False), "size_t": (64, False), "std::size_t": (64, False),
              "unsigned long long": (64, False), "int": (32, True), "long": (64, True), "long long": (64, True), "short": (16, True),
              "unsigned short": (16, False), "unsigned char": (8, False), "std::ptrdiff_t": (64, True), "ptrdiff_t": (64, True)}


def int_conversion(v, t):
    """value of converting the integer v to the integer type t (modular for unsigned, wrap-around for the signed types as
    every supported ABI implements it); None when t is not an integer type"""
    t0 = (t or "").replace("const ", "").replace("&", "").strip()
    if t0 not in _INT_TYPES:
        return None
    bits, signed = _INT_TYPES[t0]
    w = v & ((1 << bits) - 1)
    if signed and w >= (1 << (bits - 1)):
        w -= 1 << bits
    return w


def cover(e, outcome, fr):
    if e.get("k") in ("Bin",) and e.get("op") in ("&&", "||"):
        return  # operands are recorded separately
    l = e.get("l")
    if not l or not isinstance(l[0], str) or l[0].startswith("/"):
        return
    key = "%s:%s|%s|%s" % (l[0], l[1], fr.fn.get("qn", "?") if fr is not None and fr.fn else "?", ir.show(e)[:100])
    COVER.setdefault(key, set()).add(bool(outcome))


class Cell:
    __slots__ = ("v", "name", "serial")

    def __init__(self, v=None, name=""):
        self.v = v
        self.name = name
        _cell_serial[0] += 1
        self.serial = _cell_serial[0]

    def get(self):
        return self.v

    def set(self, v):
        self.v = v


class Undef:
    """an uninitialised scalar"""

    def __init__(self, what):
        self.what = what

    def __repr__(self):
        return "UNDEF(%s)" % self.what


class Obj:
    """plain C++ object with named fields"""

    def __init__(self, cls, fields=None):
        self.cls = cls
        self.f = fields or {}

    def field(self, name):
        if name not in self.f:
            self.f[name] = Cell(Undef("%s.%s" % (self.cls, name)), name)
        return self.f[name]

    def __repr__(self):
        return "Obj(%s)" % self.cls


class Opaque:
    """a value the analysis does not track (timestamps, streams, ...)"""

    def __init__(self, tag):
        self.tag = tag

    def __repr__(self):
        return "Opaque(%s)" % self.tag


class BreakEx(Exception):
    pass


class ContinueEx(Exception):
    pass


class ReturnEx(Exception):
    def __init__(self, v):
        self.v = v


class ThrowEx(Exception):
    def __init__(self, what, site):
        self.what = what
        self.site = site


class Frame:
    def __init__(self, fn, this):
        self.fn = fn
        self.this = this
        self.vars = {}


class IntDivByZero(Exception):
    """the interpreted code divides an integer by zero (undefined behaviour in C++)"""


def c_div(a, b):
    if b == 0:
        raise IntDivByZero("integer division or remainder by zero (%s / 0)" % a)
    q = abs(a) // abs(b)
    return q if (a >= 0) == (b >= 0) else -q


def c_mod(a, b):
    return a - b * c_div(a, b)


class Interp:
    def __init__(self, prog, domain, max_depth=64, loop_limit=100000):
        self.prog = prog
        self.dom = domain
        self.depth = 0
        self.max_depth = max_depth
        self.loop_limit = loop_limit
        self.stack = []
        domain.interp = self

    # ------------------------------------------------------------------ calls
    def call_function(self, fn, this, args, site=None):
        if self.depth >= self.max_depth:
            raise AnalysisBroken("recursion depth exceeded at %s" % fn["qn"])
        fr = Frame(fn, this)
        params = fn["params"]
        if len(args) != len(params):
            raise AnalysisBroken("arity mismatch calling %s" % fn["qn"])
        for p, a in zip(params, args):
            if p["ref"]:
                fr.vars[p["id"]] = a if isinstance(a, Cell) else Cell(a, p["name"])
            else:
                fr.vars[p["id"]] = Cell(a.get() if isinstance(a, Cell) else a, p["name"])
        self.depth += 1
        self.stack.append(fn["qn"])
        self.dom.enter(fn, this, fr, site)
        try:
            if fn.get("inits") and this is not None and isinstance(this, Obj):
                for i in fn["inits"]:
                    if "field" in i:
                        ft = self.dom.field_type(this, i["field"])
                        if ft.rstrip().endswith("&"):
                            v = self.eval(i["init"], fr)
                            v = v.get() if isinstance(v, Cell) else v
                        else:
                            v = self.rvalue(i["init"], fr)
                            if hasattr(self.dom, "fill_member_array") and self.dom.fill_member_array(this.field(i["field"]), v, i["init"], fr):
                                continue
                            v = self.dom.copy_value(v, ft)
                        this.field(i["field"]).set(v)
                    elif "base" in i:
                        self.dom.base_init(this, i, fr)
            self.exec(fn["body"], fr)
            ret = None
        except ReturnEx as r:
            ret = r.v
        finally:
            self.depth -= 1
            self.stack.pop()
            self.dom.leave(fn, this, fr)
        return ret

    # ------------------------------------------------------------------ statements
    def exec(self, s, fr):
        if s is None:
            return
        k = s["k"]
        if k == "Block":
            for x in s["s"]:
                self.exec(x, fr)
            return
        if k == "Expr":
            self.eval(s["e"], fr)
            return
        if k == "Decl":
            for v in s["vars"]:
                self.declare(v, fr)
            return
        if k == "If":
            if s.get("init"):
                self.exec(s["init"], fr)
            if self.truth(self.rvalue(s["c"], fr), s["c"], fr):
                self.exec(s["t"], fr)
            elif s.get("e"):
                self.exec(s["e"], fr)
            return
        if k == "For":
            self.exec(s["init"], fr)
            n = 0
            while True:
                if s["c"] is not None and not self.truth(self.rvalue(s["c"], fr), s["c"], fr, loop=True):
                    break
                try:
                    self.exec(s["body"], fr)
                except BreakEx:
                    break
                except ContinueEx:
                    pass
                if s["inc"] is not None:
                    self.eval(s["inc"], fr)
                n += 1
                if n > self.loop_limit:
                    raise AnalysisBroken("loop limit exceeded at %s" % ir.locstr(s))
            return
        if k == "While":
            n = 0
            while self.truth(self.rvalue(s["c"], fr), s["c"], fr, loop=True):
                try:
                    self.exec(s["body"], fr)
                except BreakEx:
                    break
                except ContinueEx:
                    pass
                n += 1
                if n > self.loop_limit:
                    raise AnalysisBroken("loop limit exceeded at %s" % ir.locstr(s))
            return
        if k == "Do":
            n = 0
            while True:
                try:
                    self.exec(s["body"], fr)
                except BreakEx:
                    break
                except ContinueEx:
                    pass
                if not self.truth(self.rvalue(s["c"], fr), s["c"], fr, loop=True):
                    break
                n += 1
                if n > self.loop_limit:
                    raise AnalysisBroken("loop limit exceeded at %s" % ir.locstr(s))
            return
        if k == "Switch":
            self.exec_switch(s, fr)
            return
        if k == "Return":
            v = None
            if s.get("e") is not None:
                rt = fr.fn.get("ret", "")
                if rt.endswith("&"):
                    v = self.eval(s["e"], fr)
                else:
                    v = self.rvalue(s["e"], fr)
            raise ReturnEx(v)
        if k == "Break":
            raise BreakEx()
        if k == "Continue":
            raise ContinueEx()
        if k == "Null":
            return
        if k == "Omp":
            return self.dom.omp(s, fr)
        if k == "Try":
            try:
                self.exec(s["body"], fr)
            except ThrowEx as t:
                self.dom.caught(t, s, fr)
                if s["handlers"]:
                    self.exec(s["handlers"][0], fr)
            return
        if k == "RangeFor":
            return self.dom.range_for(s, fr)
        raise AnalysisBroken("statement kind %s not modelled at %s" % (k if k != "Unknown" else s.get("cls"), ir.locstr(s)))

    def exec_switch(self, s, fr):
        v = self.rvalue(s["e"], fr)
        v = self.dom.concrete_int(v, s["e"], fr)
        body = s["body"]
        stmts = body["s"] if body["k"] == "Block" else [body]
        # flatten labels: list of (labels, stmt)
        flat = []
        for x in stmts:
            labels = []
            while x["k"] in ("Case", "Default"):
                labels.append(("default", None) if x["k"] == "Default" else ("case", x["v"]))
                x = x["sub"]
            flat.append((labels, x))
        start = None
        default = None
        for i, (labels, x) in enumerate(flat):
            for kind, ve in labels:
                if kind == "default":
                    default = i
                else:
                    cv = self.dom.concrete_int(self.rvalue(ve, fr), ve, fr)
                    if cv == v and start is None:
                        start = i
        if start is None:
            start = default
        if start is None:
            return
        try:
            for labels, x in flat[start:]:
                self.exec(x, fr)
        except BreakEx:
            pass

    def declare(self, v, fr):
        if "unknown" in v:
            raise AnalysisBroken("declaration kind %s not modelled" % v["unknown"])
        t = v["t"]
        is_ref = t.rstrip().endswith("&")
        if "init" in v and v["init"] is not None:
            if is_ref:
                x = self.eval(v["init"], fr)
                fr.vars[v["id"]] = x if isinstance(x, Cell) else Cell(x, v["name"])
            else:
                fr.vars[v["id"]] = Cell(self.dom.copy_value(self.rvalue(v["init"], fr), t), v["name"])
        else:
            fr.vars[v["id"]] = Cell(self.dom.default_value(t, v, fr), v["name"])
        for b in v.get("bindings") or ():
            # `auto [a, b] = x;` / `auto& [a, b] = x;`: each name is a member/element of the hidden object v, or (tuple-like
            # types) a hidden reference initialised with get<I>(v); either way an lvalue evaluated once, here
            if b.get("e") is None:
                raise AnalysisBroken("structured binding %s without a binding expression at %s" % (b.get("name"), ir.locstr(v)))
            x = self.eval(b["e"], fr)
            c = x if isinstance(x, Cell) else Cell(x, b["name"])
            fr.vars[b["id"]] = c
            if b.get("hold_id") is not None:
                fr.vars[b["hold_id"]] = c

    # ------------------------------------------------------------------ expressions
    def truth(self, v, e, fr, loop=False):
        if isinstance(v, bool):
            if COVER is not None and not loop:
                cover(e, v, fr)
            return v
        if isinstance(v, int):
            if COVER is not None and not loop:
                cover(e, v != 0, fr)
            return v != 0
        return self.dom.choose(v, e, fr)

    def rvalue(self, e, fr):
        x = self.eval(e, fr)
        if CELL_READ_HOOK[0] is not None and isinstance(x, Cell):
            CELL_READ_HOOK[0](x, e)
        if isinstance(x, Cell):
            x = x.get()
            if isinstance(x, Undef):
                x = self.dom.read_undef(x, e, fr)
        return x

    def eval(self, e, fr):
        k = e["k"]
        if k == "Int":
            return int(e["v"])
        if k == "Float":
            return self.dom.float_lit(e)
        if k == "Bool":
            return bool(e["v"])
        if k == "Str":
            return e["v"]
        if k == "Nullptr":
            return None
        if k == "Enum":
            return self.dom.enum_const(e)
        if k == "This":
            return fr.this
        if k == "FnRef":
            return ("fnref", e["name"])
        if k == "Ref":
            c = fr.vars.get(e["id"])
            if c is None:
                if e.get("global"):
                    return self.dom.global_var(e, fr)
                raise AnalysisBroken("unbound variable %s at %s" % (e["name"], ir.locstr(e)))
            return c
        if k == "Field":
            base = self.eval(e["base"], fr)
            if isinstance(base, Cell):
                base = base.get()
            if isinstance(base, Obj):
                r = self.dom.field_hook(base, e, fr)
                if r is not NotImplemented:
                    return r
                return base.field(e["field"])
            return self.dom.field_of(base, e, fr)
        if k == "Un":
            return self.eval_un(e, fr)
        if k == "Bin":
            return self.eval_bin(e, fr)
        if k == "Assign":
            return self.eval_assign(e, fr)
        if k == "Cond":
            if self.truth(self.rvalue(e["c"], fr), e["c"], fr):
                return self.eval(e["a"], fr)
            return self.eval(e["b"], fr)
        if k == "Cast":
            v = self.rvalue(e["e"], fr)
            if isinstance(v, int) and not isinstance(v, bool):
                w = int_conversion(v, e["t"])
                if w is not None:
                    return w
            return self.dom.cast(v, e["t"], e, fr)
        if k in ("Call", "OpCall", "Construct"):
            return self.eval_call(e, fr)
        if k == "Index":
            base = self.rvalue(e["base"], fr)
            idx = self.rvalue(e["idx"], fr)
            return self.dom.index(base, idx, e, fr)
        if k == "Throw":
            raise ThrowEx(ir.show(e.get("e")) if e.get("e") else "rethrow", ir.locstr(e))
        if k == "Lambda":
            return self.dom.make_lambda(e, fr)
        if k == "InitList":
            t_ = (e.get("t") or "").replace("const ", "").strip()
            c_ = self.prog.classes.get(t_)
            if c_ is not None and not self.prog.fns(t_ + "::" + t_.split("::")[-1].split("<")[0]):
                # aggregate initialisation of a struct of the program: members in declaration order, the rest default
                obj = self.dom.new_object(t_, e, fr)
                for fd, a in zip(c_["fields"], e["elems"]):
                    ft = fd.get("t") or ""
                    if ft.rstrip().endswith("&"):
                        x = self.eval(a, fr)
                        obj.f[fd["name"]] = x if isinstance(x, Cell) else Cell(x, fd["name"])
                    else:
                        obj.f[fd["name"]].set(self.dom.copy_value(self.rvalue(a, fr), ft))
                return obj
            return self.dom.init_list(e, fr)
        if k == "ZeroInit":
            return 0
        if k == "Expr":
            return self.eval(e["e"], fr)
        if k == "Unknown" and e.get("cls") in ("ImplicitValueInitExpr", "CXXScalarValueInitExpr"):
            return 0
        raise AnalysisBroken("expression kind %s not modelled at %s" % (k if k != "Unknown" else e.get("cls"), ir.locstr(e)))

    def eval_un(self, e, fr):
        op = e["op"]
        if op in ("++", "--"):
            c = self.eval(e["e"], fr)
            if not isinstance(c, Cell):
                raise AnalysisBroken("++ on non-lvalue at %s" % ir.locstr(e))
            if CELL_READ_HOOK[0] is not None:
                CELL_READ_HOOK[0](c, e)
            old = c.get()
            if isinstance(old, Undef):
                old = self.dom.read_undef(old, e, fr)
            new = self.dom.binop("+" if op == "++" else "-", old, 1, e, fr)
            self.dom.write(c, new, e, fr)
            return old if e.get("post") else c
        if op == "&":
            x = self.eval(e["e"], fr)
            return self.dom.address_of(x, e, fr)
        if op == "*":
            x = self.rvalue(e["e"], fr)
            return self.dom.deref(x, e, fr)
        v = self.rvalue(e["e"], fr)
        if op == "!":
            if isinstance(v, (bool, int)):
                return not v
            return self.dom.unop("!", v, e, fr)
        if op == "-":
            if isinstance(v, (int, float)) and not isinstance(v, bool):
                return -v
            return self.dom.unop("-", v, e, fr)
        if op == "+":
            return v
        if op == "~" and isinstance(v, int):
            return ~v
        return self.dom.unop(op, v, e, fr)

    def eval_bin(self, e, fr):
        op = e["op"]
        if op == "&&":
            a = self.rvalue(e["a"], fr)
            if isinstance(a, (bool, int)):
                if COVER is not None:
                    cover(e["a"], bool(a), fr)
                if not a:
                    return False
                b = self.rvalue(e["b"], fr)
                if COVER is not None and isinstance(b, (bool, int)):
                    cover(e["b"], bool(b), fr)
                return bool(b) if isinstance(b, (bool, int)) else b
            return self.dom.lazy_and(a, e, fr)
        if op == "||":
            a = self.rvalue(e["a"], fr)
            if isinstance(a, (bool, int)):
                if COVER is not None:
                    cover(e["a"], bool(a), fr)
                if a:
                    return True
                b = self.rvalue(e["b"], fr)
                if COVER is not None and isinstance(b, (bool, int)):
                    cover(e["b"], bool(b), fr)
                return bool(b) if isinstance(b, (bool, int)) else b
            return self.dom.lazy_or(a, e, fr)
        if op == ",":
            self.eval(e["a"], fr)
            return self.eval(e["b"], fr)
        a = self.rvalue(e["a"], fr)
        b = self.rvalue(e["b"], fr)
        return self.dom.binop(op, a, b, e, fr)

    def eval_assign(self, e, fr):
        op = e["op"]
        c = self.eval(e["a"], fr)
        rhs = self.rvalue(e["b"], fr)
        if not isinstance(c, Cell):
            return self.dom.assign_to(c, op, rhs, e, fr)
        if op == "=":
            self.dom.write(c, self.dom.copy_value(rhs, e.get("t", "")), e, fr)
        else:
            if CELL_READ_HOOK[0] is not None:
                CELL_READ_HOOK[0](c, e)
            old = c.get()
            if isinstance(old, Undef):
                old = self.dom.read_undef(old, e, fr)
            self.dom.write(c, self.dom.binop(op[:-1], old, rhs, e, fr), e, fr)
        return c

    def eval_call(self, e, fr):
        r = self.dom.call(e, fr)
        if r is not NotImplemented:
            return r
        k = e["k"]
        callee = e.get("callee") or e.get("ctor") or ""
        cands = self.prog.fns(callee)
        if k == "Call" and cands:
            fn = self.pick(cands, e)
            this = None
            if "this" in e and e["this"] is not None:
                this = self.eval(e["this"], fr)
                if isinstance(this, Cell):
                    this = this.get()
            args = self.eval_args(fn, e["args"], fr)
            return self.call_function(fn, this, args, e)
        if k == "OpCall" and cands and e.get("member"):
            fn = self.pick_op(cands, e)
            this = self.eval(e["args"][0], fr)
            if isinstance(this, Cell):
                this = this.get()
            args = self.eval_args(fn, e["args"][1:], fr)
            return self.call_function(fn, this, args, e)
        if k == "Construct" and cands:
            n = len(e["args"])
            c = [f for f in cands if len(f["params"]) == n]
            want = "copy_ctor" if e.get("copy") else ("move_ctor" if e.get("move") else None)
            c2 = [f for f in c if (f.get("special") == want if want else f.get("special") not in ("copy_ctor", "move_ctor"))]
            if c2:
                c = c2
            if len(c) >= 1:
                fn = c[0]
                obj = self.dom.new_object(fn.get("cls", ""), e, fr)
                args = self.eval_args(fn, e["args"], fr)
                self.call_function(fn, obj, args, e)
                return obj
        if k == "Construct" and not cands:
            # a class of the program without a user-provided constructor for this call: implicit copy / move, value
            # initialisation, or aggregate initialisation (members in declaration order)
            cls = callee.rsplit("::", 1)[0] if "::" in callee else callee
            c = self.prog.classes.get(cls)
            if c is not None:
                args = e["args"]
                if (e.get("copy") or e.get("move")) and len(args) == 1:
                    return self.dom.copy_value(self.rvalue(args[0], fr), cls)
                if len(args) == 1 and args[0].get("k") == "InitList":
                    return self.rvalue(args[0], fr)
                obj = self.dom.new_object(cls, e, fr)
                if len(args) <= len(c["fields"]):
                    for fd, a in zip(c["fields"], args):
                        t_ = fd.get("t") or ""
                        if t_.rstrip().endswith("&"):
                            x = self.eval(a, fr)
                            obj.f[fd["name"]] = x if isinstance(x, Cell) else Cell(x, fd["name"])
                        else:
                            obj.f[fd["name"]].set(self.dom.copy_value(self.rvalue(a, fr), t_))
                    return obj
        raise AnalysisBroken("call to %s not modelled at %s (in %s)" % (callee or ir.show(e), ir.locstr(e), fr.fn["qn"]))

    def pick_op(self, cands, e):
        n = len(e["args"]) - 1
        c = [f for f in cands if len(f["params"]) == n]
        if len(c) == 1:
            return c[0]
        # const / non-const overloads: choose by the constness of the result type
        want_const = e.get("t", "").startswith("const ")
        c2 = [f for f in c if bool(f.get("constm")) == want_const]
        if c2:
            return c2[0]
        if c:
            return c[0]
        raise AnalysisBroken("no overload of %s for operator call at %s" % (e.get("callee"), ir.locstr(e)))

    def pick(self, cands, e):
        n = len(e["args"])
        c = [f for f in cands if len(f["params"]) == n]
        if len(c) == 1:
            return c[0]
        if len(c) > 1 and e.get("l"):
            # functions with internal linkage (anonymous namespace, static) may share a name across translation units: the
            # one meant is the one defined in the file of the call
            same = [f for f in c if f.get("l") and f["l"][0] == e["l"][0]]
            if len(same) == 1:
                return same[0]
            if "(anonymous namespace)" in (e.get("callee") or "") and len(set(f["l"][0] for f in c if f.get("l"))) > 1 and not same:
                raise AnalysisBroken("call of %s at %s: several internal-linkage definitions, none in the calling file" % (e.get("callee"), ir.locstr(e)))
        # disambiguate const / non-const overloads
        if "constm" in e:
            c2 = [f for f in c if f.get("constm") == e["constm"]]
            if len(c2) == 1:
                return c2[0]
        if len(c) > 1:
            return c[0]
        raise AnalysisBroken("no overload of %s with %d parameters" % (e.get("callee"), n))

    def eval_args(self, fn, args, fr):
        out = []
        for p, a in zip(fn["params"], args):
            if p["ref"]:
                out.append(self.eval(a, fr))
            else:
                out.append(self.rvalue(a, fr))
        return out


class Domain:
    """default domain: concrete ints/bools; everything else must be overridden"""
    interp = None

    def enter(self, fn, this, fr, site):
        pass

    def leave(self, fn, this, fr):
        pass

    def omp(self, s, fr):
        if s.get("body") is not None:
            self.interp.exec(s["body"], fr)

    def caught(self, t, s, fr):
        pass

    def range_for(self, s, fr):
        raise AnalysisBroken("range-for not modelled at %s" % ir.locstr(s))

    def concrete_int(self, v, e, fr):
        if isinstance(v, bool):
            return int(v)
        if isinstance(v, int):
            return v
        raise AnalysisBroken("switch/index on non-concrete value %r at %s" % (v, ir.locstr(e)))

    def copy_value(self, v, t):
        return v

    def new_object(self, cls, e, fr):
        return Obj(cls)

    def field_type(self, obj, name):
        return ""

    def base_init(self, this, init, fr):
        e = init["init"]
        if e.get("k") == "Construct":
            cands = [f for f in self.interp.prog.fns(e.get("ctor", "")) if len(f["params"]) == len(e["args"])]
            if cands:
                args = self.interp.eval_args(cands[0], e["args"], fr)
                self.interp.call_function(cands[0], this, args, e)
                return
            if not e["args"]:
                return
        raise AnalysisBroken("base-class initialiser not modelled at %s" % ir.locstr(init))

    def default_value(self, t, v, fr):
        return Undef(v["name"])

    def choose(self, v, e, fr):
        raise AnalysisBroken("branch on non-concrete value %r at %s" % (v, ir.locstr(e)))

    def read_undef(self, u, e, fr):
        return u

    def float_lit(self, e):
        return float(e["v"])

    def enum_const(self, e):
        return int(e["v"])

    def global_var(self, e, fr):
        """a namespace-scope constant with an initialiser in the program (constexpr lookup tables, named constants): its
        initialiser, evaluated once.  Mutable globals stay outside the model."""
        qn = e.get("qn")
        if (qn or "").startswith("std::memory_order"):
            return Opaque("memory order")
        g = getattr(self.interp.prog, "globals", {}).get(qn) if self.interp is not None else None
        if g is not None and g.get("init") is not None and ("const" in (g.get("t") or "") or "constexpr" in (g.get("t") or "")):
            cache = self.__dict__.setdefault("_global_cache", {})
            if qn not in cache:
                gfr = Frame({"qn": "<initialiser of %s>" % qn, "params": [], "ret": ""}, None)
                v = self.interp.rvalue(g["init"], gfr)
                cache[qn] = v if isinstance(v, Cell) else Cell(v, qn)
            return cache[qn]
        raise AnalysisBroken("global %s not modelled" % qn)

    def field_hook(self, obj, e, fr):
        return NotImplemented

    def field_of(self, base, e, fr):
        raise AnalysisBroken("field %s of %r not modelled at %s" % (e["field"], base, ir.locstr(e)))

    def write(self, cell, v, e, fr):
        cell.set(v)

    def assign_to(self, target, op, rhs, e, fr):
        raise AnalysisBroken("assignment to non-lvalue %r at %s" % (target, ir.locstr(e)))

    def address_of(self, x, e, fr):
        return ("addr", x)

    def deref(self, x, e, fr):
        if isinstance(x, tuple) and x and x[0] == "addr":
            return x[1]
        return x

    def cast(self, v, t, e, fr):
        if isinstance(v, float) and t in ("int", "long", "size_t", "unsigned long", "std::size_t"):
            return int(v)
        if isinstance(v, bool) and t in ("int",):
            return int(v)
        if isinstance(v, int) and t in ("double", "float"):
            return float(v)
        return v

    def unop(self, op, v, e, fr):
        raise AnalysisBroken("unary %s on %r not modelled at %s" % (op, v, ir.locstr(e)))

    def lazy_and(self, a, e, fr):
        raise AnalysisBroken("&& on non-concrete %r at %s" % (a, ir.locstr(e)))

    def lazy_or(self, a, e, fr):
        raise AnalysisBroken("|| on non-concrete %r at %s" % (a, ir.locstr(e)))

    def binop(self, op, a, b, e, fr):
        num = lambda x: isinstance(x, (int, float)) and not isinstance(x, bool) or isinstance(x, bool)
        if num(a) and num(b):
            isint = isinstance(a, int) and isinstance(b, int)
            if op == "+":
                return a + b
            if op == "-":
                return a - b
            if op == "*":
                return a * b
            if op == "/":
                if isint:
                    return c_div(int(a), int(b))
                return a / b
            if op == "%":
                return c_mod(int(a), int(b))
            if op == "<":
                return a < b
            if op == "<=":
                return a <= b
            if op == ">":
                return a > b
            if op == ">=":
                return a >= b
            if op == "==":
                return a == b
            if op == "!=":
                return a != b
            if isint:
                if op == "&":
                    return int(a) & int(b)
                if op == "|":
                    return int(a) | int(b)
                if op == "^":
                    return int(a) ^ int(b)
                if op == "<<":
                    return int(a) << int(b)
                if op == ">>":
                    return int(a) >> int(b)
        return self.abs_binop(op, a, b, e, fr)

    def abs_binop(self, op, a, b, e, fr):
        raise AnalysisBroken("binary %s on %r, %r not modelled at %s" % (op, a, b, ir.locstr(e)))

    def call(self, e, fr):
        return NotImplemented

    def index(self, base, idx, e, fr):
        raise AnalysisBroken("subscript on %r not modelled at %s" % (base, ir.locstr(e)))

    def make_lambda(self, e, fr):
        return ("lambda", e, fr)

    def init_list(self, e, fr):
        return [self.interp.rvalue(x, fr) for x in e["elems"]]
