"""IR loader: builds the compilation database from /repo's working tree, runs gmgir on
the requested units (parallel, content-hash cache under /verif/.cache) and merges the
per-unit JSON into one Program.  Nothing here decides a property."""
import glob
import hashlib
import json
import os
import subprocess
import sys
from concurrent.futures import ThreadPoolExecutor

VERIF = os.path.dirname(os.path.dirname(os.path.dirname(os.path.abspath(__file__))))
REPO = os.environ.get("GMG_REPO", "/repo")
GMGIR = os.path.join(VERIF, "build", "gmgir")
CACHE = os.path.join(VERIF, ".cache")

# the CMake globs of /repo/CMakeLists.txt (library + executables), MUMPS/LIKWID off
UNIT_GLOBS = [
    "src/PolarGrid/**/*.cpp",
    "src/InputFunctions/**/*.cpp",
    "src/GMGPolar/**/*.cpp",
    "src/Level/**/*.cpp",
    "src/Stencil/**/*.cpp",
    "src/Interpolation/**/*.cpp",
    "src/DirectSolver/**/*.cpp",
    "src/Residual/**/*.cpp",
    "src/Smoother/**/*.cpp",
    "src/ExtrapolatedSmoother/**/*.cpp",
    "src/main.cpp",
    "src/convergence_order.cpp",
    "src/weak_scaling.cpp",
    "src/strong_scaling.cpp",
]
WITNESS = os.path.join(VERIF, "gmgir", "witness.cpp")


class AnalysisBroken(Exception):
    """exit 2: anchor vanished / unknown construct / floor unmet"""


def flags():
    res = subprocess.run(["clang++", "-print-resource-dir"], capture_output=True, text=True).stdout.strip()
    return ["-std=gnu++20", "-fopenmp", "-DNDEBUG", "-I" + os.path.join(REPO, "include"), "-resource-dir", res,
            "-Wno-everything"]


def all_units(include_inputs=True):
    out = []
    for g in UNIT_GLOBS:
        for p in sorted(glob.glob(os.path.join(REPO, g), recursive=True)):
            if not include_inputs and "/InputFunctions/" in p:
                continue
            if p not in out:
                out.append(p)
    return out


def rel(p):
    return os.path.relpath(p, REPO) if p.startswith(REPO + "/") else p


_hdr_hash = None


def headers_hash():
    global _hdr_hash
    if _hdr_hash is None:
        h = hashlib.sha256()
        for root in ("include", "src"):
            for dp, dn, fn in sorted(os.walk(os.path.join(REPO, root))):
                dn.sort()
                for f in sorted(fn):
                    if f.endswith((".h", ".inl", ".hpp")):
                        p = os.path.join(dp, f)
                        h.update(rel(p).encode())
                        with open(p, "rb") as fh:
                            h.update(fh.read())
        with open(GMGIR, "rb") as fh:
            h.update(fh.read())
        h.update(" ".join(flags()).encode())
        _hdr_hash = h.hexdigest()
    return _hdr_hash


def _extract_one(path):
    with open(path, "rb") as fh:
        src = fh.read()
    key = hashlib.sha256(headers_hash().encode() + path.encode() + src).hexdigest()[:32]
    out = os.path.join(CACHE, key + ".json")
    if not os.path.exists(out):
        os.makedirs(CACHE, exist_ok=True)
        tmp = out + ".tmp%d" % os.getpid()
        r = subprocess.run([GMGIR, tmp, path, "--"] + flags(), capture_output=True, text=True)
        if r.returncode != 0 or not os.path.exists(tmp):
            raise AnalysisBroken("gmgir failed on %s:\n%s" % (path, (r.stderr or "")[-3000:]))
        os.replace(tmp, out)
    with open(out) as fh:
        return json.load(fh)


class Program:
    def __init__(self):
        self.units = []
        self.functions = {}  # qn -> list of fn dict (distinct definitions)
        self.fn_by_loc = {}
        self.classes = {}
        self.enums = {}
        self.globals = {}

    def fn(self, qn, n=None):
        """unique function with this qualified name (optionally with n params)"""
        c = self.functions.get(qn, [])
        if n is not None:
            c = [f for f in c if len(f["params"]) == n]
        if len(c) != 1:
            raise AnalysisBroken("anchor vanished or ambiguous: function %s (found %d)" % (qn, len(c)))
        return c[0]

    def fns(self, qn):
        return self.functions.get(qn, [])

    def cls(self, qn):
        if qn not in self.classes:
            raise AnalysisBroken("anchor vanished: class %s" % qn)
        return self.classes[qn]

    def enum(self, qn):
        if qn not in self.enums:
            raise AnalysisBroken("anchor vanished: enum %s" % qn)
        return self.enums[qn]


def _fix_locs(node, files):
    """replace file indices by repo-relative file names in 'l' and 'end'"""
    stack = [node]
    while stack:
        n = stack.pop()
        if isinstance(n, dict):
            for key in ("l", "end"):
                l = n.get(key)
                if isinstance(l, list) and l and isinstance(l[0], int):
                    if len(l) == 2:
                        n[key] = (files[l[0]] if l[0] >= 0 else "?", l[1])
                    elif len(l) == 4:
                        n[key] = (files[l[0]] if l[0] >= 0 else "?", l[1], files[l[2]] if l[2] >= 0 else "?", l[3])
            stack.extend(v for v in n.values() if isinstance(v, (dict, list)))
        elif isinstance(n, list):
            stack.extend(v for v in n if isinstance(v, (dict, list)))


def load(units=None, include_inputs=False, witness=True, jobs=16):
    """units: list of repo-relative or absolute paths; default all non-InputFunctions units"""
    if not os.path.exists(GMGIR):
        raise AnalysisBroken("gmgir not built: run ./setup.sh")
    if units is None:
        paths = all_units(include_inputs)
    else:
        paths = [u if os.path.isabs(u) else os.path.join(REPO, u) for u in units]
        missing = [p for p in paths if not os.path.exists(p)]
        if missing:
            # a translation unit that was split, merged or renamed: its code is still in that directory.  Load every unit
            # of the directory instead (a superset of what was asked for); the functions the check needs are looked up by
            # qualified name afterwards, and a function that really vanished is reported there
            paths = [p for p in paths if os.path.exists(p)]
            for m_ in missing:
                d_ = os.path.dirname(m_)
                sib = sorted(os.path.join(d_, f) for f in os.listdir(d_) if f.endswith(".cpp")) if os.path.isdir(d_) else []
                if not sib:
                    raise AnalysisBroken("anchor vanished: unit %s (and no other unit in its directory)" % rel(m_))
                for q in sib:
                    if q not in paths:
                        paths.append(q)
    if witness and WITNESS not in paths:
        paths.append(WITNESS)
    with ThreadPoolExecutor(max_workers=jobs) as ex:
        docs = list(ex.map(_extract_one, paths))
    prog = Program()
    for p, d in zip(paths, docs):
        files = [rel(os.path.normpath(f)) for f in d["files"]]
        prog.units.append(rel(p))
        for f in d["functions"]:
            key = (f["qn"], files[f["l"][0]] if f["l"][0] >= 0 else "?", f["l"][1], len(f["params"]),
                   tuple(q["t"] for q in f["params"]))
            if key in prog.fn_by_loc:
                continue
            _fix_locs(f, files)
            prog.fn_by_loc[key] = f
            prog.functions.setdefault(f["qn"], []).append(f)
        for c in d["classes"]:
            if c["qn"] not in prog.classes:
                _fix_locs(c, files)
                prog.classes[c["qn"]] = c
        for e in d["enums"]:
            if e["qn"] not in prog.enums:
                _fix_locs(e, files)
                prog.enums[e["qn"]] = e
        for g in d["globals"]:
            if g["qn"] not in prog.globals:
                _fix_locs(g, files)
                prog.globals[g["qn"]] = g
    return prog


# ---------------------------------------------------------------------------- helpers
def walk(node):
    """pre-order over all dict nodes"""
    stack = [node]
    while stack:
        n = stack.pop()
        if isinstance(n, dict):
            yield n
            for v in reversed(list(n.values())):
                if isinstance(v, (dict, list)):
                    stack.append(v)
        elif isinstance(n, list):
            for v in reversed(n):
                if isinstance(v, (dict, list)):
                    stack.append(v)


def locstr(n):
    l = n.get("l") if isinstance(n, dict) else n
    if not l:
        return "?"
    s = "%s:%d" % (l[0], l[1])
    if len(l) == 4:
        s += " (macro body %s:%d)" % (l[2], l[3])
    return s


def unknowns(node):
    return [n for n in walk(node) if n.get("k") == "Unknown"]


def show(e, depth=0):
    """compact pretty printer for expressions (reports only)"""
    if e is None:
        return "<null>"
    if depth > 12:
        return "…"
    k = e.get("k")
    s = lambda x: show(x, depth + 1)
    if k == "Int":
        return str(e["v"])
    if k == "Float":
        return e.get("text") or e["v"]
    if k == "Bool":
        return "true" if e["v"] else "false"
    if k == "Str":
        return json.dumps(e["v"])
    if k == "Nullptr":
        return "nullptr"
    if k == "This":
        return "this"
    if k == "Ref":
        return e["name"]
    if k == "Enum":
        return e["enum"] + "::" + e["name"]
    if k == "FnRef":
        return e["name"]
    if k == "Field":
        b = e["base"]
        if b and b.get("k") == "This":
            return e["field"]
        return s(b) + ("->" if e.get("arrow") else ".") + e["field"]
    if k == "Call":
        a = ", ".join(s(x) for x in e["args"])
        name = e["callee"].split("(")[0] if e["callee"] else s(e.get("fn"))
        short = name.split("::")[-1]
        if "this" in e and e["this"] is not None:
            t = e["this"]
            if t.get("k") == "This":
                return "%s(%s)" % (short, a)
            return "%s.%s(%s)" % (s(t), short, a)
        return "%s(%s)" % (name, a)
    if k == "OpCall":
        a = e["args"]
        if e["op"] == "[]":
            return "%s[%s]" % (s(a[0]), s(a[1]))
        if e["op"] == "()":
            return "%s(%s)" % (s(a[0]), ", ".join(s(x) for x in a[1:]))
        if len(a) == 2:
            return "(%s %s %s)" % (s(a[0]), e["op"], s(a[1]))
        if len(a) == 1:
            return "%s%s" % (e["op"], s(a[0]))
    if k == "Un":
        return ("%s%s" % (s(e["e"]), e["op"])) if e.get("post") else ("%s%s" % (e["op"], s(e["e"])))
    if k in ("Bin", "Assign"):
        return "(%s %s %s)" % (s(e["a"]), e["op"], s(e["b"]))
    if k == "Cond":
        return "(%s ? %s : %s)" % (s(e["c"]), s(e["a"]), s(e["b"]))
    if k == "Index":
        return "%s[%s]" % (s(e["base"]), s(e["idx"]))
    if k == "Cast":
        return "(%s)%s" % (e["t"], s(e["e"]))
    if k == "Construct":
        return "%s{%s}" % (e["t"], ", ".join(s(x) for x in e["args"]))
    if k == "InitList":
        return "{%s}" % ", ".join(s(x) for x in e["elems"])
    if k == "Lambda":
        return "[lambda]"
    if k == "Throw":
        return "throw " + s(e.get("e"))
    if k == "New":
        return "new %s[%s]" % (e["t"], s(e.get("size")))
    if k == "MethodRef":
        return s(e["base"]) + "." + e["name"].split("::")[-1]
    if k == "ZeroInit":
        return e["t"] + "()"
    if k == "Unknown":
        return "<%s>" % e["cls"]
    if k == "Expr":
        return s(e["e"])
    return "<%s>" % k
