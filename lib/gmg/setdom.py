"""GEN — symbolic interpretation of the anisotropic radial generator (C18).

The generator orders doubles in std::set.  Every value it handles is R0 + q*(Rmax - R0) with a rational q, so with
R0 and span = Rmax - R0 as positive atoms the order of any two values is the same at every test point: the set model
keeps its elements sorted by that order (dag.order_at_points; a non-uniform order is analysis-broken, an equal pair is one
element).  Values that must be concrete (float->int conversions, min/max, floor/ceil operands) are folded when they are
constants in disguise (dag.const_value), e.g. the refinement percentage (rr - R0)/(Rmax - R0) for rr = R0 + p*span.
"""
import math
import re
from fractions import Fraction

from . import dag, ir
from .conc import Arr, strip_targs
from .interp import Cell, Obj
from .ir import AnalysisBroken
from .opsdom import OpsDomain
from .symdom import SArr, is_sym
from .dag import Lin, Node


class SetObj:
    def __init__(self, items=None):
        self.items = list(items or [])   # ascending

    def insert(self, v):
        v = dag.lift(v)
        lo = 0
        for i, x in enumerate(self.items):
            o = dag.order_at_points(v, x)
            if o is None:
                raise AnalysisBroken("std::set: the order of %s and %s is not the same at every test point" % (dag.show(v, 40), dag.show(x, 40)))
            if o == 0:
                return False
            if o < 0:
                self.items.insert(i, v)
                return True
        self.items.append(v)
        return True


class SetIter:
    def __init__(self, s, pos):
        self.s, self.pos = s, pos


class GenDomain(OpsDomain):
    def __init__(self, prog):
        OpsDomain.__init__(self, prog, record=False)

    # ---- constants in disguise
    def fold(self, v):
        if isinstance(v, Lin):
            return v
        if isinstance(v, Node) and v.op != "c":
            c = dag.const_value(v)
            if c is not None:
                return dag.const(c)
        return v

    def cast(self, v, t, e, fr):
        return OpsDomain.cast(self, self.fold(v) if is_sym(v) else v, t, e, fr)

    def copy_value(self, v, t):
        t0 = (t or "").replace("const ", "").replace("&", "").strip()
        if isinstance(v, Node) and v.op != "c" and t0 in ("int", "long", "size_t", "std::size_t", "unsigned long", "unsigned int"):
            v = self.fold(v)
        return OpsDomain.copy_value(self, v, t)

    def abs_binop(self, op, a, b, e, fr):
        if op in ("<", "<=", ">", ">=", "==", "!=") and (is_sym(a) or is_sym(b)) and not isinstance(a, Lin) and not isinstance(b, Lin):
            o = dag.order_at_points(dag.lift(a), dag.lift(b))
            if o is None:
                raise AnalysisBroken("comparison %s of values whose order depends on the test point at %s" % (op, ir.locstr(e)))
            return {"<": o < 0, "<=": o <= 0, ">": o > 0, ">=": o >= 0, "==": o == 0, "!=": o != 0}[op]
        return OpsDomain.abs_binop(self, op, a, b, e, fr)

    def range_for(self, s, fr):
        it = self.interp
        r = it.eval(s["range"], fr)
        r = r.get() if isinstance(r, Cell) else r
        if isinstance(r, SetObj):
            # ascending order; an element inserted during the loop is visited iff it is larger than the current one
            from .interp import BreakEx, ContinueEx
            v = s["var"]
            pos = 0
            while pos < len(r.items):
                cur = r.items[pos]
                fr.vars[v["id"]] = Cell(cur, v["name"])
                try:
                    it.exec(s["body"], fr)
                except BreakEx:
                    break
                except ContinueEx:
                    pass
                # the element may have moved if something smaller was inserted: continue after it
                pos = next((i for i, x in enumerate(r.items) if x is cur), pos) + 1
            return
        return OpsDomain.range_for(self, s, fr)

    def iter_range(self, first, last, e):
        """the values in [first, last): a pair of vector iterators or of std::set iterators"""
        from .conc import PtrInto
        if isinstance(first, PtrInto) and isinstance(last, PtrInto) and first.arr is last.arr:
            if not (0 <= first.off <= last.off <= (first.arr.length or 0)):
                from . import conc
                o = ("%s (iterator range)" % first.arr.name, "%s..%s" % (first.off, last.off), first.arr.length, ir.locstr(e))
                self.oob.append(o)
                conc.GLOBAL_OOB.append(o)
            return [self.elem_class()(first.arr, i, self, ir.locstr(e)).get() for i in range(first.off, last.off)]
        if isinstance(first, SetIter) and isinstance(last, SetIter) and first.s is last.s and first.s is not None:
            return list(first.s.items[first.pos:last.pos])
        raise AnalysisBroken("iterator range (%r, %r) not modelled at %s" % (first, last, ir.locstr(e)))

    def call(self, e, fr):
        it = self.interp
        k = e["k"]
        if k == "Call" and strip_targs(e.get("callee") or "") == "std::copy" and len(e["args"]) == 3:
            from .conc import PtrInto
            a_, b_, c_ = (it.rvalue(x_, fr) for x_ in e["args"])
            if isinstance(a_, SetIter) and isinstance(c_, PtrInto):
                xs = self.iter_range(a_, b_, e)                        # std::copy(s.begin(), s.end(), out)
                for i, x_ in enumerate(xs):
                    self.index(c_.arr, c_.off + i, e, fr).set(x_)
                return PtrInto(c_.arr, c_.off + len(xs))
        callee = e.get("callee") or e.get("ctor") or ""
        base = strip_targs(callee)
        m = base.rsplit("::", 1)[-1]
        args = e["args"]
        t = (e.get("t") or "").replace("const ", "")
        if k == "Construct" and t.startswith("std::set<double") and "iterator" not in t:
            if not args:
                return SetObj()
            vals_ = [it.rvalue(a_, fr) for a_ in args]
            if len(vals_) == 1 and isinstance(vals_[0], SetObj):
                return SetObj(vals_[0].items)
            if len(vals_) == 2:
                so = SetObj()
                for x_ in self.iter_range(vals_[0], vals_[1], e):      # std::set<double> s(first, last)
                    so.insert(x_)
                return so
            raise AnalysisBroken("std::set constructor with %d arguments not modelled at %s" % (len(args), ir.locstr(e)))
        if k == "Construct" and (e.get("ctor") or "").startswith("std::_Rb_tree_const_iterator<double>"):
            if args:
                v = it.rvalue(args[0], fr)
                if isinstance(v, SetIter):
                    return SetIter(v.s, v.pos)
            return SetIter(None, 0)
        if k == "OpCall" and e.get("op") in ("==", "!=") and callee.startswith("__gnu_cxx::operator") and len(args) == 2:
            from .conc import PtrInto
            a_, b_ = it.rvalue(args[0], fr), it.rvalue(args[1], fr)
            if isinstance(a_, PtrInto) and isinstance(b_, PtrInto) and a_.arr is b_.arr:
                return (a_.off == b_.off) if e["op"] == "==" else (a_.off != b_.off)
        # ---- std algorithms over iterator pairs into a vector, with lambdas / comparison functors
        if k == "Construct" and re.match(r"^std::(greater_equal|greater|less|less_equal|equal_to)<", t):
            return ("functor", re.match(r"^std::(\w+)<", t).group(1))
        if k == "Call" and base in ("std::all_of", "std::any_of", "std::none_of", "std::find_if", "std::find_if_not", "std::adjacent_find", "std::lower_bound", "std::upper_bound", "std::find", "std::count_if") and len(args) >= 2:
            from .conc import PtrInto
            vals = [it.rvalue(a, fr) for a in args]
            first, last = vals[0], vals[1]
            if not (isinstance(first, PtrInto) and isinstance(last, PtrInto) and first.arr is last.arr):
                raise AnalysisBroken("%s on something that is not an iterator pair into one vector at %s" % (base, ir.locstr(e)))
            arr = first.arr

            def elem(i):
                return self.elem_class()(arr, i, self, ir.locstr(e)).get()

            def apply(fn, *xs):
                if isinstance(fn, tuple) and fn and fn[0] == "lambda":
                    r = self.call_lambda(fn, list(xs), e)
                elif isinstance(fn, tuple) and fn and fn[0] == "fnref":
                    cands_ = [f for f in self.prog.fns(fn[1]) if len(f["params"]) == len(xs)]
                    if len(cands_) > 1 and e.get("l"):
                        cands_ = [f for f in cands_ if f.get("l") and f["l"][0] == e["l"][0]] or cands_
                    if len(cands_) != 1:
                        raise AnalysisBroken("function %s used as a predicate in %s is not defined once with %d parameters (%s)" % (fn[1], base, len(xs), ir.locstr(e)))
                    r = it.call_function(cands_[0], None, list(xs), e)
                elif isinstance(fn, tuple) and fn and fn[0] == "functor":
                    op = {"greater_equal": ">=", "greater": ">", "less": "<", "less_equal": "<=", "equal_to": "=="}[fn[1]]
                    r = self.binop(op, xs[0], xs[1], e, fr)
                else:
                    raise AnalysisBroken("callable %r in %s not modelled at %s" % (fn, base, ir.locstr(e)))
                return it.truth(r, e, fr)
            lo, hi = first.off, last.off
            m_ = base[5:]
            if m_ in ("all_of", "any_of", "none_of", "count_if"):
                res = [apply(vals[2], elem(i)) for i in range(lo, hi)]
                return all(res) if m_ == "all_of" else any(res) if m_ == "any_of" else (not any(res)) if m_ == "none_of" else sum(1 for x in res if x)
            if m_ in ("find_if", "find_if_not"):
                for i in range(lo, hi):
                    if apply(vals[2], elem(i)) == (m_ == "find_if"):
                        return PtrInto(arr, i)
                return PtrInto(arr, hi)
            if m_ == "find":
                for i in range(lo, hi):
                    if it.truth(self.binop("==", elem(i), vals[2], e, fr), e, fr):
                        return PtrInto(arr, i)
                return PtrInto(arr, hi)
            if m_ == "adjacent_find":
                fn = vals[2] if len(vals) > 2 else ("functor", "equal_to")
                for i in range(lo, hi - 1):
                    if apply(fn, elem(i), elem(i + 1)):
                        return PtrInto(arr, i)
                return PtrInto(arr, hi)
            if m_ in ("lower_bound", "upper_bound"):
                # first position whose element is not less than (lower) / greater than (upper) the value; the range is the caller's
                # business to keep sorted, as for the real algorithm
                for i in range(lo, hi):
                    c_ = self.binop("<" if m_ == "lower_bound" else "<=", elem(i), vals[2], e, fr)
                    if not it.truth(c_, e, fr):
                        return PtrInto(arr, i)
                return PtrInto(arr, hi)
        if k == "Call" and base in ("std::min", "std::max") and len(args) == 2:
            a, b = self.fold(it.rvalue(args[0], fr)), self.fold(it.rvalue(args[1], fr))
            if is_sym(a) or is_sym(b):
                o = dag.order_at_points(dag.lift(a), dag.lift(b))
                if o is None:
                    raise AnalysisBroken("min/max of values whose order depends on the test point at %s" % ir.locstr(e))
                return (a if o <= 0 else b) if base == "std::min" else (a if o >= 0 else b)
            return min(a, b) if base == "std::min" else max(a, b)
        if k == "Call" and base in ("floor", "ceil", "std::floor", "std::ceil", "log2", "std::log2") and len(args) == 1:
            v = self.fold(it.rvalue(args[0], fr))
            q = Fraction(v) if isinstance(v, (int, Fraction)) else (v.a if isinstance(v, Node) and v.op == "c" else None)
            if q is None:
                raise AnalysisBroken("%s of a value that is not a constant at %s" % (m, ir.locstr(e)))
            if m == "floor":
                return dag.const(math.floor(q))
            if m == "ceil":
                return dag.const(math.ceil(q))
            if q > 0 and q.denominator == 1 and (q.numerator & (q.numerator - 1)) == 0:
                return dag.const(q.numerator.bit_length() - 1)
            return dag.const(Fraction(math.log2(q)))
        if k == "Call" and base in ("std::next", "std::prev") and len(args) in (1, 2):
            cur = it.rvalue(args[0], fr)
            n = it.rvalue(args[1], fr) if len(args) == 2 else 1
            n = n if base == "std::next" else -n
            from .conc import PtrInto
            if isinstance(cur, SetIter) and isinstance(n, int):
                if not (0 <= cur.pos + n <= len(cur.s.items)):
                    from . import conc
                    self.oob.append(("std::set", cur.pos + n, len(cur.s.items), ir.locstr(e)))
                    conc.GLOBAL_OOB.append(("std::set iterator", cur.pos + n, len(cur.s.items), ir.locstr(e)))
                return SetIter(cur.s, cur.pos + n)
            if isinstance(cur, PtrInto) and isinstance(n, int):
                return PtrInto(cur.arr, cur.off + n)
        if k == "Call" and base == "std::advance" and len(args) == 2:
            c = it.eval(args[0], fr)
            n = it.rvalue(args[1], fr)
            cur = c.get() if isinstance(c, Cell) else c
            if not isinstance(cur, SetIter) or not isinstance(n, int):
                raise AnalysisBroken("std::advance on %r by %r at %s" % (cur, n, ir.locstr(e)))
            if not (0 <= cur.pos + n <= len(cur.s.items)):
                self.oob.append(("std::set", cur.pos + n, len(cur.s.items), ir.locstr(e)))
                from . import conc
                conc.GLOBAL_OOB.append(("std::set iterator", cur.pos + n, len(cur.s.items), ir.locstr(e)))
            c.set(SetIter(cur.s, cur.pos + n))
            return None
        if k == "OpCall" and callee.startswith("std::_Rb_tree_const_iterator<double>::operator"):
            op = e["op"]
            c = it.eval(args[0], fr)
            cur = c.get() if isinstance(c, Cell) else c
            if op == "*":
                if not isinstance(cur, SetIter) or cur.s is None or not (0 <= cur.pos < len(cur.s.items)):
                    self.oob.append(("std::set", getattr(cur, "pos", None), len(cur.s.items) if getattr(cur, "s", None) else 0, ir.locstr(e)))
                    from . import conc
                    conc.GLOBAL_OOB.append(("std::set iterator (dereference)", getattr(cur, "pos", None), len(cur.s.items) if getattr(cur, "s", None) else 0, ir.locstr(e)))
                    return dag.atom("past_the_end(std::set)")
                return cur.s.items[cur.pos]
            if op in ("++", "--"):
                d = 1 if op == "++" else -1
                old = SetIter(cur.s, cur.pos)
                c.set(SetIter(cur.s, cur.pos + d))
                return old if len(args) > 1 else c
            if op == "=":
                v = it.rvalue(args[1], fr)
                c.set(SetIter(v.s, v.pos))
                return c
            if op in ("==", "!="):
                v = it.rvalue(args[1], fr)
                same = cur.s is v.s and cur.pos == v.pos
                return same if op == "==" else not same
        if k == "OpCall" and e.get("op") == "=" and callee.startswith("std::set<double>::operator="):
            c = it.eval(args[0], fr)
            v = it.rvalue(args[1], fr)
            c.set(SetObj(v.items))
            return c
        if k == "Call" and e.get("this") is not None and callee.startswith("std::set<double>::"):
            th = it.eval(e["this"], fr)
            th = th.get() if isinstance(th, Cell) else th
            if isinstance(th, SetObj):
                if m == "insert" and len(args) == 1:
                    th.insert(it.rvalue(args[0], fr))
                    return None
                if m == "insert" and len(args) == 2:
                    a_, b_ = it.rvalue(args[0], fr), it.rvalue(args[1], fr)
                    for x_ in self.iter_range(a_, b_, e):              # s.insert(first, last)
                        th.insert(x_)
                    return None
                if m == "size":
                    return len(th.items)
                if m == "empty":
                    return not th.items
                if m in ("begin", "cbegin"):
                    return SetIter(th, 0)
                if m in ("end", "cend"):
                    return SetIter(th, len(th.items))
                if m == "clear":
                    th.items = []
                    return None
                if m == "erase" and len(args) == 2:
                    a, b = it.rvalue(args[0], fr), it.rvalue(args[1], fr)
                    if not (isinstance(a, SetIter) and isinstance(b, SetIter) and a.s is th and b.s is th and 0 <= a.pos <= b.pos <= len(th.items)):
                        raise AnalysisBroken("std::set::erase with an invalid range at %s" % ir.locstr(e))
                    del th.items[a.pos:b.pos]
                    return SetIter(th, a.pos)
                raise AnalysisBroken("std::set member %s not modelled at %s" % (m, ir.locstr(e)))
        return OpsDomain.call(self, e, fr)
