"""Closed-form input functions (C19): pure `return` functions of the input-function classes are evaluated from the IR
either into sympy expressions (for differentiation / simplification) or into 50-digit mpmath numbers."""
import signal

import mpmath as mp
import sympy as sp

from . import ir
from .ir import AnalysisBroken

mp.mp.dps = 50


class SymOps:
    name = "sympy"

    def num(self, txt):
        return sp.Rational(txt)

    def const(self, v):
        return sp.Integer(v)

    fn = {"sin": sp.sin, "cos": sp.cos, "tan": sp.tan, "exp": sp.exp, "log": sp.log, "sqrt": sp.sqrt, "tanh": sp.tanh, "atan": sp.atan,
          "fabs": sp.Abs, "abs": sp.Abs, "cosh": sp.cosh, "sinh": sp.sinh, "asin": sp.asin, "acos": sp.acos}

    def pow(self, a, b):
        if isinstance(b, sp.Rational) and b.q == 1:
            return a ** int(b)
        return a ** b


class MpOps:
    name = "mpmath"

    def num(self, txt):
        return mp.mpf(txt)

    def const(self, v):
        return mp.mpf(v)

    fn = {"sin": mp.sin, "cos": mp.cos, "tan": mp.tan, "exp": mp.exp, "log": mp.log, "sqrt": mp.sqrt, "tanh": mp.tanh, "atan": mp.atan,
          "fabs": abs, "abs": abs, "cosh": mp.cosh, "sinh": mp.sinh, "asin": mp.asin, "acos": mp.acos}

    def pow(self, a, b):
        return mp.power(a, b)


PROG = [None]     # the loaded program, for closed forms that call other member functions (set by the check)
_depth = [0]


def evaluate(fn, ops, params, fields, opaque=None):
    """value of the function's return expression. params: name -> value; fields: name -> value (members of *this);
    opaque: member-function name -> callable, for members that are not closed forms (tabulated profiles)"""
    env = {}
    for p in fn["params"]:
        if p["name"] not in params:
            raise AnalysisBroken("parameter %s of %s has no value" % (p["name"], fn["qn"]))
        env[p["id"]] = params[p["name"]]

    def ev(e):
        k = e["k"]
        if k == "Int":
            return ops.const(int(e["v"]))
        if k == "Float":
            return ops.num((e.get("text") or e["v"]).rstrip("fFlL"))
        if k == "Ref":
            if e["id"] in env:
                return env[e["id"]]
            if e.get("global"):
                raise AnalysisBroken("global %s in %s" % (e.get("qn"), fn["qn"]))
            raise AnalysisBroken("unbound %s in %s" % (e["name"], fn["qn"]))
        if k == "Field":
            if e["base"] is not None and e["base"].get("k") == "This":
                if e["field"] not in fields:
                    raise AnalysisBroken("member %s of %s has no value" % (e["field"], fn["qn"]))
                return fields[e["field"]]
        if k == "Un":
            v = ev(e["e"])
            if e["op"] == "-":
                return -v
            if e["op"] == "+":
                return v
        if k == "Bin":
            a, b = ev(e["a"]), ev(e["b"])
            op = e["op"]
            if op == "+":
                return a + b
            if op == "-":
                return a - b
            if op == "*":
                return a * b
            if op == "/":
                return a / b
        if k == "Cast":
            return ev(e["e"])
        if k == "Call":
            name = e.get("callee", "").split("<")[0].split("::")[-1]
            if name == "pow" and len(e["args"]) == 2:
                return ops.pow(ev(e["args"][0]), ev(e["args"][1]))
            if name in ops.fn and len(e["args"]) == 1:
                return ops.fn[name](ev(e["args"][0]))
            if opaque and name in opaque and e.get("this") is not None and e["this"].get("k") == "This":
                return opaque[name](*[ev(a) for a in e["args"]])
            if PROG[0] is not None and e.get("this") is None and _depth[0] < 4 and "::" in (e.get("callee") or ""):
                # a free helper function of the program (namespace-scope, e.g. czarny_detail::jacobianRoot): its closed form
                cands = [f for f in PROG[0].fns(e.get("callee", "")) if len(f["params"]) == len(e["args"]) and f.get("body") is not None]
                if len(cands) > 1 and fn.get("l"):
                    cands = [f for f in cands if f.get("l") and f["l"][0] == fn["l"][0]]     # internal linkage: the caller's file
                if len(cands) == 1 and not cands[0]["qn"].startswith("std::"):
                    _depth[0] += 1
                    try:
                        return evaluate(cands[0], ops, {p_["name"]: ev(a) for p_, a in zip(cands[0]["params"], e["args"])}, {}, opaque)
                    finally:
                        _depth[0] -= 1
            if PROG[0] is not None and e.get("this") is not None and e["this"].get("k") == "This" and _depth[0] < 4:
                # a closed form that delegates to another member function of the same object (u_D_Interior returning
                # X::u_D(...)): the callee's closed form with the arguments substituted
                cands = [f for f in PROG[0].fns(e.get("callee", "")) if len(f["params"]) == len(e["args"]) and f.get("body") is not None]
                if len(cands) == 1:
                    _depth[0] += 1
                    try:
                        return evaluate(cands[0], ops, {p_["name"]: ev(a) for p_, a in zip(cands[0]["params"], e["args"])}, fields, opaque)
                    finally:
                        _depth[0] -= 1
        raise AnalysisBroken("expression %s (%s) in %s is outside the closed-form fragment" % (k, ir.show(e)[:60], fn["qn"]))

    def run(stmts):
        for s in stmts:
            k = s["k"]
            if k == "Decl":
                for v in s["vars"]:
                    if v.get("init") is not None:
                        env[v["id"]] = ev(v["init"])
            elif k == "Return":
                return ev(s["e"])
            elif k == "Block":
                r = run(s["s"])
                if r is not None:
                    return r
            elif k == "Expr" and s["e"].get("k") == "Assign" and s["e"]["a"].get("k") == "Ref" and s["e"]["op"] == "=":
                env[s["e"]["a"]["id"]] = ev(s["e"]["b"])
            elif k == "Null":
                pass
            else:
                raise AnalysisBroken("statement %s in %s is outside the closed-form fragment" % (k, fn["qn"]))
        return None

    r = run(fn["body"]["s"])
    if r is None:
        raise AnalysisBroken("%s has no return value" % fn["qn"])
    return r


class Timeout(Exception):
    pass


def with_timeout(seconds, f):
    def h(*a):
        raise Timeout()
    old = signal.signal(signal.SIGALRM, h)
    signal.alarm(seconds)
    try:
        return f()
    finally:
        signal.alarm(0)
        signal.signal(signal.SIGALRM, old)


def is_zero(expr, budget=6, points=5, seed=0):
    """(verdict, method): sympy simplification within a time budget, else 50-digit evaluation at random points"""
    expr = sp.sympify(expr)
    if expr == 0:
        return True, "structural"
    try:
        s = with_timeout(budget, lambda: sp.simplify(expr))
        if s == 0:
            return True, "sympy.simplify"
    except Timeout:
        pass
    except Exception:
        pass
    syms = sorted(expr.free_symbols, key=str)
    f = sp.lambdify(syms, expr, modules="mpmath")
    import random
    rnd = random.Random(seed + 7)
    worst = mp.mpf(0)
    for _ in range(points):
        vals = [mp.mpf(rnd.randint(1, 999)) / 1000 + mp.mpf(rnd.randint(1, 5)) / 10 for _ in syms]
        v = f(*vals)
        worst = max(worst, abs(v))
    return (worst < mp.mpf(10) ** -40), "50-digit evaluation at %d points (max |value| %s)" % (points, mp.nstr(worst, 3))
