"""TAB for grid transfer: the nine transfer functions are interpreted in the symbolic-double domain on
representative fine/coarse grid pairs; each yields an exact weight table (row -> {col: rational function of the
spacing symbols}).  Tables are compared by polynomial identity testing on the expression DAGs
(lib/gmg/dag.py)."""
from . import dag, ir, symdom
from .dag import Lin
from .conc import Arr
from .interp import Cell, Interp, ThrowEx
from .symdom import SArr, SymDomain

UNITS = ["src/Interpolation/interpolation.cpp", "src/Interpolation/injection.cpp", "src/Interpolation/prolongation.cpp",
         "src/Interpolation/restriction.cpp", "src/Interpolation/extrapolated_prolongation.cpp",
         "src/Interpolation/extrapolated_restriction.cpp", "src/Interpolation/fmg_interpolation.cpp", "src/PolarGrid/polargrid.cpp",
         "src/PolarGrid/multiindex.cpp", "src/Level/level.cpp"]

TO_FINE = ["applyProlongation0", "applyProlongation", "applyExtrapolatedProlongation0", "applyExtrapolatedProlongation", "applyFMGInterpolation"]
TO_COARSE = ["applyRestriction0", "applyRestriction", "applyExtrapolatedRestriction0", "applyExtrapolatedRestriction", "applyInjection"]

_prog = None


def load():
    global _prog
    if _prog is None:
        _prog = ir.load(units=UNITS, witness=False)
    return _prog


def zero(e):
    return dag.is_zero(e)


def pretty(e, limit=250):
    return dag.show(dag.lift(e), limit)


class Pair:
    """one fine/coarse grid pair with all transfer tables"""

    def __init__(self, prog, nr, nt, nsc_f, nsc_c, dirbc):
        self.prog = prog
        self.shape = (nr, nt, nsc_f, nsc_c, dirbc)
        self.fine = symdom.sym_grid(nr, nt, nsc_f)
        self.coarse = symdom.coarse_of(self.fine, nsc_c)
        self.lf = symdom.make_level(0, self.fine)
        self.lc = symdom.make_level(1, self.coarse)
        self.interp_obj = symdom.make_interpolation(dirbc)
        self.nf = nr * nt
        self.nc = ((nr + 1) // 2) * (nt // 2)
        self.xs_c = {j: Lin.var(j) for j in range(self.nc)}
        self.xs_f = {j: Lin.var(j) for j in range(self.nf)}
        self.tables = {}
        self.oob = {}

    def table(self, name):
        if name in self.tables:
            return self.tables[name]
        fn = self.prog.fn("Interpolation::" + name)
        dom = SymDomain(self.prog)
        it = Interp(self.prog, dom)
        if name in TO_FINE:
            x = SArr("x", self.nc, gen=lambda j: self.xs_c[j])
            res = SArr("result", self.nf)
            args = [Cell(self.lc), Cell(self.lf), Cell(res), Cell(x)]
            xs = self.xs_c
            nrows = self.nf
        else:
            x = SArr("x", self.nf, gen=lambda j: self.xs_f[j])
            res = SArr("result", self.nc)
            args = [Cell(self.lf), Cell(self.lc), Cell(res), Cell(x)]
            xs = self.xs_f
            nrows = self.nc
        it.call_function(fn, self.interp_obj, args)
        if dom.oob:
            self.oob[name] = dom.oob[:3]
        rows = symdom.linear_rows(res)
        t = {}
        for i in range(nrows):
            t[i] = rows.get(i)  # None: never written
        # every element written exactly once?
        self.tables[name] = t
        self.writes = getattr(self, "writes", {})
        self.writes[name] = list(res.writes)
        return t

    # ---- geometry helpers
    def fine_rt(self, idx):
        nr, nt, nsc, _, _ = self.shape
        if idx < nsc * nt:
            return idx // nt, idx % nt
        k = idx - nsc * nt
        lsr = nr - nsc
        return nsc + k % lsr, k // lsr

    def coarse_rt(self, idx):
        nr, nt, _, nscc, _ = self.shape
        cnr, cnt = (nr + 1) // 2, nt // 2
        if idx < nscc * cnt:
            return idx // cnt, idx % cnt
        k = idx - nscc * cnt
        lsr = cnr - nscc
        return nscc + k % lsr, k // lsr

    def rpos(self, i):
        fh = self.fine.f["radial_spacings_"].get()
        return dag.total(fh.gen(m) for m in range(i))

    def tpos(self, j):
        fk = self.fine.f["angular_spacings_"].get()
        return dag.total(fk.gen(m) for m in range(j))


def compare_tables(a, b):
    """list of (row, col, a, b) where the two tables differ"""
    out = []
    for i in a:
        ra, rb = a[i], b.get(i)
        if ra is None or rb is None:
            if ra is not rb:
                out.append((i, None, ra, rb))
            continue
        for c in set(ra) | set(rb):
            if not dag.equal(ra.get(c, dag.ZERO), rb.get(c, dag.ZERO)):
                out.append((i, c, pretty(ra.get(c, dag.ZERO)), pretty(rb.get(c, dag.ZERO))))
    return out


def nonneg_form(e):
    """the weight is built from positive atoms and non-negative constants with + * / only"""
    return dag.is_nonneg_form(dag.lift(e))


def shapes(tier):
    if tier == "quick":
        # ntheta = 12: neither the fine nor the coarse angular count is a power of two (the index wrap takes its general
        # branch on both grids; seed C08-2 inlined a power-of-two mask in the optimised prolongation)
        return [(5, 8, 2, 1, False), (7, 8, 3, 2, True), (9, 4, 4, 2, False), (5, 8, 0, 0, True), (7, 4, 7, 4, False), (11, 8, 6, 4, True), (13, 4, 8, 3, False),
                (7, 12, 3, 2, False), (5, 12, 2, 1, True), (7, 20, 7, 4, False),
                # the interior fast paths (0 < i_r_coarse < nsc_coarse - 1 on circles, nsc_coarse < i_r_coarse < nr_coarse - 1 on
                # radial lines) on a grid whose angular spacings do not repeat after +-2 steps (ntheta = 12: period 6; with 8
                # divisions the antipodal pairing makes spacing(i+2) == spacing(i-2) and hides a wrong sign; seed C08-5)
                (11, 12, 4, 2, False), (11, 12, 8, 4, True)]
    out = []
    for nr in (5, 7, 9, 11):
        for nt in (4, 8, 12):
            for nscf, nscc in ((2, 1), (3, 2), (0, 0), (nr, (nr + 1) // 2), (4, 1)):
                if nscf <= nr and nscc <= (nr + 1) // 2:
                    for d in (False, True):
                        out.append((nr, nt, nscf, nscc, d))
    return out


def defect_ratio(m, right, left):
    """the first moment m as a multiple of (right spacing - left spacing): '1', '1/2', ... if it is one at every test point,
    'not a multiple of the spacing difference' otherwise.  This is the *signature* of a moment defect: weights swapped between
    the two neighbours give exactly 1, index-space weights 1/2 give exactly 1/2; any other wrong weight gives something else."""
    d = dag.sub(dag.lift(right), dag.lift(left))
    try:
        c = dag.const_value(dag.div(dag.lift(m), d))
    except ZeroDivisionError:
        c = None
    return str(c) if c is not None else "not a constant multiple of the spacing difference"


def midpoint_subs(pair):
    """hypothesis of generated grids: every odd fine node is the midpoint of its coarse neighbours"""
    nr, nt = pair.shape[0], pair.shape[1]
    fh = pair.fine.f["radial_spacings_"].get()
    fk = pair.fine.f["angular_spacings_"].get()
    sub = {}
    for i in range(1, nr - 1, 2):
        sub[fh.gen(i).a] = fh.gen(i - 1)
    for j in range(1, nt, 2):
        sub[fk.gen(j).a] = fk.gen(j - 1)
    return sub


def check_c08(ck, tier):
    prog = load()
    ck.units += prog.units
    for n in TO_FINE + TO_COARSE:
        ck.analysed(prog.fn("Interpolation::" + n))
    ck.rule("R-C08-1", "restriction table == transpose of prolongation table (standard and extrapolated pair)", floor=8)
    ck.rule("R-C08-2", "optimised implementation table == reference implementation table (4 operators); every output element written exactly once", floor=16)
    ck.rule("R-C08-3", "prolongation copies coarse values; injection reads (2I,2J): injection o prolongation = id", floor=8)
    ck.rule("R-C08-4", "prolongation weights are non-negative forms summing to 1", floor=8)
    ck.rule("R-C08-5a", "first moments vanish for arbitrary spacings (linear reproduction)", floor=8)
    ck.rule("R-C08-5b", "first moments vanish when fine nodes are midpoints (generated grids)", floor=8)
    for shp in shapes(tier):
        pr = Pair(prog, *shp)
        sk = "nr=%d ntheta=%d nsc=%d/%d DirBC=%s" % shp
        T = {n: pr.table(n) for n in TO_FINE[:4] + TO_COARSE}
        for n, o in pr.oob.items():
            ck.fail("R-C08-2", "%s:out-of-range" % n, o[0][3], "%s: %s accesses %s[%s] (length %s)" % (sk, n, o[0][0], o[0][1], o[0][2]))
        # ---- R-C08-2
        for ref, opt in (("applyProlongation0", "applyProlongation"), ("applyRestriction0", "applyRestriction"),
                         ("applyExtrapolatedProlongation0", "applyExtrapolatedProlongation"), ("applyExtrapolatedRestriction0", "applyExtrapolatedRestriction")):
            key = "%s %s" % (opt, sk)
            ck.instance("R-C08-2", key)
            d = compare_tables(T[ref], T[opt])
            w = pr.writes[opt]
            dup = len(w) != len(set(w))
            missing = [i for i, r in T[opt].items() if r is None]
            if d or dup or missing:
                msg = []
                if d:
                    i, c, a, b = d[0]
                    msg.append("row %s col %s: reference weight %s, optimised weight %s" % (i, c, a, b))
                if dup:
                    msg.append("an output element is written twice")
                if missing:
                    msg.append("output elements never written: %s" % missing[:5])
                ck.violation("R-C08-2", "%s:differs-from-reference" % opt, ir.locstr(prog.fn("Interpolation::" + opt)), "%s: %s" % (sk, "; ".join(msg)))
            else:
                ck.ok("R-C08-2", key)
        # ---- R-C08-1
        for P, R in (("applyProlongation", "applyRestriction"), ("applyExtrapolatedProlongation", "applyExtrapolatedRestriction")):
            key = "%s %s" % (R, sk)
            ck.instance("R-C08-1", key)
            bad = None
            tp, tr = T[P], T[R]
            for I, row in tr.items():
                for f, w in (row or {}).items():
                    pw = (tp.get(f) or {}).get(I, dag.ZERO)
                    if not dag.equal(w, pw):
                        bad = (I, f, pretty(w), pretty(pw))
                        break
                if bad:
                    break
            if not bad:
                for f, row in tp.items():
                    for I, w in (row or {}).items():
                        rw = (tr.get(I) or {}).get(f, dag.ZERO)
                        if not dag.equal(w, rw):
                            bad = (I, f, pretty(rw), pretty(w))
                            break
                    if bad:
                        break
            if bad:
                I, f, w, pw = bad
                ck.violation("R-C08-1", "%s:not-transpose" % R, ir.locstr(prog.fn("Interpolation::" + R)),
                             "%s: coarse node %s gathers fine node %s (r,theta=%s) with weight %s but prolongation gives that fine node weight %s" % (sk, I, f, pr.fine_rt(f), w, pw))
            else:
                ck.ok("R-C08-1", key, sample={"shape": sk, "pair": P + "/" + R, "entries compared": sum(len(r or {}) for r in tr.values())} if shp == shapes(tier)[0] else None)
        # ---- R-C08-3
        nr, nt = shp[0], shp[1]
        for P in ("applyProlongation", "applyExtrapolatedProlongation"):
            key = "%s copy %s" % (P, sk)
            ck.instance("R-C08-3", key)
            bad = []
            inj = T["applyInjection"]
            for I in range(pr.nc):
                ci, cj = pr.coarse_rt(I)
                # fine node (2ci, 2cj)
                fidx = None
                for f in range(pr.nf):
                    if pr.fine_rt(f) == (2 * ci, 2 * cj):
                        fidx = f
                        break
                rowP = T[P].get(fidx)
                if rowP is None or set(rowP) != {I} or not dag.equal(rowP[I], dag.ONE):
                    bad.append("prolongation at fine node (%d,%d) is %s, expected a copy of coarse node %d" % (2 * ci, 2 * cj, rowP, I))
                rowI = inj.get(I)
                if rowI is None or set(rowI) != {fidx} or not dag.equal(rowI[fidx], dag.ONE):
                    bad.append("injection of coarse node %d reads %s, expected fine node (%d,%d)" % (I, rowI, 2 * ci, 2 * cj))
                if bad:
                    break
            if bad:
                ck.violation("R-C08-3", "%s:copy" % P, ir.locstr(prog.fn("Interpolation::" + P)), "%s: %s" % (sk, bad[0]))
            else:
                ck.ok("R-C08-3", key)
        # ---- R-C08-4 / 5
        msub = midpoint_subs(pr)
        cnt = nt // 2
        for P, tag in (("applyProlongation", "prolongation"), ("applyExtrapolatedProlongation", "extrapolated_prolongation")):
            key = "%s %s" % (P, sk)
            ck.instance("R-C08-4", key)
            neg = unit = None
            mom_r = mom_t = None
            mom_r_mid = mom_t_mid = None
            sig_r, sig_t = set(), set()
            fh_, fk_, nr_ = pr.fine.f["radial_spacings_"].get(), pr.fine.f["angular_spacings_"].get(), pr.shape[0]
            for f, row in T[P].items():
                if row is None:
                    continue
                fi, fj = pr.fine_rt(f)
                s = dag.total(row.values())
                if not dag.equal(s, dag.ONE) and unit is None:
                    unit = (f, pretty(s))
                for I, w in row.items():
                    if not nonneg_form(w) and neg is None:
                        neg = (f, I, pretty(w))
                mr = dag.ZERO
                mt = dag.ZERO
                for I, w in row.items():
                    ci, cj = pr.coarse_rt(I)
                    cju = cj if not (cj == 0 and fj // 2 + 1 == cnt and fj % 2 == 1) else cnt
                    mr = mr + w * (pr.rpos(2 * ci) - pr.rpos(fi))
                    mt = mt + w * (pr.tpos(2 * cju) - pr.tpos(fj))
                if not zero(mr):
                    sig_r.add(defect_ratio(mr, fh_.gen(fi), fh_.gen(fi - 1)) if 0 < fi < nr_ - 1 else "moment at a boundary node")
                    if mom_r is None:
                        mom_r = (fi, fj, pretty(mr))
                if not zero(mt):
                    sig_t.add(defect_ratio(mt, fk_.gen(fj % nt), fk_.gen((fj - 1) % nt)))
                    if mom_t is None:
                        mom_t = (fi, fj, pretty(mt))
                if mom_r_mid is None:
                    mm = dag.subst(mr, msub)
                    if not zero(mm):
                        mom_r_mid = (fi, fj, pretty(mm))
                if mom_t_mid is None:
                    mm = dag.subst(mt, msub)
                    if not zero(mm):
                        mom_t_mid = (fi, fj, pretty(mm))
            site = ir.locstr(prog.fn("Interpolation::" + P))
            if neg or unit:
                ck.violation("R-C08-4", "%s:%s" % (tag, "negative-weight" if neg else "sum-not-one"), site,
                             "%s: %s" % (sk, ("fine node %s takes coarse node %s with weight %s" % neg) if neg else ("weights of fine node %s sum to %s" % unit)))
            else:
                ck.ok("R-C08-4", key)
            for rid, mr_, mt_ in (("R-C08-5a", mom_r, mom_t), ("R-C08-5b", mom_r_mid, mom_t_mid)):
                for direction, m in (("radial", mr_), ("angular", mt_)):
                    ck.instance(rid, "%s %s %s" % (P, direction, sk))
                    if m:
                        sg = sorted(sig_r if direction == "radial" else sig_t)
                        ck.violation(rid, "%s:%s" % (tag, direction), site,
                                     "%s: at fine node (%d,%d) the %s first moment sum_j w_j (x_j - x) is %s, not 0: a function linear in %s is not reproduced%s" % (
                                         sk, m[0], m[1], direction, m[2], "r" if direction == "radial" else "theta",
                                         "" if rid == "R-C08-5a" else " even though the fine node is the midpoint of its coarse neighbours"),
                                     signature=("first moment = %s x (spacing after - spacing before the fine node), at every node where it is not 0" % ", ".join(sg)) if rid == "R-C08-5a" else None)
                    else:
                        ck.ok(rid, "%s %s" % (P, direction))


# ------------------------------------------------------------------------------------------- FMG interpolation (C09-1)
def check_fmg(ck, tier):
    prog = load()
    ck.units += [u for u in prog.units if u not in ck.units]
    fn = prog.fn("Interpolation::applyFMGInterpolation")
    ck.analysed(fn)
    ck.rule("R-C09-1a", "FMG interpolation copies the coarse value at coarse nodes; every row sums to 1; every output written exactly once", floor=4)
    ck.rule("R-C09-1b", "angular factor exact to degree 3 at every node; radial factor exact to degree 3 for 1 < i_r < nr-2 (all mixed monomials r^a theta^b, a,b<=3)", floor=2)
    ck.rule("R-C09-1c", "radial fallback on the lines i_r in {1, nr-2}: linear rule, first moment (arbitrary spacings / midpoint grids)", floor=4)
    shp = [(9, 8, 3, 2, False), (7, 8, 2, 1, True), (11, 12, 4, 2, False), (9, 8, 0, 0, True)] if tier == "quick" else [(9, 8, 3, 2, False), (7, 8, 2, 1, True), (11, 12, 4, 2, False), (9, 8, 0, 0, True), (9, 8, 9, 5, False)]
    site = ir.locstr(fn)
    for s in shp:
        pr = Pair(prog, *s)
        sk = "nr=%d ntheta=%d nsc=%d/%d DirBC=%s" % s
        nr, nt = s[0], s[1]
        T = pr.table("applyFMGInterpolation")
        fk = pr.fine.f["angular_spacings_"].get()
        msub = midpoint_subs(pr)

        def dtheta(j, d):
            if d >= 0:
                return dag.total(fk.gen((j + m) % nt) for m in range(d))
            return dag.sub(dag.ZERO, dag.total(fk.gen((j - m) % nt) for m in range(1, -d + 1)))

        ck.instance("R-C09-1a", sk)
        probs = []
        if "applyFMGInterpolation" in pr.oob:
            probs.append("out-of-range access %r" % (pr.oob["applyFMGInterpolation"][0],))
        w = pr.writes["applyFMGInterpolation"]
        if len(w) != len(set(w)):
            probs.append("an output element is written twice")
        for f, row in T.items():
            fi, fj = pr.fine_rt(f)
            if row is None:
                probs.append("fine node (%d,%d) never written" % (fi, fj))
                break
            if not dag.equal(dag.total(row.values()), dag.ONE):
                probs.append("weights at fine node (%d,%d) sum to %s" % (fi, fj, pretty(dag.total(row.values()))))
                break
            if fi % 2 == 0 and fj % 2 == 0:
                I = [c for c in range(pr.nc) if pr.coarse_rt(c) == (fi // 2, fj // 2)][0]
                if set(row) != {I} or not dag.equal(row[I], dag.ONE):
                    probs.append("coarse node (%d,%d) is not copied: row %s" % (fi, fj, row))
                    break
        if probs:
            ck.violation("R-C09-1a", "fmg:%s" % probs[0].split(" ")[0], site, "%s: %s" % (sk, probs[0]))
        else:
            ck.ok("R-C09-1a", sk)
        # moments
        ck.instance("R-C09-1b", sk)
        ck.instance("R-C09-1c", sk + " arbitrary")
        ck.instance("R-C09-1c", sk + " midpoint")
        bad_b = None
        bad_c = None
        bad_c_mid = None
        low_order_classes = set()
        sig_c = set()
        for f, row in T.items():
            if row is None:
                continue
            fi, fj = pr.fine_rt(f)
            fallback = fi in (1, nr - 2)
            amax = 1 if fallback else 3
            if fi in (0, nr - 1) or fi % 2 == 0:
                amax = 3  # no radial interpolation: all radial moments vanish trivially
            dr = {}
            dt = {}
            for I in row:
                ci, cj = pr.coarse_rt(I)
                dr[I] = pr.rpos(2 * ci) - pr.rpos(fi)
                d = 2 * cj - fj
                if d > nt // 2:
                    d -= nt
                if d < -(nt // 2):
                    d += nt
                dt[I] = dtheta(fj, d)
            for a in range(0, 4):
                for b in range(0, 4):
                    if a == 0 and b == 0:
                        continue
                    m = dag.total(wgt * dag.powi(dr[I], a) * dag.powi(dt[I], b) for I, wgt in row.items())
                    if fallback and fi % 2 == 1 and a >= 1:
                        if a == 1 and b == 0:
                            if not zero(m):
                                sig_c.add(defect_ratio(m, pr.fine.f["radial_spacings_"].get().gen(fi), pr.fine.f["radial_spacings_"].get().gen(fi - 1)))
                                if bad_c is None:
                                    bad_c = (fi, fj, pretty(m))
                            if bad_c_mid is None:
                                mm = dag.subst(m, msub)
                                if not zero(mm):
                                    bad_c_mid = (fi, fj, pretty(mm))
                        elif a >= 2 and b == 0 and not zero(m):
                            low_order_classes.add(fi)
                        continue
                    if not zero(m) and bad_b is None:
                        bad_b = (fi, fj, a, b, pretty(m))
        if bad_b:
            ck.violation("R-C09-1b", "fmg:moment", site, "%s: at fine node (%d,%d) the moment sum_j w_j dr^%d dtheta^%d is %s, not 0: the cubic is not reproduced" % ((sk,) + bad_b))
        else:
            ck.ok("R-C09-1b", sk, sample={"shape": sk, "moments checked per node": 15})
        if bad_c:
            ck.violation("R-C09-1c", "fmg:fallback:radial", site, "%s: on the fallback line at fine node (%d,%d) the radial first moment is %s (same swapped weights as the standard prolongation)" % ((sk,) + bad_c),
                         signature="first moment = %s x (spacing after - spacing before the fine node), at every node where it is not 0" % ", ".join(sorted(sig_c)))
        else:
            ck.ok("R-C09-1c", sk)
        if bad_c_mid:
            ck.violation("R-C09-1c", "fmg:fallback:radial:midpoint", site, "%s: on the fallback line at fine node (%d,%d) the radial first moment is %s even on a midpoint grid" % ((sk,) + bad_c_mid))
        else:
            ck.ok("R-C09-1c", sk + " midpoint")
        extra = low_order_classes - {1, nr - 2}
        if extra:
            ck.fail("R-C09-1b", "fmg:low-order-lines", site, "%s: radial lines %s are interpolated below cubic order (only i_r=1 and i_r=nr-2 may be)" % (sk, sorted(extra)))
