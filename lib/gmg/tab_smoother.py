"""TAB/EFF for the smoothers: the A_sc matrices built by build*Matrices and the A_sc_ortho phases of one sweep are
extracted by interpreting the source on representative grids; line solves are summarised (DESIGN 3.3) and their
right-hand sides snapshotted, which yields per row the exact equation the sweep solves."""
from . import dag, ir, opsdom, symdom, tab_ops
from .dag import Lin
from .interp import Cell, Interp
from .symdom import SArr

SM_UNITS = opsdom.OPS_UNITS + [
    "src/Smoother/smoother.cpp", "src/Smoother/SmootherGive/smootherGive.cpp", "src/Smoother/SmootherGive/buildMatrix.cpp",
    "src/Smoother/SmootherGive/smootherSolver.cpp", "src/Smoother/SmootherGive/matrixStencil.cpp",
    "src/Smoother/SmootherTake/smootherTake.cpp", "src/Smoother/SmootherTake/buildMatrix.cpp",
    "src/Smoother/SmootherTake/smootherSolver.cpp", "src/Smoother/SmootherTake/matrixStencil.cpp",
    "src/ExtrapolatedSmoother/extrapolatedSmoother.cpp",
    "src/ExtrapolatedSmoother/ExtrapolatedSmootherGive/extrapolatedSmootherGive.cpp", "src/ExtrapolatedSmoother/ExtrapolatedSmootherGive/buildAscMatrices.cpp",
    "src/ExtrapolatedSmoother/ExtrapolatedSmootherGive/smootherSolver.cpp", "src/ExtrapolatedSmoother/ExtrapolatedSmootherGive/smootherStencil.cpp",
    "src/ExtrapolatedSmoother/ExtrapolatedSmootherTake/extrapolatedSmootherTake.cpp", "src/ExtrapolatedSmoother/ExtrapolatedSmootherTake/buildAscMatrices.cpp",
    "src/ExtrapolatedSmoother/ExtrapolatedSmootherTake/smootherSolver.cpp", "src/ExtrapolatedSmoother/ExtrapolatedSmootherTake/smootherStencil.cpp",
]

_prog = None


def load():
    global _prog
    if _prog is None:
        import os
        units = [u for u in SM_UNITS if os.path.exists(os.path.join(ir.REPO, u))]
        missing = [u for u in SM_UNITS if u not in units and "Stencil.cpp" not in u and "matrixStencil" not in u]
        if missing:
            raise ir.AnalysisBroken("anchor vanished: units %s" % missing)
        _prog = ir.load(units=units, witness=True)
        tab_ops._prog = _prog
    return _prog


def tridiag_entries(solver):
    """{(i,j): Node} of a SymmetricTridiagonalSolver object before factorisation"""
    n = solver.f["matrix_dimension_"].get()
    md = solver.f["main_diagonal_values_"].get()
    sd = solver.f["sub_diagonal_values_"].get()
    out = {}
    for i in range(n):
        out[(i, i)] = dag.lift(md.sym.get(i, dag.ZERO))
    for i in range(n - 1):
        v = dag.lift(sd.sym.get(i, dag.ZERO))
        out[(i, i + 1)] = v
        out[(i + 1, i)] = v
    if solver.f["is_cyclic_"].get() and n > 2:
        c = solver.f["cyclic_corner_element_"].get()
        c = dag.lift(c) if not isinstance(c, Lin) else c
        out[(0, n - 1)] = dag.add(out.get((0, n - 1), dag.ZERO), c)
        out[(n - 1, 0)] = dag.add(out.get((n - 1, 0), dag.ZERO), c)
    return n, out


def diag_entries(solver):
    n = solver.f["matrix_dimension_"].get()
    d = solver.f["diagonal_values_"].get()
    return n, {(i, i): dag.lift(d.sym.get(i, dag.ZERO)) for i in range(n)}


class Sweep:
    """one smoother class on one Setting: builds the object, extracts A_sc, interprets one sweep"""

    def __init__(self, S, cls, base, sweep_fn, threads=2, extrapolated=False, flags=(True, True)):
        prog = S.prog
        self.S = S
        self.cls = cls
        nr, nt, nsc = S.shape
        S.dom.lu_dim = nt
        S.dom.threads = threads
        n_reg0 = len(S.dom.regions)
        n_oob0 = len(S.dom.oob)
        # the full constructor: base-class initialisers, buildAscMatrices(), and the (summarised) factorisation of the inner circle
        self.obj = opsdom.operator(prog, S.dom, cls, S.grid, S.cache(*flags), S.geom, S.coef, S.dirbc, threads)
        self.build_regions = S.dom.regions[n_reg0:]
        self.extrapolated = extrapolated
        self.Asc, self.asc_problems, self.line_kind = self.read_asc()
        N = S.N
        self.x = SArr("x", N, gen=lambda j: Lin.var(("x", j)))
        self.rhs = SArr("rhs", N, gen=lambda j: Lin.var(("f", j)))
        self.temp = SArr("temp", N)
        n_calls0 = len(S.dom.solver_calls)
        n_reg1 = len(S.dom.regions)
        S.it.call_function(prog.fn(cls + "::" + sweep_fn), self.obj, [Cell(self.x), Cell(self.rhs), Cell(self.temp)])
        self.calls = S.dom.solver_calls[n_calls0:]
        self.sweep_regions = S.dom.regions[n_reg1:]
        self.oob = S.dom.oob[n_oob0:]
        # per node: snapshot row and solve sequence number
        self.row = {}
        self.seq = {}
        self.solved_twice = []
        for c in self.calls:
            if c["arr"] is not self.temp:
                continue
            for i in range(c["n"]):
                p = c["off"] + i
                if p in self.row:
                    self.solved_twice.append(p)
                self.row[p] = c["rows"][i]
                self.seq[p] = c["seq"]

    def read_asc(self):
        """A_sc as {p: {q: Node}} over global node indices, plus structural problems"""
        S = self.S
        nr, nt, nsc = S.shape
        o = self.obj
        A = {}
        probs = []
        kinds = {}

        def put(p, q, v):
            A.setdefault(p, {})
            A[p][q] = dag.add(A[p].get(q, dag.ZERO), v)

        # inner boundary circle (i_r = 0): CSR
        if nsc >= 1:
            m = o.f["inner_boundary_circle_matrix_"].get()
            T, p_ = opsdom.csr_table(m)
            probs += ["inner circle matrix: " + x for x in p_]
            lu = o.f["inner_boundary_lu_solver_"].get() if "inner_boundary_lu_solver_" in o.f else None
            ft = lu.f["__factorised_table"].get() if lu is not None and hasattr(lu, "f") and "__factorised_table" in lu.f else None
            if ft is None:
                probs.append("the constructor does not factorise the inner circle matrix (inner_boundary_lu_solver_ is not built from a matrix)")
            else:
                dd = [(r, c) for r in set(T) | set(ft[1]) for c in set(T.get(r, {})) | set(ft[1].get(r, {}))
                      if not dag.equal(dag.lift(T.get(r, {}).get(c, dag.ZERO)), dag.lift(ft[1].get(r, {}).get(c, dag.ZERO)))]
                if dd:
                    probs.append("the inner circle LU was factorised (at %s) from a matrix that differs from inner_boundary_circle_matrix_ as assembled, first at entry %s: factorisation before the assembly finished, or of another matrix" % (ft[3], dd[0]))
            for it_, row in T.items():
                for jt, v in row.items():
                    put(S.index(0, it_), S.index(0, jt), dag.lift(v))
            kinds[("c", 0)] = "csr"
        circ = o.f["circle_tridiagonal_solver_"].get().items
        cdiag = o.f["circle_diagonal_solver_"].get().items if "circle_diagonal_solver_" in o.f else []
        rad = o.f["radial_tridiagonal_solver_"].get().items
        rdiag = o.f["radial_diagonal_solver_"].get().items if "radial_diagonal_solver_" in o.f else []
        for i_r in range(1, nsc):
            if self.extrapolated and i_r % 2 == 0:
                n, E = diag_entries(cdiag[i_r // 2])
                kinds[("c", i_r)] = "diag"
            elif self.extrapolated:
                n, E = tridiag_entries(circ[i_r // 2])
                kinds[("c", i_r)] = "tri"
            else:
                n, E = tridiag_entries(circ[i_r])
                kinds[("c", i_r)] = "tri"
            if n != nt:
                probs.append("circle %d solver has dimension %s, expected %d" % (i_r, n, nt))
                continue
            for (a, b), v in E.items():
                put(S.index(i_r, a), S.index(i_r, b), v)
        for i_t in range(nt):
            if self.extrapolated and i_t % 2 == 0:
                n, E = diag_entries(rdiag[i_t // 2])
                kinds[("r", i_t)] = "diag"
            elif self.extrapolated:
                n, E = tridiag_entries(rad[i_t // 2])
                kinds[("r", i_t)] = "tri"
            else:
                n, E = tridiag_entries(rad[i_t])
                kinds[("r", i_t)] = "tri"
            if n != nr - nsc:
                probs.append("radial line %d solver has dimension %s, expected %d" % (i_t, n, nr - nsc))
                continue
            for (a, b), v in E.items():
                put(S.index(nsc + a, i_t), S.index(nsc + b, i_t), v)
        A = {p: {q: v for q, v in row.items() if not dag.is_zero(v)} for p, row in A.items()}
        return A, probs, kinds

    def line_of(self, p):
        r, t = self.S.rt(p)
        return ("c", r) if r < self.S.shape[2] else ("r", t)

    def ortho(self, p):
        """(cols, fcoef, const): cols = {(version, q): Node} with the matrix sign (A_ortho entries), fcoef = {q: coef of rhs[q]}"""
        v = self.row.get(p)
        cols, fco = {}, {}
        if not isinstance(v, Lin):
            return cols, fco, dag.lift(v) if v is not None else None
        for k, c in v.t.items():
            if dag.is_zero(c):
                continue
            if k[0] == "f":
                fco[k[1]] = c
            elif k[0] == "x":
                cols[("x", k[1])] = dag.sub(dag.ZERO, c)
            elif k[0] == "y":
                cols[("y", k[2])] = dag.sub(dag.ZERO, c)
        return cols, fco, v.c
