"""EFF: interpret every reachable OpenMP region of the library on one grid shape and collect the effect logs."""
from . import dag, ir, opsdom, symdom, tab_ops, tab_smoother, tab_transfer
from .dag import Lin
from .interp import Cell, Interp, Obj
from .symdom import SArr


_prog = None


def load():
    global _prog
    if _prog is None:
        import os
        units = []
        for u in tab_smoother.SM_UNITS + tab_transfer.UNITS:
            if u not in units and os.path.exists(os.path.join(ir.REPO, u)):
                units.append(u)
        _prog = ir.load(units=units, witness=True)
        tab_ops._prog = _prog
        tab_smoother._prog = _prog
    return _prog


def run_shape(prog, nr, nt, nsc, dirbc, threads=2, give_flags=((False, False),)):
    """returns (list of (label, Region), notes). Smoothing shapes only where admissible.
    give_flags: cache-flag combinations (besides both-on) under which the give operators are interpreted as well: their
    uncached branches call into the shared LevelCache / input objects from inside the parallel regions."""
    out = []
    notes = []
    S = tab_ops.Setting(prog, nr, nt, nsc, dirbc, threads=threads)
    dom = S.dom

    def mark(label, n0):
        for r in dom.regions[n0:]:
            out.append((label, r))

    n0 = len(dom.regions)
    for cc in (True, False):
        for cg in (True, False):
            S.cache(cc, cg)
    mark("LevelCache(finest)", n0)
    # residuals
    def flagsets(cls):
        return [(True, True)] + (list(give_flags) if "Give" in cls else [])

    def tag(cls, fl):
        return cls if fl == (True, True) else "%s caches=(%s,%s)" % (cls, fl[0], fl[1])

    for cls in ("ResidualGive", "ResidualTake"):
        for fl in flagsets(cls):
            n0 = len(dom.regions)
            S.residual(cls, S.cache(*fl))
            mark(tag(cls, fl), n0)
    # direct solver assembly
    for cls in ("DirectSolverGiveCustomLU", "DirectSolverTakeCustomLU"):
        for fl in flagsets(cls):
            n0 = len(dom.regions)
            obj = opsdom.build_without_body(prog, dom, cls, "DirectSolver", [Cell(S.grid), Cell(S.cache(*fl)), Cell(S.geom), Cell(S.coef), dirbc, threads])
            S.it.call_function(prog.fn(cls + "::buildSolverMatrix"), obj, [])
            mark(tag(cls, fl) + "::buildSolverMatrix", n0)
    smoothing_ok = nt % 4 == 0 and nsc >= 2 and nr - nsc >= 3
    if smoothing_ok:
        for cls in ("SmootherGive", "SmootherTake"):
            for fl in flagsets(cls):
                n0 = len(dom.regions)
                tab_smoother.Sweep(S, cls, "Smoother", "smoothing", threads=threads, flags=fl)
                mark(tag(cls, fl), n0)
    if smoothing_ok and nsc >= 3:
        for cls in ("ExtrapolatedSmootherGive", "ExtrapolatedSmootherTake"):
            for fl in flagsets(cls):
                n0 = len(dom.regions)
                tab_smoother.Sweep(S, cls, "ExtrapolatedSmoother", "extrapolatedSmoothing", threads=threads, extrapolated=True, flags=fl)
                mark(tag(cls, fl), n0)
    # coarse cache + transfers
    if (nr - 1) % 2 == 0 and nt % 2 == 0:
        cg = symdom.coarse_of(S.grid, min(nsc // 2 + 1, (nr + 1) // 2))
        for fl in [(True, True)] + list(give_flags):
            n0 = len(dom.regions)
            lvl = symdom.make_level(0, S.grid, S.cache(*fl))
            opsdom.coarse_cache(prog, dom, lvl, cg)
            mark("LevelCache(coarse)" if fl == (True, True) else "LevelCache(coarse) caches=(%s,%s)" % fl, n0)
        lf = symdom.make_level(0, S.grid)
        lc = symdom.make_level(1, cg)
        io = symdom.make_interpolation(dirbc)
        nf, nc = nr * nt, cg.shape[0] * cg.shape[1]
        for name in tab_transfer.TO_FINE + tab_transfer.TO_COARSE:
            n0 = len(dom.regions)
            if name in tab_transfer.TO_FINE:
                x = SArr("x", nc, gen=lambda j: Lin.var(j))
                res = SArr("result", nf)
                args = [Cell(lc), Cell(lf), Cell(res), Cell(x)]
            else:
                x = SArr("x", nf, gen=lambda j: Lin.var(j))
                res = SArr("result", nc)
                args = [Cell(lf), Cell(lc), Cell(res), Cell(x)]
            S.it.call_function(prog.fn("Interpolation::" + name), io, args)
            mark("Interpolation::" + name, n0)
    if dom.oob:
        notes.append(("oob", dom.oob[:3]))
    return out, notes, S


def run_kernels(prog, n=12, threads=2):
    """vector kernels (templates instantiated for double in the driver units) and the Vector copy"""
    dom = opsdom.OpsDomain(prog, threads=threads)
    dom.opaque_minmax = True
    it = Interp(prog, dom)
    out = []
    names = ["assign<double>", "add<double>", "subtract<double>", "multiply<double>", "linear_combination<double>", "dot_product<double>",
             "l1_norm<double>", "l2_norm_squared<double>", "infinity_norm<double>"]
    found = []
    for nm in names:
        for f in prog.fns(nm):
            a = SArr("a", n, gen=lambda j: dag.atom("a_%d" % j))
            b = SArr("b", n, gen=lambda j: dag.atom("b_%d" % j))
            args = []
            ok = True
            for p in f["params"]:
                t = p["t"]
                if "Vector<double>" in t:
                    args.append(Cell(a if not any(isinstance(x, Cell) for x in args) else b))
                elif "int" in t:
                    args.append(5)
                else:
                    args.append(dag.atom("s"))
            n0 = len(dom.regions)
            try:
                it.call_function(f, None, args)
            except ir.AnalysisBroken as e:
                # reductions multiply input-dependent values (dot product): outside the linear-form domain; effects still logged
                pass
            for r in dom.regions[n0:]:
                out.append((nm, r))
            found.append(nm)
    return out, found


def run_driver_loops(prog, threads=2):
    """parallel loops that live in GMGPolar member functions and in Vector's special members"""
    out = []
    for (nr, nt, nsc, dirbc) in ((7, 8, 3, False), (9, 8, 4, True), (5, 4, 2, False)):
        S = tab_ops.Setting(prog, nr, nt, nsc, dirbc, threads=threads)
        dom = S.dom
        dom.opaque_minmax = True       # effects only: the norms at the end of computeExactError are not examined here
        gm = Obj("GMGPolar")
        cg_ = symdom.coarse_of(S.grid, min(nsc // 2 + 1, (nr + 1) // 2))
        levels = opsdom.ObjVec("Level", "levels_")
        for cflags in ((True, True), (False, False)):
            l0 = symdom.make_level(0, S.grid, S.cache(*cflags))
            l1 = symdom.make_level(1, cg_, opsdom.coarse_cache(prog, dom, l0, cg_))
            levels.items = [l0, l1]
            th = symdom.Arr("threads_per_level_", 4, elem="int", ints={i: threads for i in range(4)})
            for k, v in (("levels_", levels), ("threads_per_level_", th), ("DirBC_Interior_", dirbc), ("source_term_", opsdom.AbstractInput("source")),
                         ("boundary_conditions_", opsdom.AbstractInput("boundary")), ("exact_solution_", opsdom.AbstractInput("exact")),
                         ("domain_geometry_", S.geom), ("density_profile_coefficients_", S.coef)):
                gm.f[k] = Cell(v, k)
            tab_ops.default_other_members(dom, gm, "GMGPolar")
            N, Nc = nr * nt, cg_.shape[0] * cg_.shape[1]
            for qn, args in (("GMGPolar::build_rhs_f", lambda: [Cell(l0), Cell(SArr("rhs_f", N))]),
                             ("GMGPolar::discretize_rhs_f", lambda: [Cell(l0), Cell(SArr("rhs_f", N, gen=lambda j: dag.atom("f_%d" % j)))]),
                             ("GMGPolar::computeExactError", lambda: [Cell(l0), Cell(SArr("sol", N, gen=lambda j: dag.atom("u_%d" % j))), Cell(SArr("err", N))]),
                             ("GMGPolar::extrapolatedResidual", lambda: [0, Cell(SArr("res", N, gen=lambda j: dag.atom("r_%d" % j))), Cell(SArr("resc", Nc, gen=lambda j: dag.atom("rc_%d" % j)))])):
                n0 = len(dom.regions)
                try:
                    S.it.call_function(prog.fn(qn), gm, args())
                except ir.AnalysisBroken as e:
                    if "l2_norm_squared" not in str(e) and "sqrt" not in str(e) and "infinity_norm" not in str(e):
                        raise
                for r in dom.regions[n0:]:
                    out.append((qn, r))
    # Vector<double> special members with parallel copies
    dom = opsdom.OpsDomain(prog, threads=threads)
    it = Interp(prog, dom)
    for sp in ("copy_ctor", "copy_assign"):
        fns = [f for f in prog.fns("Vector<double>::Vector") + prog.fns("Vector<double>::operator=") if f.get("special") == sp]
        if len(fns) != 1:
            raise ir.AnalysisBroken("anchor vanished: Vector<double> %s" % sp)
        src = dom.new_object("Vector<double>", None, None)
        src.f["size_"].set(9)
        src.f["values_"].set(SArr("src.values_", 9, gen=lambda j: dag.atom("v_%d" % j)))
        dst = dom.new_object("Vector<double>", None, None)
        dst.f["size_"].set(4)
        dst.f["values_"].set(SArr("dst.values_", 4, zero=True))
        n0 = len(dom.regions)
        it.call_function(fns[0], dst, [Cell(src)])
        for r in dom.regions[n0:]:
            out.append(("Vector<double> %s" % sp, r))
    return out


ALLOWED_LITERALS = set(range(0, 9)) | {10000}
ALLOWED_MODULI = {2, 3, 4}


def predicate_census(functions):
    """cut-off premise (DESIGN 3.4): in the interpreted operator code, integer literals in comparisons are small (boundary
    distances 0..8; the 10 000 parallelisation threshold) and moduli are 2, 3 or 4. Returns (n_atoms, offending atoms)."""
    n = 0
    bad = []
    for qn, fn in functions.items():
        if qn.startswith(("std::", "__gnu")):
            continue
        for node in ir.walk(fn["body"]):
            if node.get("k") != "Bin":
                continue
            op = node["op"]
            if op in ("<", "<=", ">", ">=", "==", "!="):
                for side in (node["a"], node["b"]):
                    if side.get("k") == "Int":
                        n += 1
                        if int(side["v"]) not in ALLOWED_LITERALS:
                            bad.append(("%s %s %s" % (ir.show(node["a"]), op, ir.show(node["b"])), qn, ir.locstr(node)))
            if op == "%" and node["b"].get("k") == "Int":
                n += 1
                if int(node["b"]["v"]) not in ALLOWED_MODULI:
                    bad.append(("%s %% %s" % (ir.show(node["a"]), node["b"]["v"]), qn, ir.locstr(node)))
    return n, bad
