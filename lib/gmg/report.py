"""Common check protocol: rule instances, floors, violations, known findings, evidence,
exit codes (0 held / 1 VIOLATION / 2 analysis broken)."""
import json
import os
import sys
import time
import traceback

from . import ir

VERIF = ir.VERIF
KNOWN = os.path.join(VERIF, "known_findings.json")


def load_known():
    if not os.path.exists(KNOWN):
        return []
    with open(KNOWN) as fh:
        return json.load(fh)["findings"]


def dump_cover(pid):
    """branch census (GMG_COVER=<dir>): which outcomes of every concrete condition the abstract runs of this check took"""
    d = os.environ.get("GMG_COVER")
    if not d:
        return
    from . import interp
    os.makedirs(d, exist_ok=True)
    with open(os.path.join(d, "%s.json" % pid), "w") as fh:
        json.dump({k: sorted(v) for k, v in (interp.COVER or {}).items()}, fh, indent=0)


class Check:
    def __init__(self, pid, tier, level="other", technique=""):
        self.pid = pid
        self.tier = tier
        self.level = level
        self.technique = technique
        self.t0 = time.time()
        self.rules = {}  # rid -> dict(desc, floor, found, ok)
        self.viol = []  # dict(rule, key, site, msg, detail)
        self.known_hits = []
        self.undecided = []
        self.broken = []
        self.samples = []
        self.units = []
        self.functions = set()
        self.notes = []
        self.extra = {}
        self.obligations = 0
        self.discharged = 0
        self.nontrivial = set()
        self.known = [k for k in load_known() if k["property"] == pid]
        self.seed = int(os.environ.get("VERIF_SEED", "0") or 0)

    # -------------------------------------------------------------- bookkeeping
    def rule(self, rid, desc, floor=1):
        self.rules[rid] = {"desc": desc, "floor": floor, "found": 0, "held": 0}

    def analysed(self, fn):
        """record a function (IR dict) as analysed"""
        if isinstance(fn, dict):
            self.functions.add("%s @ %s" % (fn["qn"], ir.locstr(fn)))
        else:
            self.functions.add(str(fn))

    def instance(self, rid, what=None, nontrivial=True):
        """count an instance (obligation) of a rule; returns nothing. Call ok()/violation() for outcome."""
        self.rules[rid]["found"] += 1
        self.obligations += 1
        if nontrivial and what is not None:
            self.nontrivial.add((rid, str(what)))

    def ok(self, rid, what=None, sample=None):
        self.rules[rid]["held"] += 1
        self.discharged += 1
        if sample is not None and len(self.samples) < 12:
            self.samples.append({"rule": rid, "instance": what, "result": "held", "detail": sample})

    def held(self, rid, what, sample=None, nontrivial=True):
        self.instance(rid, what, nontrivial)
        self.ok(rid, what, sample)

    def violation(self, rid, key, site, msg, detail=None, signature=None):
        """key: stable identifier of the failing construct (no line numbers); site: file:line text.
        signature: what exactly goes wrong at that construct (the wrong value at fixed inputs, the defect as a closed form):
        a recorded known finding that carries a signature covers this violation only when the signatures agree, so a
        *different* defect at the same construct is reported."""
        full = "%s:%s" % (rid, key)
        for k in self.known:
            if k.get("status") == "known" and k["key"] == full:
                if k.get("signature") is not None and signature is not None and str(k["signature"]) != str(signature):
                    self.viol.append({"rule": rid, "key": full + ":changed", "site": site, "detail": detail,
                                      "msg": "%s  [this construct has a recorded known finding, but what fails now is different: recorded %s, now %s]" % (msg, k["signature"], signature)})
                    return
                self.known_hits.append({"key": full, "site": site, "what": k["what"], "msg": msg, "signature": signature})
                # an obligation that fails with a recorded known finding is reported as such, not counted as a proof obligation
                self.obligations -= 1
                self.known_obligations = getattr(self, "known_obligations", 0) + 1
                return
        self.viol.append({"rule": rid, "key": full, "site": site, "msg": msg, "detail": detail})

    def fail(self, rid, key, site, msg, detail=None, what=None, signature=None):
        """instance + violation in one call"""
        self.instance(rid, what if what is not None else key)
        self.violation(rid, key, site, msg, detail, signature=signature)

    def undecide(self, rid, what, why):
        self.undecided.append({"rule": rid, "instance": what, "why": why})

    def broke(self, why):
        self.broken.append(why)

    def note(self, s):
        self.notes.append(s)

    # -------------------------------------------------------------- finish
    def finish(self, explanation, trusted_base=None, assumptions=None, exhaustive=None):
        wall = time.time() - self.t0
        dump_cover(self.pid)
        # safety net: an out-of-range access met anywhere during the interpretation that no rule of this check reported
        from . import conc as _conc
        if _conc.GLOBAL_OOB and not any("out-of-range" in str(v) or "out of range" in str(v) or "beyond length" in str(v) for v in self.viol) and not self.broken:
            o = _conc.GLOBAL_OOB[0]
            rid = sorted(self.rules)[0] if self.rules else "R-%s-0" % self.pid
            self.fail(rid, "out-of-range:%s" % str(o[0]).split("#")[0], o[3], "access %s[%s] of an array of length %s at %s while interpreting the code this check covers (%d such accesses)" % (o[0], o[1], o[2], o[3], len(_conc.GLOBAL_OOB)))
        if _conc.GLOBAL_UNINIT and not self.broken and not self.viol:
            o = _conc.GLOBAL_UNINIT[0]
            rid = sorted(self.rules)[0] if self.rules else "R-%s-0" % self.pid
            self.fail(rid, "indeterminate-read:%s" % str(o[0]).split("#")[0], o[2], "%s[%s] is read at %s although nothing has written it (%d such reads while interpreting the code this check covers): the result depends on indeterminate memory" % (o[0], o[1], o[2], len(_conc.GLOBAL_UNINIT)))
        from . import interp as _interp
        if _interp.COVER:
            one = sorted(k for k, v in _interp.COVER.items() if len(v) == 1)
            self.extra["branch_census"] = {
                "conditions_evaluated_concretely": len(_interp.COVER), "both_outcomes_seen": len(_interp.COVER) - len(one), "one_outcome_only": len(one),
                "note": "one-sided conditions are else-if tails implied by earlier tests, configuration this check fixes, or error paths; tools/branch_census.py lists them across checks (triage in DESIGN.md section 6)"}
        for rid, r in self.rules.items():
            if r["found"] < r["floor"]:
                self.broken.append("rule %s matched %d instances, floor is %d (confirmed by hand on the pinned tree): "
                                   "the rule no longer sees the code it was written for" % (rid, r["found"], r["floor"]))
        rc = 0
        out = []
        for k in self.known_hits:
            out.append("KNOWN-FINDING: property=%s %s [%s] at %s" % (self.pid, k["what"], k["key"], k["site"]))
        # de-dup known lines
        seen = set()
        out2 = []
        for l in out:
            if l not in seen:
                seen.add(l)
                out2.append(l)
        out = out2
        replay = None
        if self.viol:
            rc = 1
            rdir = os.path.join(VERIF, "replay") if (ir.REPO == "/repo" and not os.environ.get("GMG_EVIDENCE_SCRATCH")) else os.path.join(VERIF, ".cache", "replay-scratch")
            os.makedirs(rdir, exist_ok=True)
            replay = os.path.join(rdir, "%s-%s.json" % (self.pid, self.tier))
            with open(replay, "w") as fh:
                json.dump({"property": self.pid, "tier": self.tier, "violations": self.viol}, fh, indent=1, default=str)
            groups = {}
            for v in self.viol:
                groups.setdefault(v["key"], []).append(v)
            for key, vs in list(groups.items())[:40]:
                v = vs[0]
                msg = v["msg"] if len(v["msg"]) < 900 else v["msg"][:900] + " …"
                out.append("  violation %s at %s (%d instance%s): %s" % (key, v["site"], len(vs), "" if len(vs) == 1 else "s", msg))
            out.append("VIOLATION property=%s replay=%s" % (self.pid, replay))
        if self.broken and rc == 0:
            rc = 2
        for b in self.broken:
            out.append("ANALYSIS-BROKEN property=%s %s" % (self.pid, b))
        if self.undecided and rc == 0 and self.extra.get("undecided_is_broken", True):
            rc = 2
            for u in self.undecided[:20]:
                out.append("UNDECIDED property=%s %s %s: %s" % (self.pid, u["rule"], u["instance"], u["why"]))
        cov = {
            "explanation": explanation,
            "units": sorted(set(self.units)),
            "n_units": len(set(self.units)),
            "n_functions": len(self.functions),
            "functions": sorted(self.functions)[:400],
            "rule_instances": {rid: {"found": r["found"], "held": r["held"], "floor": r["floor"], "rule": r["desc"]}
                               for rid, r in self.rules.items()},
            "obligations": self.obligations,
            "discharged": self.discharged,
            "obligations_failing_with_known_finding": getattr(self, "known_obligations", 0),
            "evaluations": max(self.obligations + getattr(self, "known_obligations", 0), 1),
            "distinct_nontrivial": len(self.nontrivial),
            "rule": "one evaluation = one rule instance (obligation) extracted from /repo's current source; distinct = "
                    "distinct (rule, construct) pairs; non-trivial = the instance had a non-empty obligation to check",
            "samples": self.samples if self.samples else [{"note": "no sample recorded"}],
            "undecided": self.undecided,
            "known_findings_rederived": self.known_hits,
            "checker_cmd": "./check %s --tier %s" % (self.pid, self.tier),
            "trusted_base": trusted_base or ["clang 14 front end", "gmgir lowering (one IR node per AST node)"],
            "notes": self.notes,
        }
        if exhaustive is not None:
            cov["exhaustive"] = exhaustive
        cov.update({k: v for k, v in self.extra.items() if k != "undecided_is_broken"})
        ev = {
            "property_id": self.pid,
            "tier": self.tier,
            "seed": self.seed,
            "level": self.level,
            "coverage": cov,
            "assumptions": assumptions or [],
            "wall_s": round(wall, 3),
            "violations": len(self.viol),
        }
        evdir = os.path.join(VERIF, "evidence") if (ir.REPO == "/repo" and not os.environ.get("GMG_EVIDENCE_SCRATCH")) else os.path.join(VERIF, ".cache", "evidence-scratch")
        os.makedirs(evdir, exist_ok=True)
        with open(os.path.join(evdir, "%s.json" % self.pid), "w") as fh:
            json.dump(ev, fh, indent=1, default=str)
        try:
            self._emit(out, wall)
        except BrokenPipeError:
            pass
        return rc

    def _emit(self, out, wall):
        print("check %s tier=%s: %d units, %d functions, %d obligations (%d discharged), %d violations, %d known, "
              "%d undecided, %.1fs" % (self.pid, self.tier, len(set(self.units)), len(self.functions), self.obligations,
                                       self.discharged, len(self.viol), len(self.known_hits), len(self.undecided), wall))
        for rid, r in self.rules.items():
            print("  %-10s found=%-5d held=%-5d floor=%-4d %s" % (rid, r["found"], r["held"], r["floor"], r["desc"][:110]))
        for l in out:
            print(l)
        sys.stdout.flush()


def run(main, pid):
    """entry wrapper: maps AnalysisBroken / crashes to exit 2 with a line"""
    import argparse
    ap = argparse.ArgumentParser()
    ap.add_argument("--tier", default=os.environ.get("VERIF_TIER", "quick"))
    a = ap.parse_args(sys.argv[2:] if len(sys.argv) > 1 and not sys.argv[1].startswith("-") else sys.argv[1:])
    def memory_verdict(why):
        """the interpretation stopped, but before it did the interpreted code accessed an array out of range or read an
        element nothing had written: that is a definite finding about /repo's code, not a limit of the analysis"""
        from . import conc as _conc
        ev = [("out-of-range access %s[%s] of an array of length %s" % tuple(o[:3]), o[3]) for o in _conc.GLOBAL_OOB] + \
             [("read of %s[%s], which nothing has written" % tuple(o[:2]), o[2]) for o in _conc.GLOBAL_UNINIT]
        if not ev:
            return None
        ck = Check(pid, a.tier, level="other", technique="abstract interpretation (memory events)")
        ck.rule("R-%s-memory" % pid, "no out-of-range access and no read of indeterminate memory in the interpreted code", floor=0)
        ck.fail("R-%s-memory" % pid, "memory:%s" % ev[0][0].split("[")[0].split(" ")[-1].split("#")[0], ev[0][1],
                "%s at %s (%d such events); the interpretation then stopped with: %s" % (ev[0][0], ev[0][1], len(ev), why))
        # keep the evidence file of the last complete run: this partial run only reports the violation
        ck.write_evidence = False
        return ck

    try:
        rc = main(a.tier)
    except ir.AnalysisBroken as e:
        ck = memory_verdict(str(e)[:300])
        if ck is not None:
            rc = ck.finish("partial run: the interpreted code left the modelled memory before the analysis stopped")
        else:
            print("ANALYSIS-BROKEN property=%s %s" % (pid, e))
            rc = 2
    except Exception as e:
        ck = None
        try:
            ck = memory_verdict("%s: %s" % (type(e).__name__, str(e)[:200]))
            from .interp import ThrowEx as _ThrowEx, IntDivByZero as _IntDivByZero
            if ck is None and isinstance(e, _IntDivByZero):
                ck = Check(pid, a.tier, level="other", technique="abstract interpretation (integer arithmetic of the interpreted code)")
                ck.rule("R-%s-intdiv" % pid, "the interpreted library code never divides an integer by zero", floor=0)
                tb = traceback.extract_tb(e.__traceback__)
                ck.fail("R-%s-intdiv" % pid, "integer-division-by-zero", "?", "the library code performs an %s while the check interprets it on an admissible input (undefined behaviour)" % e)
            if ck is None and isinstance(e, _ThrowEx):
                # the interpreted library code itself throws on an input the check hands it as admissible
                ck = Check(pid, a.tier, level="other", technique="abstract interpretation (uncaught exception of the interpreted code)")
                ck.rule("R-%s-throws" % pid, "the interpreted library code does not throw on the admissible grids and options of this check", floor=0)
                ck.fail("R-%s-throws" % pid, "throws:%s" % str(getattr(e, "what", e))[:40], str(getattr(e, "site", "?")),
                        "the library code throws %s at %s while the check interprets it on an admissible input" % (getattr(e, "what", e), getattr(e, "site", "?")))
        except Exception:
            ck = None
        if ck is not None:
            rc = ck.finish("partial run: the interpreted code left the modelled memory before the analysis stopped")
        else:
            traceback.print_exc()
            try:
                print("ANALYSIS-BROKEN property=%s checker crashed (see traceback)" % pid)
            except BrokenPipeError:
                pass
            rc = 2
    try:
        sys.stdout.flush()
    except BrokenPipeError:
        pass
    sys.exit(rc)
