"""STRUCT helpers: guarded statement walks, write-target classification, call graph."""
from . import ir


def stmts_with_guards(node, guards=()):
    """yield (stmt_or_expr_statement, guards) for every statement, guards = tuple of (cond_expr, polarity, if_node)"""
    if node is None:
        return
    k = node.get("k")
    if k == "Block":
        for s in node["s"]:
            yield from stmts_with_guards(s, guards)
        return
    yield node, guards
    if k == "If":
        yield from stmts_with_guards(node["t"], guards + ((node["c"], True, node),))
        if node.get("e"):
            yield from stmts_with_guards(node["e"], guards + ((node["c"], False, node),))
    elif k in ("For", "While", "Do", "RangeFor"):
        yield from stmts_with_guards(node.get("body"), guards)
    elif k == "Omp":
        yield from stmts_with_guards(node.get("body"), guards)
    elif k == "Switch":
        yield from stmts_with_guards(node.get("body"), guards)
    elif k in ("Case", "Default", "Label"):
        yield from stmts_with_guards(node.get("sub"), guards)
    elif k == "Try":
        yield from stmts_with_guards(node.get("body"), guards)
        for h in node.get("handlers", []):
            yield from stmts_with_guards(h, guards)


def exprs_of_stmt(s):
    """top-level expressions evaluated by statement s itself (not by nested statements)"""
    k = s.get("k")
    if k == "Expr":
        return [s["e"]]
    if k == "Decl":
        return [v["init"] for v in s["vars"] if v.get("init")]
    if k == "If":
        return [s["c"]]
    if k == "For":
        out = []
        if s.get("init") and s["init"].get("k") == "Decl":
            out += [v["init"] for v in s["init"]["vars"] if v.get("init")]
        elif s.get("init") and s["init"].get("k") == "Expr":
            out.append(s["init"]["e"])
        if s.get("c"):
            out.append(s["c"])
        if s.get("inc"):
            out.append(s["inc"])
        return out
    if k in ("While", "Do"):
        return [s["c"]]
    if k == "Return":
        return [s["e"]] if s.get("e") else []
    if k == "Switch":
        return [s["e"]]
    return []


def writes_in_expr(e):
    """yield (target_expr, assign_node) for every assignment / compound assignment / ++/-- inside e"""
    for n in ir.walk(e):
        k = n.get("k")
        if k == "Assign":
            yield n["a"], n
        elif k == "Un" and n.get("op") in ("++", "--"):
            yield n["e"], n
        elif k == "OpCall" and n.get("op") in ("=", "+=", "-=", "*=", "/=") and n.get("args"):
            yield n["args"][0], n


def is_this_field(e, name=None):
    return e.get("k") == "Field" and e["base"] is not None and e["base"].get("k") == "This" and (name is None or e["field"] == name)


def calls_in(node):
    for n in ir.walk(node):
        if n.get("k") in ("Call", "OpCall", "Construct"):
            yield n


def callee_of(n):
    return n.get("callee") or n.get("ctor") or ""


class CallGraph:
    def __init__(self, prog):
        self.prog = prog
        self.callers = {}  # callee qn -> set of caller qn
        self.callees = {}
        self.sites = {}  # (caller, callee) -> [site]
        for qn, fns in prog.functions.items():
            for f in fns:
                for c in calls_in(f):
                    cq = callee_of(c)
                    if not cq:
                        continue
                    self.callers.setdefault(cq, set()).add(qn)
                    self.callees.setdefault(qn, set()).add(cq)
                    self.sites.setdefault((qn, cq), []).append(ir.locstr(c))
        # virtual dispatch: a call to Base::m may reach every override
        self.overriders = {}
        for qn, fns in prog.functions.items():
            for f in fns:
                for o in f.get("overrides", []):
                    self.overriders.setdefault(o, set()).add(qn)
        for base, ovs in self.overriders.items():
            for caller in self.callers.get(base, set()):
                for o in ovs:
                    self.callers.setdefault(o, set()).add(caller)
                    self.callees.setdefault(caller, set()).add(o)

    def ancestors(self, qn):
        seen = set()
        stack = [qn]
        while stack:
            x = stack.pop()
            for c in self.callers.get(x, ()):
                if c not in seen:
                    seen.add(c)
                    stack.append(c)
        return seen

    def reachable(self, roots):
        seen = set(roots)
        stack = list(roots)
        while stack:
            x = stack.pop()
            for c in self.callees.get(x, ()):
                if c not in seen:
                    seen.add(c)
                    stack.append(c)
        return seen


def named_call_sequence(prog, fn, names, cls_prefix, depth=0, seen=()):
    """the calls of the functions in `names` that executing fn's body top to bottom meets, in statement order, looking
    through helpers of the same class (a constructor that delegates its steps to a private init() still shows them)"""
    out = []
    body = fn.get("body") or {}
    for s in (body.get("s") if body.get("k") == "Block" else [body]):
        for c in calls_in(s):
            q = callee_of(c)
            if q in names:
                out.append(q)
            elif q.startswith(cls_prefix) and depth < 3 and q not in seen:
                cands = [f for f in prog.fns(q) if len(f["params"]) == len(c.get("args", [])) and f.get("body") is not None and not f.get("special")]
                if len(cands) == 1:
                    out += named_call_sequence(prog, cands[0], names, cls_prefix, depth + 1, seen + (q,))
    return out


def event_sequence(prog, fn, names, fields, cls_prefix, depth=0, seen=()):
    """like named_call_sequence, plus "write:<member>" events for direct writes of the listed members of *this"""
    out = []
    body = fn.get("body") or {}
    for s in (body.get("s") if body.get("k") == "Block" else [body]):
        for c in calls_in(s):
            q = callee_of(c)
            if q in names:
                out.append(q)
            elif q.startswith(cls_prefix) and depth < 3 and q not in seen:
                cands = [f for f in prog.fns(q) if len(f["params"]) == len(c.get("args", [])) and f.get("body") is not None and not f.get("special")]
                if len(cands) == 1:
                    out += event_sequence(prog, cands[0], names, fields, cls_prefix, depth + 1, seen + (q,))
        for e in exprs_of_stmt(s):
            for tgt, node in writes_in_expr(e):
                if is_this_field(tgt) and tgt["field"] in fields:
                    out.append("write:" + tgt["field"])
    return out
