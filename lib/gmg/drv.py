"""DRV — value-flow analysis of the multigrid driver (DESIGN 3.2).

Interprets GMGPolar::solve / initializeSolution / converged / the six cycles / the six
level_interpolation wrappers / the accessors / the rhs part of setup over Herbrand terms.
Options are concrete (taken from a finite *mode*), vectors are LCs of operator symbols,
scalars are uninterpreted scalar terms; conditions on scalar terms are choice points,
explored exhaustively by replay."""
from fractions import Fraction

from . import ir
from .interp import (Cell, Domain, Interp, Obj, Opaque, Undef, ThrowEx)
from .ir import AnalysisBroken
from .terms import LC, clob, fn as tfn, leaf, stale, show, walk_atoms

ENUMS = {
    "ExtrapolationType": {"NONE": 0, "IMPLICIT_EXTRAPOLATION": 1, "IMPLICIT_FULL_GRID_SMOOTHING": 2, "COMBINED": 3},
    "MultigridCycleType": {"V_CYCLE": 0, "W_CYCLE": 1, "F_CYCLE": 2},
    "ResidualNormType": {"EUCLIDEAN": 0, "WEIGHTED_EUCLIDEAN": 1, "INFINITY_NORM": 2},
}

WHICH = ("rhs", "solution", "residual", "error_correction")

# frozen operator signatures (DESIGN Appendix B): callee -> list of roles per parameter
# roles: 'out' (fully overwritten), 'inout', 'in', 'scratch' (clobbered), 'lvl' (Level argument), 'val'
SIGS = {
    "Level::computeResidual": ["out", "in", "in"],
    "Level::smoothing": ["inout", "in", "scratch"],
    "Level::extrapolatedSmoothing": ["inout", "in", "scratch"],
    "Level::directSolveInPlace": ["inout"],
    "Interpolation::applyInjection": ["lvl", "lvl", "out", "in"],
    "Interpolation::applyProlongation": ["lvl", "lvl", "out", "in"],
    "Interpolation::applyExtrapolatedProlongation": ["lvl", "lvl", "out", "in"],
    "Interpolation::applyRestriction": ["lvl", "lvl", "out", "in"],
    "Interpolation::applyExtrapolatedRestriction": ["lvl", "lvl", "out", "in"],
    "Interpolation::applyFMGInterpolation": ["lvl", "lvl", "out", "in"],
    "GMGPolar::extrapolatedResidual": ["val", "inout", "in"],
    "GMGPolar::computeExactError": ["lvl", "in", "out"],
    "GMGPolar::build_rhs_f": ["lvl", "out"],
    "GMGPolar::discretize_rhs_f": ["lvl", "inout"],
}
# transfer operators: (symbol, direction) direction +1: result lives on from_level+1 (coarser), -1: finer
TRANSFER = {
    "Interpolation::applyInjection": ("Inj", +1),
    "Interpolation::applyRestriction": ("R", +1),
    "Interpolation::applyExtrapolatedRestriction": ("Rx", +1),
    "Interpolation::applyProlongation": ("P", -1),
    "Interpolation::applyExtrapolatedProlongation": ("Px", -1),
    "Interpolation::applyFMGInterpolation": ("Fmg", -1),
}


def strip_targs(name):
    """qualified name without template argument lists: std::vector<Level>::emplace_back<int&> -> std::vector::emplace_back"""
    i = name.find("operator")
    head, tail = (name, "") if i < 0 else (name[:i], name[i:])
    out = []
    depth = 0
    for ch in head:
        if ch == "<":
            depth += 1
        elif ch == ">":
            depth -= 1
        elif depth == 0:
            out.append(ch)
    return "".join(out) + tail


def check_signatures(prog):
    """cross-check the frozen in/out table against const-ness of the declarations in the IR"""
    problems = []
    for qn, roles in SIGS.items():
        fns = prog.fns(qn)
        fns = [f for f in fns if len(f["params"]) == len(roles)]
        if not fns:
            raise AnalysisBroken("anchor vanished: operator %s (with %d parameters) has no definition in the IR" % (qn, len(roles)))
        f = fns[0]
        for p, r in zip(f["params"], roles):
            if r in ("out", "inout", "scratch"):
                if not p["ref"] or p["const"]:
                    problems.append("%s: parameter %s is %s in the frozen table but declared %s" % (qn, p["name"], r, p["t"]))
            if r == "in" and p["ref"] and not p["const"]:
                problems.append("%s: parameter %s is 'in' in the frozen table but declared non-const %s" % (qn, p["name"], p["t"]))
    if problems:
        raise AnalysisBroken("operator signature table disagrees with the source: " + "; ".join(problems))


class LevelRef:
    def __init__(self, l):
        self.l = l

    def __repr__(self):
        return "Level[%s]" % self.l


class BufRef:
    def __init__(self, l, which):
        self.l = l
        self.which = which

    def key(self):
        return (self.l, self.which)

    def __repr__(self):
        return "levels_[%s].%s()" % (self.l, self.which)


class Handle:
    def __init__(self, kind, **kw):
        self.kind = kind
        self.__dict__.update(kw)

    def __repr__(self):
        return "Handle(%s)" % self.kind


class ListObj:
    """abstract std::vector of scalars / pairs"""

    def __init__(self, name, items=None):
        self.name = name
        self.items = list(items or [])

    def __repr__(self):
        return "List(%s,%d)" % (self.name, len(self.items))


class Pair:
    def __init__(self, a, b):
        self.first = Cell(a, "first")
        self.second = Cell(b, "second")


class OptVal:
    def __init__(self, present, name):
        self.present = present
        self.name = name


class Ptr:
    def __init__(self, nonnull, name):
        self.nonnull = nonnull
        self.name = name


def S(name, *args):
    return ("s", name) + tuple(args)


def is_scalar_term(v):
    return isinstance(v, tuple) and v and v[0] == "s"


class Event:
    def __init__(self, kind, site, msg, fn):
        self.kind = kind
        self.site = site
        self.msg = msg
        self.fn = fn

    def __repr__(self):
        return "%s at %s in %s: %s" % (self.kind, self.site, self.fn, self.msg)


class NeedChoice(Exception):
    pass


class DrvDomain(Domain):
    def __init__(self, prog, mode, choices=()):
        self.prog = prog
        self.mode = mode
        self.L = mode["L"]
        self.choices = list(choices)
        self.choice_log = []  # (site, cond, outcome)
        self.n_choice = 0
        self.more = False  # an unexplored alternative exists beyond `choices`
        self.events = []
        self.oplog = []
        self.bufs = {}
        self.field_writes = set()
        self.field_reads = set()
        self.converged_calls = []
        self.cycle_calls = []
        self.gm = None
        self.clob_n = 0
        self.throws = None
        self.in_solve = False
        self.levels_built = None
        self.alias = {}  # (level, accessor) -> accessor whose storage it returns (Level's accessors decide; identity if absent)
        self.level_ops = None  # level -> set of initialised operators (None: not tracked)
        self.policy = None  # fixed outcome for non-concrete conditions (no forking) or None
        self.nofork_pred = None

    # ------------------------------------------------------------ state construction
    def make_state(self, bufs=None, fields=None):
        m = self.mode
        L = self.L
        self.bufs = {}
        for l in range(L):
            for w in WHICH:
                self.bufs[(l, w)] = {"alloc": True, "val": LC.zero()}
        if bufs:
            for k, v in bufs.items():
                self.bufs[k].update(v)
        g = Obj("GMGPolar")
        f = g.f

        def put(name, v):
            f[name] = Cell(v, name)

        put("FMG_", bool(m.get("FMG", False)))
        put("FMG_iterations_", m.get("FMG_iterations", 1))
        put("FMG_cycle_", m.get("FMG_cycle", 0))
        put("extrapolation_", m.get("extrapolation", 0))
        put("multigrid_cycle_", m.get("cycle", 0))
        put("pre_smoothing_steps_", m.get("nu1", 1))
        put("post_smoothing_steps_", m.get("nu2", 1))
        put("max_iterations_", m.get("max_iterations", 1))
        put("residual_norm_type_", m.get("norm", 0))
        put("absolute_tolerance_", OptVal(m.get("abs_tol", True), "absolute_tolerance_"))
        put("relative_tolerance_", OptVal(m.get("rel_tol", True), "relative_tolerance_"))
        put("verbose_", m.get("verbose", 0))
        put("paraview_", bool(m.get("paraview", False)))
        put("exact_solution_", Ptr(bool(m.get("exact", False)), "exact_solution_"))
        put("number_of_levels_", L)
        put("levels_", Handle("levels"))
        put("threads_per_level_", Handle("threads"))
        put("interpolation_", Ptr(True, "interpolation_"))
        put("max_omp_threads_", Opaque("threads"))
        put("thread_reduction_factor_", Opaque("factor"))
        put("DirBC_Interior_", Opaque("DirBC"))
        put("stencil_distribution_method_", m.get("stencil", 1))
        put("cache_density_profile_coefficients_", bool(m.get("cache_coeff", True)))
        put("cache_domain_geometry_", bool(m.get("cache_geom", True)))
        for nm in ("domain_geometry_", "density_profile_coefficients_", "boundary_conditions_", "source_term_"):
            put(nm, Ptr(True, nm))
        for nm in ("R0_", "Rmax_", "nr_exp_", "ntheta_exp_", "anisotropic_factor_", "divideBy2_", "max_levels_"):
            put(nm, Opaque(nm))
        put("load_grid_file_", False)
        put("write_grid_file_", False)
        ext = m.get("extrapolation", 0)
        put("full_grid_smoothing_", m.get("full_grid_smoothing", ext in (0, 2, 3)))
        put("number_of_iterations_", Undef("number_of_iterations_"))
        put("residual_norms_", ListObj("residual_norms_"))
        put("exact_errors_", ListObj("exact_errors_"))
        put("mean_residual_reduction_factor_", Undef("mean_residual_reduction_factor_"))
        for t in ("t_setup_total", "t_setup_createLevels", "t_setup_rhs", "t_setup_smoother", "t_setup_directSolver",
                  "t_solve_total", "t_solve_initial_approximation", "t_solve_multigrid_iterations", "t_check_convergence",
                  "t_check_exact_error", "t_avg_MGC_total", "t_avg_MGC_preSmoothing", "t_avg_MGC_postSmoothing",
                  "t_avg_MGC_residual", "t_avg_MGC_directSolver"):
            put(t, Opaque("time"))
        # members this table does not name (added since it was written): their in-class initialiser if it is a plain
        # literal, otherwise unassigned (reading it before the code assigns it is then an event, not a crash of the analysis)
        cls = self.prog.classes.get("GMGPolar") or {}
        for fd in cls.get("fields", []):
            if fd["name"] in f:
                continue
            init = fd.get("init")
            # not Undef: whether the constructor initialises a member this table does not know is not examined here, and
            # "read before assigned" must not be claimed for it
            v = Opaque("member %s (not modelled)" % fd["name"])
            while init is not None and init.get("k") in ("Paren", "Cast", "ImplicitCast", "Expr") and init.get("e") is not None:
                init = init["e"]
            if init is not None and init.get("k") in ("Int", "Bool") and "v" in init:
                v = bool(init["v"]) if init["k"] == "Bool" else int(init["v"])
            put(fd["name"], v)
        if fields:
            for k, v in fields.items():
                put(k, v)
        self.gm = g
        return g

    def buf(self, ref, site, role):
        if not isinstance(ref, BufRef):
            if isinstance(ref, Cell):
                ref = ref.get()
        if not isinstance(ref, BufRef):
            raise AnalysisBroken("vector argument is not a level work vector (%r) at %s" % (ref, site))
        if not (0 <= ref.l < self.L):
            self.event("oob-level", site, "vector of level %d used but only levels 0..%d exist" % (ref.l, self.L - 1))
            raise ThrowEx("out-of-range level", site)
        b = self.bufs[ref.key()]
        if not b["alloc"]:
            self.event("unallocated", site, "%r is used as %s but Level's constructor allocates it with size 0 in this mode" % (ref, role))
        return b

    def event(self, kind, site, msg):
        self.events.append(Event(kind, site, msg, self.interp.stack[-1] if self.interp.stack else "?"))

    # ------------------------------------------------------------ domain hooks
    def enum_const(self, e):
        return int(e["v"])

    def float_lit(self, e):
        txt = e.get("text") or e["v"]
        try:
            return Fraction(txt.rstrip("fFlL"))
        except Exception:
            return Fraction(float(e["v"]))

    def global_var(self, e, fr):
        qn = e.get("qn", "")
        if qn == "std::nullopt":
            return None
        if qn in ("std::cout", "std::cerr", "std::clog"):
            return Opaque("stream")
        g = getattr(self.prog, "globals", {}).get(qn)
        if g is not None and g.get("init") is not None and "const" in (g.get("t") or ""):
            # a named constant (namespace scope or static constexpr member): its literal value
            i = g["init"]
            while i is not None and i.get("k") in ("Paren", "Cast", "ImplicitCast", "Expr") and i.get("e") is not None:
                i = i["e"]
            if i is not None and i.get("k") == "Int":
                return int(i["v"])
            if i is not None and i.get("k") == "Bool":
                return bool(i["v"])
            if i is not None and i.get("k") == "Float":
                return Fraction((i.get("text") or i["v"]).rstrip("fFlL"))
        raise AnalysisBroken("global %s not modelled at %s" % (qn, ir.locstr(e)))

    def default_value(self, t, v, fr):
        t = t.strip()
        if t in ("double", "int", "bool", "float", "const double", "const int"):
            return Undef(v["name"])
        if t.startswith("std::pair"):
            return Pair(Undef(v["name"] + ".first"), Undef(v["name"] + ".second"))
        return Undef(v["name"])

    def read_undef(self, u, e, fr):
        self.event("undef-read", ir.locstr(e), "value of '%s' is read but not assigned on this path" % u.what)
        return S("UNDEF", u.what)

    def choose(self, v, e, fr):
        site = ir.locstr(e)
        if self.policy is not None:
            self.choice_log.append((site, v, self.policy, fr.fn["qn"]))
            return self.policy
        if self.nofork_pred is not None and self.nofork_pred(v):
            # condition already known to be a violation (history-dependent): record, do not multiply paths
            self.choice_log.append((site, v, True, fr.fn["qn"]))
            return True
        i = self.n_choice
        self.n_choice += 1
        if i < len(self.choices):
            out = self.choices[i]
        else:
            out = True
            self.more = True
            self.choices.append(True)
        self.choice_log.append((site, v, out, fr.fn["qn"]))
        return out

    def field_hook(self, obj, e, fr):
        if obj is self.gm:
            name = e["field"]
            if name not in obj.f:
                raise AnalysisBroken("GMGPolar member %s is read by the analysed code but not modelled (at %s)" % (name, ir.locstr(e)))
            self.field_reads.add(name)
        return NotImplemented

    def write(self, cell, v, e, fr):
        if self.gm is not None and cell.name in self.gm.f and self.gm.f[cell.name] is cell:
            self.field_writes.add(cell.name)
        cell.set(v)

    def field_of(self, base, e, fr):
        if isinstance(base, Pair):
            return base.first if e["field"] == "first" else base.second
        raise AnalysisBroken("field %s of %r not modelled at %s" % (e["field"], base, ir.locstr(e)))

    def copy_value(self, v, t):
        if isinstance(v, Pair):
            return Pair(v.first.get(), v.second.get())
        return v

    def cast(self, v, t, e, fr):
        if isinstance(v, (int, bool)) and t in ("double", "float"):
            return Fraction(int(v))
        if isinstance(v, Fraction) and t == "int":
            return int(v)
        return v

    def unop(self, op, v, e, fr):
        if isinstance(v, Fraction) and op == "-":
            return -v
        if op == "!" and isinstance(v, Ptr):
            return not v.nonnull
        if is_scalar_term(v) or isinstance(v, Opaque):
            return S(op, v)
        if isinstance(v, Ptr) and op == "!":
            return not v.nonnull
        raise AnalysisBroken("unary %s on %r at %s" % (op, v, ir.locstr(e)))

    @staticmethod
    def pure(e):
        """expression without side effects (may be evaluated out of order)"""
        for n in ir.walk(e):
            k = n.get("k")
            if k in ("Assign", "Call", "OpCall", "Construct", "New", "Delete", "Throw", "Lambda"):
                return False
            if k == "Un" and n.get("op") in ("++", "--"):
                return False
        return True

    def lazy_and(self, a, e, fr):
        # a is an abstract bool. If the right operand is pure and concretely false the conjunction is false
        # whatever a is (no case split, and a's provenance is irrelevant to the result).
        if self.pure(e["b"]):
            b = self.interp.rvalue(e["b"], fr)
            if b is False or b == 0 and isinstance(b, (bool, int)):
                return False
            if b is True:
                return self.choose(a, e["a"], fr)
        if self.choose(a, e["a"], fr):
            b = self.interp.rvalue(e["b"], fr)
            return b
        return False

    def lazy_or(self, a, e, fr):
        if self.choose(a, e["a"], fr):
            return True
        return self.interp.rvalue(e["b"], fr)

    def abs_binop(self, op, a, b, e, fr):
        num = lambda x: isinstance(x, (int, Fraction)) and not isinstance(x, bool)
        if num(a) and num(b):
            a, b = Fraction(a), Fraction(b)
            if op == "+":
                return a + b
            if op == "-":
                return a - b
            if op == "*":
                return a * b
            if op == "/":
                if b == 0:
                    self.event("nan", ir.locstr(e), "floating-point division %s/0 of two constants: the result (NaN or inf) is reported as a statistic" % a)
                    return S("NaN")
                return a / b
            if op in ("<", "<=", ">", ">=", "==", "!="):
                return {"<": a < b, "<=": a <= b, ">": a > b, ">=": a >= b, "==": a == b, "!=": a != b}[op]
        if isinstance(a, Handle) and a.kind in ("grid", "cache") and b is None and op in ("==", "!="):
            return op == "!="
        if isinstance(b, Handle) and a is None and op in ("==", "!="):
            return self.abs_binop(op, b, a, e, fr)
        if isinstance(a, Ptr) and b is None:
            if op == "!=":
                return a.nonnull
            if op == "==":
                return not a.nonnull
        if isinstance(b, Ptr) and a is None:
            return self.abs_binop(op, b, a, e, fr)
        if (is_scalar_term(a) and a[1] == "N" or isinstance(a, Opaque) and "numberOfNodes" in str(a.tag)) and num(b) and b == 0 and op in ("<", "<=", ">", ">=", "==", "!="):
            # a grid has at least one node
            return {"<": False, "<=": False, ">": True, ">=": True, "==": False, "!=": True}[op]
        if isinstance(a, Opaque) or isinstance(b, Opaque):
            if op in ("<", "<=", ">", ">=", "==", "!="):
                return self.choose(S(op, a, b), e, fr)
            return Opaque("arith")
        ok = lambda x: is_scalar_term(x) or num(x)
        if ok(a) and ok(b):
            if op == "/" and num(b) and b == 0:
                # the denominator is still its placeholder constant on this path: the quotient is inf or NaN whatever the numerator
                self.event("nan", ir.locstr(e), "floating-point division of '%s' by a denominator that is the constant 0 on this path (never assigned from this solve): the result (inf or NaN) is reported as a statistic" % show(a)[:80])
                return S("NaN")
            if op in ("<", "<=", ">", ">=", "==", "!="):
                # a comparison of value-dependent scalars is decided where it is evaluated (both outcomes explored, logged with
                # the comparison as the condition), so that it does not matter whether the code branches on it directly,
                # stores it in a bool first, or combines it with && / || / !
                return self.choose(S(op, a, b), e, fr)
            return S(op, a, b)
        raise AnalysisBroken("binary %s on %r, %r at %s" % (op, a, b, ir.locstr(e)))

    def index(self, base, idx, e, fr):
        raise AnalysisBroken("raw subscript on %r at %s" % (base, ir.locstr(e)))

    def range_for(self, s, fr):
        """for (int& t : threads_per_level_) / for (x : residual_norms_): one pass per element, in order"""
        it = self.interp
        from .interp import BreakEx, ContinueEx
        r = it.eval(s["range"], fr)
        r = r.get() if isinstance(r, Cell) else r
        v = s["var"]
        if isinstance(r, Handle) and r.kind == "threads":
            n_ = getattr(r, "length", None)
            if not isinstance(n_, int):
                raise AnalysisBroken("range-for over threads_per_level_ of unknown length at %s" % ir.locstr(s))
            cells = [Cell(Opaque("threads"), "threads_per_level_[%d]" % i) for i in range(n_)]
            self.field_reads.add("threads_per_level_")
        elif isinstance(r, ListObj):
            cells = [x if isinstance(x, Cell) else Cell(x, "%s[%d]" % (r.name, i)) for i, x in enumerate(r.items)]
        elif isinstance(r, Opaque) and "not modelled" in str(r.tag):
            # a loop over a container the model has no place for (per-level counters): how often its body runs is unknown;
            # run it once over an unknown element so that what it touches is seen, and once not at all via the fork below
            cells = [Cell(Opaque(r.tag), "element of an unmodelled member")] if self.choose(S("nonempty", r.tag), s, fr) else []
        else:
            raise AnalysisBroken("range-for over %r not modelled at %s" % (r, ir.locstr(s)))
        is_ref = (v.get("t") or "").rstrip().endswith("&")
        for c in cells:
            fr.vars[v["id"]] = c if is_ref else Cell(c.get(), v["name"])
            try:
                it.exec(s["body"], fr)
            except BreakEx:
                break
            except ContinueEx:
                pass

    def omp(self, s, fr):
        raise AnalysisBroken("OpenMP region inside an interpreted driver function at %s" % ir.locstr(s))

    # ------------------------------------------------------------ intrinsics
    def call(self, e, fr):
        it = self.interp
        k = e["k"]
        callee = e.get("callee") or e.get("ctor") or ""
        site = ir.locstr(e)
        args = e["args"]
        base = strip_targs(callee)
        mname = base.rsplit("::", 1)[-1]

        # ---- streams / chrono / likwid: evaluate operands (reads), produce opaque
        if k == "OpCall" and e["op"] in ("<<",) and ("ostream" in callee or callee.startswith("std::operator<<")):
            for a in args:
                it.rvalue(a, fr)
            return Opaque("stream")
        if callee.startswith("std::chrono::") or callee.startswith("std::endl") or callee.startswith("std::flush"):
            for a in args:
                it.rvalue(a, fr)
            if "this" in e and e["this"] is not None:
                it.rvalue(e["this"], fr)
            return Opaque("time")
        if k == "Construct":
            t = e["t"]
            if t.startswith("std::chrono::") or "chrono" in t:
                for a in args:
                    it.rvalue(a, fr)
                return Opaque("time")
            if t.startswith("std::pair<double, double>"):
                if len(args) == 1:
                    v = it.rvalue(args[0], fr)
                    if isinstance(v, Pair):
                        return Pair(v.first.get(), v.second.get())
                if len(args) == 2:
                    return Pair(it.rvalue(args[0], fr), it.rvalue(args[1], fr))
            if t.startswith("Vector<double>") and len(args) == 1 and not e.get("copy") and not e.get("move"):
                return Handle("vec", size=it.rvalue(args[0], fr))
            if t.startswith("std::optional<double>") and len(args) == 1:
                return it.rvalue(args[0], fr)
            t = t[6:] if t.startswith("const ") else t
            if t.startswith("std::filesystem::path") or t.startswith("std::basic_string") or t.startswith("std::string"):
                return Opaque("path")
            if t.startswith("std::invalid_argument") or t.startswith("std::runtime_error"):
                return Opaque("exception")
            if (e.get("copy") or e.get("move")) and len(args) == 1:
                return self.copy_value(it.rvalue(args[0], fr), t)
            if t.startswith("std::unique_ptr<") and len(args) <= 1:
                if args:
                    v = it.rvalue(args[0], fr)
                    return v if isinstance(v, Ptr) else Ptr(v is not None, t)
                return Ptr(False, t)
            # an object of a class the driver model has no place for (a counter, a timer wrapper, an atomic): whatever it is,
            # it is not one of the vectors, operators or scalars the value flow tracks; keep it as a defined, unknown value
            # (a decision that reads it is explored both ways, a statistic that takes it becomes that unknown value)
            cls_ = self.prog.classes.get(t.split("<")[0]) or self.prog.classes.get(t)
            if cls_ is not None or t.startswith("std::atomic<") or t.startswith("std::array<") or t.startswith("std::vector<int") or t.startswith("std::vector<double"):
                for a in args:
                    it.rvalue(a, fr)
                return Opaque("object of %s (not modelled)" % t)
            raise AnalysisBroken("construction of %s not modelled at %s" % (t, site))

        this = None
        if "this" in e and e["this"] is not None:
            this = it.eval(e["this"], fr)
            if isinstance(this, Cell):
                this = this.get()

        # ---- anything called ON an unmodelled member / object (counters, timers, atomics): evaluated for its arguments only
        if isinstance(this, Opaque) and "not modelled" in str(this.tag) and k == "Call":
            for a in args:
                it.rvalue(a, fr)
            return Opaque(this.tag)
        if k == "OpCall" and args and e["op"] in ("++", "--", "+=", "-=", "=", "()"):
            b0 = it.eval(args[0], fr)
            v0 = b0.get() if isinstance(b0, Cell) else b0
            if isinstance(v0, Opaque) and "not modelled" in str(v0.tag):
                for a in args[1:]:
                    it.rvalue(a, fr)
                return b0
        # ---- levels_ vector
        if k == "OpCall" and e["op"] == "[]":
            b = it.rvalue(args[0], fr)
            i = it.rvalue(args[1], fr)
            if isinstance(b, Handle) and b.kind == "levels":
                i = self.concrete_int(i, args[1], fr)
                if not (0 <= i < self.L):
                    self.event("oob-level", site, "levels_[%d] accessed with %d levels" % (i, self.L))
                    raise ThrowEx("levels_ out of range", site)
                return LevelRef(i)
            if isinstance(b, Handle) and b.kind == "threads":
                n_ = getattr(b, "length", None)
                if isinstance(i, int) and not isinstance(i, bool) and isinstance(n_, int) and not (0 <= i < n_):
                    self.event("oob-list", site, "threads_per_level_[%d] accessed but the vector was resized to %d entries" % (i, n_))
                return Cell(Opaque("threads"), "threads_per_level_[i]")
            if isinstance(b, ListObj):
                i = self.concrete_int(i, args[1], fr)
                if not (0 <= i < len(b.items)):
                    self.event("oob-list", site, "%s[%d] read but the list has %d entries on this path" % (b.name, i, len(b.items)))
                    return Cell(S("OOB", b.name, i))
                return Cell(b.items[i], "%s[%d]" % (b.name, i))
            if isinstance(b, Opaque) and "not modelled" in str(b.tag):
                return Cell(b, "element of an unmodelled member")     # counters per level and the like
            raise AnalysisBroken("operator[] on %r at %s" % (b, site))
        if k == "OpCall" and e["op"] == "->":
            return it.rvalue(args[0], fr)
        if k == "OpCall" and e["op"] == "*" and len(args) == 1:
            return it.rvalue(args[0], fr)
        if k == "OpCall" and e["op"] in ("==", "!=") and len(args) == 2:
            a, b = it.rvalue(args[0], fr), it.rvalue(args[1], fr)
            return self.abs_binop(e["op"], a, b, e, fr)
        if k == "OpCall" and e["op"] == "=" and base.startswith("Vector::"):
            dst = it.rvalue(args[0], fr)
            src = it.rvalue(args[1], fr)
            d = self.buf(dst, site, "assignment target")
            s = self.buf(src, site, "assignment source")
            d["val"] = s["val"]
            self.oplog.append(("copy", repr(dst), repr(src), site))
            return dst
        if k == "OpCall" and e["op"] == "=":
            c = it.eval(args[0], fr)
            v = it.rvalue(args[1], fr)
            if isinstance(c, Cell):
                self.write(c, self.copy_value(v, ""), e, fr)
                return c
        if isinstance(this, Handle) and this.kind == "levels":
            if mname == "back":
                return LevelRef(self.L - 1)
            if mname == "size":
                return self.L
            if mname == "empty":
                # levels_ holds the hierarchy once setup() has built it; before that (or after clear()) it is empty
                return not bool(getattr(self, "levels_built", None) or self.bufs)
            if mname == "front":
                return LevelRef(0)
        if isinstance(this, LevelRef):
            m = mname
            if m in WHICH:
                return BufRef(this.l, self.alias.get((this.l, m), m))
            if m == "level_depth":
                return this.l
            if m == "grid":
                return Handle("grid", l=this.l)
            if m == "levelCache":
                return Handle("cache", l=this.l)
            if callee in ("Level::computeResidual", "Level::smoothing", "Level::extrapolatedSmoothing", "Level::directSolveInPlace"):
                return self.level_op(callee, this, [it.rvalue(a, fr) for a in args], site)
            if not m.startswith("initialize"):
                raise AnalysisBroken("Level method %s not modelled at %s" % (callee, site))
        if isinstance(this, Handle) and this.kind == "vec" and mname == "size" and not args:
            return this.size
        if isinstance(this, Handle) and this.kind in ("grid", "cache") and mname == "operator bool":
            return True     # the grid / cache of an existing level
        if isinstance(this, Handle) and this.kind == "grid":
            m = mname
            if m == "numberOfNodes":
                return S("N", this.l)
            return Opaque("grid." + m)
        if isinstance(this, Handle) and this.kind == "cache":
            return Opaque("cache")
        if isinstance(this, OptVal):
            m = mname
            if m == "has_value" or m == "operator bool":
                return this.present
            if m == "value":
                if not this.present:
                    self.event("bad-optional", site, "%s.value() on a disabled tolerance" % this.name)
                return S("tol", this.name)
        if isinstance(this, Ptr):
            m = mname
            if m == "operator bool":
                return this.nonnull
            if m == "get":
                return this
        if isinstance(this, ListObj):
            m = mname
            if m == "push_back" or m == "emplace_back":
                this.items.append(self.copy_value(it.rvalue(args[0], fr), ""))
                self.field_writes.add(this.name)
                return None
            if m == "clear":
                this.items = []
                self.field_writes.add(this.name)
                return None
            if m == "size":
                return len(this.items)
            if m == "empty":
                return len(this.items) == 0
            if m == "back":
                if not this.items:
                    self.event("oob-list", site, "%s.back() on an empty list" % this.name)
                    return Cell(Pair(S("OOB", this.name), S("OOB", this.name)) if "errors" in this.name else S("OOB", this.name))
                return Cell(this.items[-1], this.name + ".back()")
            if m == "front":
                if not this.items:
                    self.event("oob-list", site, "%s.front() on an empty list" % this.name)
                    return Cell(Pair(S("OOB", this.name), S("OOB", this.name)) if "errors" in this.name else S("OOB", this.name))
                return Cell(this.items[0], this.name + ".front()")
            if m == "resize" or m == "reserve":
                return None
        if isinstance(this, Pair):
            pass

        # ---- setup(): level construction and operator initialisation
        if base == "std::make_unique":
            for a in args:
                it.rvalue(a, fr)
            return Ptr(True, "make_unique")
        if callee in ("GMGPolar::createFinestGrid", "coarseningGrid"):
            for a in args:
                it.rvalue(a, fr)
            return Opaque("grid")
        if callee == "GMGPolar::chooseNumberOfLevels":
            return self.L
        if isinstance(this, Handle) and this.kind == "levels":
            m = mname
            if m == "clear":
                self.bufs = {}
                self.levels_built = 0
                self.level_ops = {}
                self.field_writes.add("levels_")
                return None
            if m == "reserve":
                it.rvalue(args[0], fr)
                return None
            if m == "emplace_back":
                vals = [it.rvalue(a, fr) for a in args]
                return self.build_level(vals, site)
        if isinstance(this, Handle) and this.kind == "threads":
            vals_ = [it.rvalue(a, fr) for a in args]
            if mname in ("resize", "assign") and vals_ and isinstance(vals_[0], int) and not isinstance(vals_[0], bool):
                this.length = vals_[0]
            elif mname == "clear":
                this.length = 0
            self.field_writes.add("threads_per_level_")
            return None
        if isinstance(this, LevelRef) and mname.startswith("initialize"):
            for a in args:
                it.rvalue(a, fr)
            if self.level_ops is None:
                self.level_ops = {}
            self.level_ops.setdefault(this.l, set()).add(mname[len("initialize"):])
            return None
        if isinstance(this, Ptr) and mname in ("nr", "ntheta", "numberOfNodes", "getAlphaJump"):
            return Opaque(callee)

        # ---- transfers through interpolation_
        if callee in TRANSFER:
            return self.transfer(callee, [it.rvalue(a, fr) for a in args], site)
        if callee == "GMGPolar::extrapolatedResidual":
            a = [it.rvalue(x, fr) for x in args]
            l = self.concrete_int(a[0], args[0], fr)
            r = self.buf(a[1], site, "in-out residual")
            rn = self.buf(a[2], site, "coarse residual")
            self.no_alias([a[1], a[2]], site, callee)
            r["val"] = r["val"].lin("XresF", l) + rn["val"].lin("XresC", l)
            self.oplog.append(("extrapolatedResidual", l, repr(a[1]), repr(a[2]), site))
            return None
        if callee == "GMGPolar::computeExactError":
            a = [it.rvalue(x, fr) for x in args]
            ex = self.gm.f["exact_solution_"].get()
            if not ex.nonnull:
                self.event("null-deref", site, "computeExactError dereferences exact_solution_, which is null in this mode")
            sol = self.buf(a[1], site, "solution")
            err = self.buf(a[2], site, "error out")
            self.no_alias([a[1], a[2]], site, callee)
            t = tfn("Err", a[0].l, sol["val"])
            err["val"] = t
            self.oplog.append(("computeExactError", repr(a[1]), repr(a[2]), site))
            return Pair(S("errW", t), S("errInf", t))
        if callee.startswith("GMGPolar::writeToVTK"):
            for x in args:
                it.rvalue(x, fr)
            return None
        if callee == "GMGPolar::build_rhs_f":
            a = [it.rvalue(x, fr) for x in args]
            b = self.buf(a[1], site, "rhs out")
            b["val"] = leaf("f_raw")
            self.oplog.append(("build_rhs_f", repr(a[1]), site))
            return None
        if callee == "GMGPolar::discretize_rhs_f":
            a = [it.rvalue(x, fr) for x in args]
            b = self.buf(a[1], site, "rhs in-out")
            b["val"] = tfn("D", a[0].l, b["val"])
            self.oplog.append(("discretize_rhs_f", repr(a[1]), site))
            return None

        # ---- vector kernels
        if base in ("assign", "add", "subtract", "multiply", "linear_combination", "l2_norm_squared", "infinity_norm",
                    "l1_norm", "dot_product"):
            return self.kernel(base, [it.rvalue(a, fr) for a in args], site)
        if base in ("sqrt", "std::sqrt"):
            v = it.rvalue(args[0], fr)
            return S("sqrt", v)
        if base in ("std::pow", "pow"):
            return S("pow", it.rvalue(args[0], fr), it.rvalue(args[1], fr))
        if base in ("std::floor", "floor", "std::ceil", "std::log", "log", "std::abs", "fabs", "std::fabs"):
            return S(base.split("::")[-1], it.rvalue(args[0], fr))
        if base in ("std::max", "std::min"):
            a, b = it.rvalue(args[0], fr), it.rvalue(args[1], fr)
            if isinstance(a, (int, Fraction)) and isinstance(b, (int, Fraction)):
                return max(a, b) if base == "std::max" else min(a, b)
            return S(base.split("::")[-1], a, b)
        if base == "std::make_pair":
            return Pair(it.rvalue(args[0], fr), it.rvalue(args[1], fr))
        if base == "std::move" and len(args) == 1:
            return it.eval(args[0], fr)
        if base in ("omp_set_num_threads",):
            it.rvalue(args[0], fr)
            return None
        if base in ("omp_get_max_threads", "omp_get_thread_num"):
            return Opaque("threads")
        if callee.startswith("std::basic_ostream") or callee.startswith("std::operator<<"):
            for a in args:
                it.rvalue(a, fr)
            return Opaque("stream")
        if callee == "GMGPolar::converged":
            fn_ = self.prog.fn("GMGPolar::converged")
            a = it.eval_args(fn_, args, fr)
            vals = [x.get() if isinstance(x, Cell) else x for x in a]
            n0 = len(self.choice_log)
            r = it.call_function(fn_, this, a, e)
            self.converged_calls.append({"args": vals, "result": r, "site": site, "choices": self.choice_log[n0:],
                                         "solution": self.bufs[(0, "solution")]["val"],
                                         "iteration": self.gm.f["number_of_iterations_"].get()})
            return r
        return NotImplemented

    def build_level(self, vals, site):
        """levels_.emplace_back(depth, grid, cache, extrapolation, FMG): interpret Level::Level's mem-initialisers"""
        ctor = [f for f in self.prog.fns("Level::Level") if len(f["params"]) == 5]
        if len(ctor) != 1:
            raise AnalysisBroken("anchor vanished: Level::Level with 5 parameters")
        ctor = ctor[0]
        depth = vals[0]
        if self.levels_built is None:
            self.event("levels-not-cleared", site, "levels_.emplace_back without a preceding levels_.clear(): levels of an earlier setup() survive")
            self.levels_built = 0
        if depth != self.levels_built:
            self.event("level-order", site, "level %r constructed at position %r of levels_" % (depth, self.levels_built))
        obj = Obj("Level")
        self.interp.call_function(ctor, obj, vals, None)
        fieldmap = {"rhs": "rhs_", "solution": "solution_", "residual": "residual_", "error_correction": "error_correction_"}
        for w, fname in fieldmap.items():
            v = obj.f.get(fname)
            v = v.get() if v is not None else None
            if not (isinstance(v, Handle) and v.kind == "vec"):
                raise AnalysisBroken("Level::Level does not construct %s as a Vector (got %r)" % (fname, v))
            self.bufs[(depth, w)] = {"alloc": v.size != 0, "val": LC.zero()}
        # which storage each accessor hands out on this level in this mode: the accessor is interpreted on the object the
        # constructor built.  Two accessors that return the same member share one buffer in everything that follows
        for w, fname in fieldmap.items():
            tgt = {}
            for f in self.prog.fns("Level::" + w):
                if f["params"]:
                    continue
                n0 = len(self.choice_log)
                r = self.interp.call_function(f, obj, [], None)
                if len(self.choice_log) != n0:
                    raise AnalysisBroken("accessor Level::%s() branches on a value the analysis does not know: %r" % (w, self.choice_log[n0:]))
                rv = r.get() if isinstance(r, Cell) else r
                hit = [w2 for w2, f2 in fieldmap.items() if obj.f.get(f2) is not None and obj.f[f2].get() is rv]
                if len(hit) != 1:
                    raise AnalysisBroken("accessor Level::%s() returns something that is not one of the four work vectors of its level" % w)
                tgt["const" if f.get("constm") else "mutable"] = hit[0]
            if "mutable" not in tgt:
                raise AnalysisBroken("anchor vanished: accessor Level::%s()" % w)
            if len(set(tgt.values())) != 1:
                self.event("accessor-mismatch", site, "on level %s the const and the non-const overload of Level::%s() return different members (%s)" % (depth, w, tgt))
            if tgt["mutable"] != w:
                self.alias[(depth, w)] = tgt["mutable"]
        self.levels_built += 1
        self.field_writes.add("levels_")
        return None

    def derive_layout(self, extrapolation, fmg):
        """storage layout of the level hierarchy as Level's constructor and accessors define it (which vectors exist, which
        accessor hands out which member), for a state made by make_state: the values the caller put into the buffers stay"""
        saved = {k: v["val"] for k, v in self.bufs.items()}
        self.levels_built = 0
        self.alias = {}
        for l in range(self.L):
            self.build_level([l, Handle("grid", l=l), Handle("cache", l=l), extrapolation, bool(fmg)], None)
        for k, v in saved.items():
            self.bufs[k]["val"] = v
        fw = self.field_writes
        fw.discard("levels_")

    def need_op(self, l, op, site):
        if self.level_ops is not None and op not in self.level_ops.get(l, ()):
            self.event("uninitialised-operator", site, "%s is used on level %d but setup() did not initialise it there in this mode" % (op, l))

    def enter(self, fn, this, fr, site):
        qn = fn["qn"]
        if "Multigrid_" in qn or "multigrid_" in qn:
            vals = []
            for p in fn["params"]:
                c = fr.vars[p["id"]]
                vals.append(c.get())
            self.cycle_calls.append((qn, vals, ir.locstr(site) if site else "?", list(self.interp.stack[:-1])))
            # aliasing of the three vector arguments
            self.no_alias(vals[1:], ir.locstr(site) if site else "?", qn)

    def no_alias(self, refs, site, callee):
        keys = [r.key() for r in refs if isinstance(r, BufRef)]
        if len(set(keys)) != len(keys):
            self.event("alias", site, "%s receives the same vector for two parameters: %s" % (callee, ", ".join(map(repr, refs))))

    def level_op(self, callee, lvl, a, site):
        l = lvl.l
        if callee == "Level::computeResidual":
            res, rhs, x = a
            self.no_alias(a, site, callee)
            rb = self.buf(res, site, "result")
            fb = self.buf(rhs, site, "rhs")
            xb = self.buf(x, site, "x")
            self.want_level(l, [res, rhs, x], site, callee)
            self.need_op(l, "Residual", site)
            rb["val"] = fb["val"] - xb["val"].lin("A", l)
            self.oplog.append(("computeResidual", l, repr(res), repr(rhs), repr(x), site))
            return None
        if callee in ("Level::smoothing", "Level::extrapolatedSmoothing"):
            x, rhs, tmp = a
            self.no_alias(a, site, callee)
            xb = self.buf(x, site, "x")
            fb = self.buf(rhs, site, "rhs")
            tb = self.buf(tmp, site, "temp")
            self.want_level(l, [x, rhs, tmp], site, callee)
            sym = "S" if callee == "Level::smoothing" else "Sx"
            self.need_op(l, "Smoothing" if sym == "S" else "ExtrapolatedSmoothing", site)
            if sym == "Sx" and l != 0:
                self.event("wrong-level", site, "extrapolated smoothing applied on level %d (only defined on the finest level)" % l)
            xb["val"] = tfn(sym, l, xb["val"], fb["val"])
            self.clob_n += 1
            tb["val"] = clob("%s temp #%d" % (sym, self.clob_n))
            self.oplog.append((sym, l, repr(x), repr(rhs), repr(tmp), site))
            return None
        if callee == "Level::directSolveInPlace":
            (x,) = a
            xb = self.buf(x, site, "x")
            self.want_level(l, [x], site, callee)
            self.need_op(l, "DirectSolver", site)
            if l != self.L - 1 and self.level_ops is None:
                self.event("wrong-level", site, "direct solve on level %d but only the coarsest level %d has a direct solver" % (l, self.L - 1))
            xb["val"] = xb["val"].lin("Solve", l)
            self.oplog.append(("Solve", l, repr(x), site))
            return None
        raise AnalysisBroken(callee)

    def want_level(self, l, refs, site, callee):
        for r in refs:
            if isinstance(r, BufRef) and r.l != l:
                self.event("wrong-level", site, "%s of level %d is applied to %r, a vector of level %d" % (callee, l, r, r.l))

    def transfer(self, callee, a, site):
        sym, d = TRANSFER[callee]
        frm, to, res, x = a
        if not isinstance(frm, LevelRef) or not isinstance(to, LevelRef):
            raise AnalysisBroken("transfer level arguments not resolved at %s" % site)
        if to.l != frm.l + d:
            self.event("wrong-level", site, "%s maps level %d to level %d (expected %d)" % (callee, frm.l, to.l, frm.l + d))
        self.no_alias([res, x], site, callee)
        rb = self.buf(res, site, "result")
        xb = self.buf(x, site, "x")
        if isinstance(x, BufRef) and x.l != frm.l:
            self.event("wrong-level", site, "%s: source %r is not a vector of the source level %d" % (callee, x, frm.l))
        if isinstance(res, BufRef) and res.l != to.l:
            self.event("wrong-level", site, "%s: result %r is not a vector of the target level %d" % (callee, res, to.l))
        rb["val"] = xb["val"].lin(sym, frm.l)
        self.oplog.append((sym, frm.l, repr(res), repr(x), site))
        return None

    def kernel(self, name, a, site):
        if name == "assign":
            b = self.buf(a[0], site, "assign target")
            v = a[1]
            if v == 0:
                b["val"] = LC.zero()
            else:
                b["val"] = tfn("Const", a[0].l, ("c", v))
            self.oplog.append(("assign", repr(a[0]), v, site))
            return None
        if name in ("add", "subtract"):
            self.no_alias(a[:2], site, name)
            b = self.buf(a[0], site, "in-out")
            c = self.buf(a[1], site, "in")
            self.same_level(a[:2], site, name)
            b["val"] = b["val"] + c["val"] if name == "add" else b["val"] - c["val"]
            self.oplog.append((name, repr(a[0]), repr(a[1]), site))
            return None
        if name == "multiply":
            b = self.buf(a[0], site, "in-out")
            b["val"] = b["val"].scale(self.frac(a[1], site))
            return None
        if name == "linear_combination":
            self.no_alias([a[0], a[2]], site, name)
            x = self.buf(a[0], site, "in-out")
            y = self.buf(a[2], site, "in")
            self.same_level([a[0], a[2]], site, name)
            x["val"] = x["val"].scale(self.frac(a[1], site)) + y["val"].scale(self.frac(a[3], site))
            self.oplog.append((name, repr(a[0]), a[1], repr(a[2]), a[3], site))
            return None
        if name == "l2_norm_squared":
            return S("l2sq", self.buf(a[0], site, "in")["val"])
        if name == "infinity_norm":
            return S("inf", self.buf(a[0], site, "in")["val"])
        if name == "l1_norm":
            return S("l1", self.buf(a[0], site, "in")["val"])
        if name == "dot_product":
            return S("dot", self.buf(a[0], site, "in")["val"], self.buf(a[1], site, "in")["val"])
        raise AnalysisBroken(name)

    def same_level(self, refs, site, name):
        ls = set(r.l for r in refs if isinstance(r, BufRef))
        if len(ls) > 1:
            self.event("wrong-level", site, "%s combines vectors of different levels: %s" % (name, ", ".join(map(repr, refs))))

    def frac(self, v, site):
        if isinstance(v, (int, Fraction)):
            return Fraction(v)
        raise AnalysisBroken("non-constant scalar coefficient %r in a vector kernel at %s" % (v, site))


def run_paths(prog, mode, body, max_paths=4096):
    """run `body(domain, interp)` for every choice vector; yields finished domains"""
    pending = [[]]
    n = 0
    while pending:
        ch = pending.pop()
        dom = DrvDomain(prog, mode, ch)
        it = Interp(prog, dom)
        base_len = len(ch)
        try:
            body(dom, it)
        except ThrowEx as t:
            dom.throws = t
        # alternatives for every choice made beyond the prescribed prefix
        for i in range(base_len, len(dom.choices)):
            alt = dom.choices[:i] + [False]
            pending.append(alt)
        n += 1
        if n > max_paths:
            raise AnalysisBroken("more than %d paths in mode %r" % (max_paths, mode))
        yield dom
