"""R-C18-1: parameter-derived index offsets in the grid generators must carry a runtime lower and upper bound.

Flow-insensitive taint over one function's structured AST:
  * an int variable is TAINTED when one of its definitions narrows a floating-point expression that depends on
    a parameter (implicit double->int conversion of floor/pow/log2/ceil/arithmetic), or is arithmetic over tainted
    variables; integer parameters themselves are tainted (nothing validated them before the call unless a
    dominating guard in this function does);
  * SINKS: a container subscript whose index mentions a tainted variable other than the governing loop counter,
    a loop bound `i < v` governing a subscript, std::advance(it, v), a shift amount `1 << v`;
  * EVIDENCE for a bound of v: a guard earlier in the function comparing v (or the narrowed source expression of
    v) in that direction whose branch throws/returns/reassigns, or a definition through std::min / std::max /
    std::clamp, or a definition that is positive by form (pow(2, k));  `assert` is compiled out and does not count.
A tainted variable reaching a sink without lower (upper) evidence is reported, at its root definition.
"""
import re

from . import ir, structq
from .conc import strip_targs

NARROWING_CALLS = ("floor", "ceil", "pow", "log2", "log", "sqrt", "round", "trunc", "std::floor", "std::ceil", "std::pow", "std::log2")


def is_int_type(t):
    t = t.replace("const ", "").replace("&", "").strip()
    return t in ("int", "long", "size_t", "std::size_t", "unsigned long", "unsigned int", "unsigned", "short")


def is_float_expr(e):
    t = e.get("t", "")
    if e.get("k") == "Float":
        return True
    if t.replace("const ", "").strip() in ("double", "float", "long double"):
        return True
    if e.get("k") == "Call" and e.get("callee", "").split("<")[0] in NARROWING_CALLS:
        return True
    return False


def refs(e):
    return [n for n in ir.walk(e) if n.get("k") == "Ref"]


def same_expr(a, b):
    return ir.show(a) == ir.show(b)


class FnTaint:
    def __init__(self, fn):
        self.fn = fn
        self.defs = {}  # var id -> list of (expr, node)
        self.vars = {}  # id -> (name, type)
        self.params = set()
        self.loopvars = {}  # id -> loop node
        for p in fn["params"]:
            self.vars[p["id"]] = (p["name"], p["t"])
            self.params.add(p["id"])
        self.guards = []  # (cond expr, if node, then_exits/assigns)
        self.collect(fn["body"])

    def collect(self, body):
        for s, guards in structq.stmts_with_guards(body):
            k = s.get("k")
            if k == "Decl":
                for v in s["vars"]:
                    self.vars[v["id"]] = (v["name"], v["t"])
                    if v.get("init") is not None:
                        self.defs.setdefault(v["id"], []).append((v["init"], v))
            if k == "For" and s.get("init") and s["init"].get("k") == "Decl":
                for v in s["init"]["vars"]:
                    self.vars[v["id"]] = (v["name"], v["t"])
                    self.loopvars[v["id"]] = s
            if k == "If":
                self.guards.append((s["c"], s))
            for e in structq.exprs_of_stmt(s):
                for tgt, node in structq.writes_in_expr(e):
                    if tgt.get("k") == "Ref":
                        rhs = node.get("b") if node.get("k") == "Assign" else None
                        if rhs is not None and node.get("op") == "=":
                            self.defs.setdefault(tgt["id"], []).append((rhs, node))
                        elif tgt["id"] not in self.loopvars:
                            self.defs.setdefault(tgt["id"], []).append((node, node))

    # -------- taint
    def tainted(self):
        t = {}
        for vid in self.params:
            name, ty = self.vars[vid]
            if is_int_type(ty):
                t[vid] = ("parameter", None)
        changed = True
        param_dep = set(self.params)
        # doubles depending on parameters
        while changed:
            changed = False
            for vid, ds in self.defs.items():
                if vid in param_dep:
                    continue
                for e, node in ds:
                    if any(r["id"] in param_dep for r in refs(e)):
                        param_dep.add(vid)
                        changed = True
                        break
        changed = True
        while changed:
            changed = False
            for vid, ds in self.defs.items():
                if vid in t or vid in self.loopvars:
                    continue
                name, ty = self.vars.get(vid, ("?", ""))
                if not is_int_type(ty):
                    continue
                for e, node in ds:
                    narrowing = self.narrows(e) and any(r["id"] in param_dep for r in refs(e))
                    derived = any(r["id"] in t and r["id"] not in self.loopvars for r in refs(e))
                    if narrowing or derived:
                        t[vid] = ("narrowing" if narrowing else "derived", node)
                        changed = True
                        break
        return t

    def narrows(self, e):
        """e (assigned to an int) has floating-point type somewhere at its top arithmetic level"""
        if is_float_expr(e):
            return True
        if e.get("k") == "Bin" and e["op"] in "+-*/":
            return self.narrows(e["a"]) or self.narrows(e["b"])
        if e.get("k") == "Cast" and is_int_type(e.get("t", "")):
            return is_float_expr(e["e"]) or self.narrows(e["e"])
        return False

    # -------- evidence
    def source_exprs(self, vid):
        """the variable and the narrowed sub-expressions it is defined from (floor(nr*percentage) for se)"""
        out = []
        for e, node in self.defs.get(vid, []):
            for n in ir.walk(e):
                if n.get("k") == "Call" and n.get("callee", "").split("<")[0] in NARROWING_CALLS:
                    out.append(n)
        return out

    def evidence(self, vid, tset):
        """(has_lower, has_upper) for variable vid, inheriting through derivation"""
        name = self.vars[vid][0]
        srcs = self.source_exprs(vid)
        # evidence carried by the definitions: must hold for EVERY definition
        dlo, dup = [], []
        for e, node in self.defs.get(vid, []):
            l = u = False
            if isinstance(e, dict):
                for n in ir.walk(e):
                    if n.get("k") == "Call":
                        c = n.get("callee", "").split("<")[0]
                        if c == "std::min":
                            u = True
                        if c == "std::max":
                            l = True
                        if c == "std::clamp":
                            l = u = True
                top = e
                while top.get("k") in ("Cast",):
                    top = top["e"]
                if top.get("k") == "Call" and top.get("callee", "").split("<")[0] in ("pow", "std::pow") and top["args"] and top["args"][0].get("k") in ("Int", "Float"):
                    l = True  # 2^k > 0
                if top.get("k") == "Int":
                    l = u = True
            dlo.append(l)
            dup.append(u)
        lo = bool(dlo) and all(dlo)
        up = bool(dup) and all(dup)
        for cond, ifn in self.guards:
            if not self.effective(ifn, vid):
                continue
            for c in ir.walk(cond):
                if c.get("k") != "Bin" or c["op"] not in ("<", "<=", ">", ">="):
                    continue
                for side, other, flip in ((c["a"], c["b"], False), (c["b"], c["a"], True)):
                    hit = (side.get("k") == "Ref" and side["id"] == vid) or any(same_expr(side, s) for s in srcs) or \
                          any(same_expr(n, s) for s in srcs for n in ir.walk(side))
                    if not hit:
                        if side.get("k") != "Ref" and any(n.get("k") == "Ref" and n["id"] == vid for n in ir.walk(side)):
                            lo = up = True  # the variable takes part in a runtime bound whose direction is not syntactic
                        continue
                    op = c["op"]
                    less = op in ("<", "<=")
                    if flip:
                        less = not less
                    if less:
                        lo = True
                    else:
                        up = True
        # inherit from ingredients (derived variables)
        for e, node in self.defs.get(vid, []):
            if isinstance(e, dict):
                ing = [r["id"] for r in refs(e) if r["id"] in tset and r["id"] != vid and r["id"] not in self.loopvars]
                monotone = all(n.get("op") in ("+", "*") for n in ir.walk(e) if n.get("k") == "Bin") and not any(n.get("k") in ("Un", "Call", "Cond") for n in ir.walk(e))
                if ing and tset[vid][0] == "derived" and monotone:
                    los, ups = zip(*[self.evidence_cached(i, tset) for i in ing])
                    lo = lo or all(los)
                    up = up or all(ups)
        return lo, up

    def evidence_cached(self, vid, tset):
        if not hasattr(self, "_ev"):
            self._ev = {}
        if vid not in self._ev:
            self._ev[vid] = (False, False)  # cycle guard
            self._ev[vid] = self.evidence(vid, tset)
        return self._ev[vid]

    def effective(self, ifn, vid):
        """the guarded branch throws, returns or reassigns something (not a mere print)"""
        for br in (ifn.get("t"), ifn.get("e")):
            if br is None:
                continue
            for n in ir.walk(br):
                if n.get("k") in ("Throw", "Return"):
                    return True
                if n.get("k") == "Assign":
                    return True
        return False

    # -------- parameter roots and container sizes
    @staticmethod
    def line_of(node):
        l = node.get("l") if isinstance(node, dict) else None
        return l[1] if l else 0

    def param_roots(self, vid, at_line=10**9, seen=None):
        """parameters that can influence variable vid through definitions textually before at_line"""
        seen = seen if seen is not None else set()
        if (vid, at_line) in seen:
            return set()
        seen.add((vid, at_line))
        if vid in self.params:
            return {vid}
        out = set()
        for e, node in self.defs.get(vid, []):
            ln = self.line_of(node)
            if ln >= at_line:
                continue
            if isinstance(e, dict):
                for r in refs(e):
                    out |= self.param_roots(r["id"], ln + 1 if r["id"] != vid else ln, seen)
        return out

    def container_roots(self):
        """container variable id -> parameter roots of every size expression it is constructed/resized with"""
        out = {}
        for s, guards in structq.stmts_with_guards(self.fn["body"]):
            if s.get("k") == "Decl":
                for v in s["vars"]:
                    i = v.get("init")
                    while i is not None and i.get("k") == "Cast":
                        i = i["e"]
                    j_ = i
                    while j_ is not None and j_.get("k") in ("Construct", "Cast", "ImplicitCast") and (j_.get("k") != "Construct" or (len(j_.get("args", [])) == 1 and (j_.get("copy") or j_.get("move")))):
                        j_ = j_["e"] if j_.get("k") != "Construct" else j_["args"][0]
                    if j_ is not None and j_.get("k") == "Call" and ("vector" in (v.get("t") or "") or "Vector" in (v.get("t") or "")) and not (j_.get("callee") or "").startswith("std::"):
                        # a vector returned by a helper of the program: how it is sized is the helper's business; a rule that
                        # works function by function cannot tell whether an index into it is covered by its size
                        self.unknown_sized = getattr(self, "unknown_sized", {})
                        self.unknown_sized[v["id"]] = (v["name"], j_.get("callee"), ir.locstr(v))
                    if i is not None and i.get("k") == "Construct" and ("vector" in i.get("t", "") or "Vector" in i.get("t", "")):
                        inner = i
                        while inner.get("k") in ("Construct", "Cast") and ((inner.get("k") == "Cast") or (len(inner.get("args", [])) == 1 and inner["args"][0].get("k") in ("Construct", "Cast"))):
                            inner = inner["e"] if inner.get("k") == "Cast" else inner["args"][0]
                        for a in inner.get("args", [])[:1]:
                            rs = set()
                            for r in refs(a):
                                rs |= self.param_roots(r["id"], self.line_of(v) + 1)
                            out.setdefault(v["id"], set()).update(rs)
            for e in structq.exprs_of_stmt(s):
                for n in ir.walk(e):
                    if n.get("k") == "Call" and strip_targs(n.get("callee", "")).endswith("::resize") and n.get("this") is not None and n["this"].get("k") == "Ref" and n["args"]:
                        rs = set()
                        for r in refs(n["args"][0]):
                            rs |= self.param_roots(r["id"], self.line_of(n) + 1)
                        out.setdefault(n["this"]["id"], set()).update(rs)
        return out

    @staticmethod
    def container_of(n):
        b = n.get("base") if n.get("k") == "Index" else (n["args"][0] if n.get("k") == "OpCall" else None)
        if b is not None and b.get("k") == "Ref":
            return b["id"]
        return None

    # -------- sinks
    def sinks(self, tset):
        out = []
        croots = self.container_roots()

        def exempt(vid, node):
            c = self.container_of(node) if node.get("k") in ("Index", "OpCall") else None
            if c is not None and c in getattr(self, "unknown_sized", {}):
                nm, cal, at = self.unknown_sized[c]
                raise ir.AnalysisBroken("the vector `%s` indexed at %s is sized inside %s (declared at %s): whether the parameter-derived index is covered by its size cannot be decided function by function" % (nm, ir.locstr(node), cal, at))
            if c is None or c not in croots:
                return False
            return self.param_roots(vid, self.line_of(node) + 1) <= croots[c]

        for s, guards in structq.stmts_with_guards(self.fn["body"]):
            for e in structq.exprs_of_stmt(s):
                for n in ir.walk(e):
                    idx = None
                    kind = None
                    if n.get("k") == "Index":
                        idx, kind = n["idx"], "subscript"
                    elif n.get("k") == "OpCall" and n.get("op") == "[]" and len(n.get("args", [])) == 2:
                        idx, kind = n["args"][1], "subscript"
                    elif n.get("k") == "Call" and n.get("callee", "").startswith("std::advance") and len(n["args"]) == 2:
                        idx, kind = n["args"][1], "iterator advance"
                    elif n.get("k") in ("Call", "OpCall") and "__normal_iterator" in (n.get("callee") or "") and re.search(r"operator(\+=|-=|\+|-)", n.get("callee") or "") and n.get("args"):
                        # `v.begin() + k`, `it += k`: the same thing as a subscript / std::advance
                        idx, kind = n["args"][-1], "iterator offset"
                    elif n.get("k") == "Bin" and n.get("op") == "<<" and n["a"].get("k") == "Int":
                        idx, kind = n["b"], "shift amount"
                    if idx is None:
                        continue
                    for r in refs(idx):
                        if r["id"] in tset and r["id"] not in self.loopvars and not exempt(r["id"], n):
                            out.append((r["id"], kind, n))
            if s.get("k") == "For" and s.get("c") is not None:
                # loop bound governing subscripts in the body
                c = s["c"]
                if c.get("k") == "Bin" and c["op"] in ("<", "<="):
                    subs = [n for n in ir.walk(s["body"]) if n.get("k") in ("Index",) or (n.get("k") == "OpCall" and n.get("op") == "[]")]
                    for r in refs(c["b"]):
                        if r["id"] in tset and r["id"] not in self.loopvars:
                            if any(not exempt(r["id"], n) for n in subs):
                                out.append((r["id"], "loop bound", s))
        return out

    def roots(self, vid, tset, seen=None):
        """root tainted variables a derived variable comes from"""
        seen = seen or set()
        if vid in seen:
            return set()
        seen.add(vid)
        if tset[vid][0] != "derived":
            return {vid}
        out = set()
        for e, node in self.defs.get(vid, []):
            if isinstance(e, dict):
                for r in refs(e):
                    if r["id"] in tset and r["id"] != vid and r["id"] not in self.loopvars:
                        out |= self.roots(r["id"], tset, seen)
        return out or {vid}

    def report(self):
        """list of (root var name, missing 'lower'|'upper', sink kind, sink node, root def node)"""
        tset = self.tainted()
        res = {}
        def blame(vid, which, depth=0):
            if depth > 8 or tset[vid][0] != "derived":
                return vid
            for e, node in self.defs.get(vid, []):
                if isinstance(e, dict):
                    for r in refs(e):
                        i = r["id"]
                        if i in tset and i != vid and i not in self.loopvars and not self.evidence_cached(i, tset)[which]:
                            return blame(i, which, depth + 1)
            return vid

        for vid, kind, node in self.sinks(tset):
            lo, up = self.evidence_cached(vid, tset)
            for wi, (missing, ok) in enumerate((("lower", lo), ("upper", up))):
                if kind == "loop bound" and missing == "lower":
                    continue  # a negative bound means no iteration
                if not ok:
                    b = blame(vid, wi)
                    res.setdefault((self.vars[b][0], missing), (kind, node, tset[b][1], self.vars[vid][0]))
        return res, tset
